// atomic_hook.h - force-included (-include) into every translation unit of the LIBRARY in the build variant "sch":
// std::atomic<T> of the library's own code becomes a wrapper that passes through the GWB_VERIF yield hook before every
// operation, so that the cooperative scheduler of C14 gets a scheduling point at each atomic access of the library
// (locks are interposed at link level: pthread_mutex_*). With no hook installed the wrapper behaves like std::atomic.
// Every standard header is included first: the mapping must only touch the library's code, not the standard library.
#pragma once
#ifdef __cplusplus
#include <algorithm>
#include <array>
#include <atomic>
#include <cfenv>
#include <chrono>
#include <cmath>
#include <condition_variable>
#include <cstring>
#include <deque>
#include <fstream>
#include <functional>
#include <future>
#include <iomanip>
#include <iostream>
#include <iterator>
#include <limits>
#include <list>
#include <map>
#include <memory>
#include <mutex>
#include <numeric>
#include <queue>
#include <random>
#include <set>
#include <shared_mutex>
#include <sstream>
#include <stack>
#include <stdexcept>
#include <string>
#include <thread>
#include <tuple>
#include <type_traits>
#include <typeinfo>
#include <unordered_map>
#include <unordered_set>
#include <utility>
#include <vector>
#include "world_builder/verif_hooks.h"

namespace verif_hook
{
  template <typename V>
  struct atomic_hook
  {
    std::atomic<V> v;
    atomic_hook() noexcept = default;
    constexpr atomic_hook(V x) noexcept : v(x) {}
    atomic_hook(const atomic_hook &) = delete;
    atomic_hook &operator=(const atomic_hook &) = delete;
    static void point(int site) { GWB_VERIF_YIELD(site); }
    V load(std::memory_order o = std::memory_order_seq_cst) const noexcept { point(200); return v.load(o); }
    void store(V x, std::memory_order o = std::memory_order_seq_cst) noexcept { point(201); v.store(x, o); }
    operator V() const noexcept { return load(); }
    V operator=(V x) noexcept { store(x); return x; }
    V exchange(V x, std::memory_order o = std::memory_order_seq_cst) noexcept { point(202); return v.exchange(x, o); }
    bool compare_exchange_weak(V &e, V d, std::memory_order o = std::memory_order_seq_cst) noexcept { point(203); return v.compare_exchange_strong(e, d, o); }
    bool compare_exchange_weak(V &e, V d, std::memory_order o, std::memory_order f) noexcept { point(203); return v.compare_exchange_strong(e, d, o, f); }
    bool compare_exchange_strong(V &e, V d, std::memory_order o = std::memory_order_seq_cst) noexcept { point(203); return v.compare_exchange_strong(e, d, o); }
    bool compare_exchange_strong(V &e, V d, std::memory_order o, std::memory_order f) noexcept { point(203); return v.compare_exchange_strong(e, d, o, f); }
    V fetch_add(V x, std::memory_order o = std::memory_order_seq_cst) noexcept { point(204); return v.fetch_add(x, o); }
    V fetch_sub(V x, std::memory_order o = std::memory_order_seq_cst) noexcept { point(204); return v.fetch_sub(x, o); }
    V fetch_and(V x, std::memory_order o = std::memory_order_seq_cst) noexcept { point(204); return v.fetch_and(x, o); }
    V fetch_or(V x, std::memory_order o = std::memory_order_seq_cst) noexcept { point(204); return v.fetch_or(x, o); }
    V fetch_xor(V x, std::memory_order o = std::memory_order_seq_cst) noexcept { point(204); return v.fetch_xor(x, o); }
    V operator++() noexcept { return fetch_add(1) + 1; }
    V operator++(int) noexcept { return fetch_add(1); }
    V operator--() noexcept { return fetch_sub(1) - 1; }
    V operator--(int) noexcept { return fetch_sub(1); }
    V operator+=(V x) noexcept { return fetch_add(x) + x; }
    V operator-=(V x) noexcept { return fetch_sub(x) - x; }
    bool is_lock_free() const noexcept { return true; }
  };
}
namespace std { template <typename V> using verif_hooked_atomic = ::verif_hook::atomic_hook<V>; }
#define atomic verif_hooked_atomic
#endif
