// coopsched.h - cooperative, preemption-bounded scheduler (E3).
//
// Exactly one managed thread runs at a time; control changes hands only at scheduling points:
//   * after pthread_create (interposed: std::thread of the code under test ends up here),
//   * in pthread_join (blocking), at thread exit,
//   * at the GWB_VERIF_YIELD hooks inside World::properties,
//   * in pthread_mutex_lock / unlock (interposed; a thread waiting for a held mutex is not enabled),
//   * before every operation on a sched::atomic_hook<T> (the harness maps std::atomic of the code under test onto it).
// An execution is determined by the sequence of choices taken at the scheduling points; the explorer
// enumerates all executions with at most `bound` preemptions (iterative context bounding, CHESS).
// Hand-off uses one futex word per thread. Outside a managed run the interposed functions pass through.
#pragma once
#include <atomic>
#include <climits>
#include <cstdio>
#include <cstdlib>
#include <cstring>
#include <dlfcn.h>
#include <functional>
#include <linux/futex.h>
#include <map>
#include <pthread.h>
#include <string>
#include <sys/syscall.h>
#include <unistd.h>
#include <vector>

namespace sched
{
  struct Point
  {
    std::vector<int> enabled;   // canonical order: running thread first if enabled, then ascending ids
    int chosen = 0;             // index into enabled
    bool running_enabled = false;
    int site = 0;               // what kind of scheduling point (for traces): 100 create, 101 join, 102 exit, else yield site
  };
  struct Trace
  {
    std::vector<Point> points;
    bool deadlock = false;
    bool diverged = false;      // replayed prefix did not fit (hard error)
    std::vector<int> choices() const { std::vector<int> c; for (auto &p : points) c.push_back(p.chosen); return c; }
    int preemptions_before(size_t i) const
    {
      int n = 0;
      for (size_t j = 0; j < i; ++j) if (points[j].running_enabled && points[j].chosen != 0) ++n;
      return n;
    }
  };

  struct T
  {
    std::atomic<int> go{0};      // futex word: 1 = may run
    bool finished = false;
    int blocked_on = -1;         // id of the thread this one joins
    const void *blocked_mutex = nullptr;   // the mutex this thread waits for
    pthread_t real{};
    void *(*fn)(void *) = nullptr;
    void *arg = nullptr;
  };

  struct State
  {
    bool active = false;
    std::vector<T *> threads;
    int current = 0;
    std::vector<int> prefix;
    Trace trace;
    size_t max_points = 100000;
    std::map<const void *, int> mutex_owner;
  };
  inline State &S() { static State s; return s; }
  inline thread_local int my_id = -1;

  inline void futex_wait(std::atomic<int> &w)
  {
    while (w.load(std::memory_order_acquire) == 0)
      syscall(SYS_futex, reinterpret_cast<int *>(&w), FUTEX_WAIT, 0, nullptr, nullptr, 0);
    w.store(0, std::memory_order_relaxed);
  }
  inline void futex_post(std::atomic<int> &w)
  {
    w.store(1, std::memory_order_release);
    syscall(SYS_futex, reinterpret_cast<int *>(&w), FUTEX_WAKE, 1, nullptr, nullptr, 0);
  }

  inline bool is_enabled(int id)
  {
    State &s = S();
    const T &t = *s.threads[static_cast<size_t>(id)];
    if (t.finished) return false;
    if (t.blocked_on >= 0 && !s.threads[static_cast<size_t>(t.blocked_on)]->finished) return false;
    if (t.blocked_mutex && s.mutex_owner.count(t.blocked_mutex)) return false;
    return true;
  }

  // The calling thread is `current`. Decide who runs next and hand over if necessary.
  inline void schedule_point(int site)
  {
    State &s = S();
    if (!s.active) return;
    const int me = s.current;
    Point p;
    p.site = site;
    p.running_enabled = is_enabled(me);
    if (p.running_enabled) p.enabled.push_back(me);
    for (int id = 0; id < static_cast<int>(s.threads.size()); ++id) if (id != me && is_enabled(id)) p.enabled.push_back(id);
    if (p.enabled.empty())
      {
        bool all = true;
        for (auto *t : s.threads) if (!t->finished) all = false;
        if (!all) { s.trace.deadlock = true; fprintf(stderr, "sched: DEADLOCK at point %zu\n", s.trace.points.size()); fflush(stderr); _exit(97); }
        return;   // last thread finished
      }
    const size_t pos = s.trace.points.size();
    int choice = 0;
    if (pos < s.prefix.size())
      {
        choice = s.prefix[pos];
        if (choice < 0 || choice >= static_cast<int>(p.enabled.size())) { s.trace.diverged = true; fprintf(stderr, "sched: replay divergence at point %zu (choice %d of %zu)\n", pos, choice, p.enabled.size()); fflush(stderr); _exit(98); }
      }
    p.chosen = choice;
    s.trace.points.push_back(p);
    if (s.trace.points.size() > s.max_points) { fprintf(stderr, "sched: too many scheduling points\n"); _exit(96); }
    const int next = p.enabled[static_cast<size_t>(choice)];
    if (next == me) return;
    s.current = next;
    T *mine = s.threads[static_cast<size_t>(me)];
    const bool i_continue_later = !mine->finished;
    futex_post(s.threads[static_cast<size_t>(next)]->go);
    if (i_continue_later) futex_wait(mine->go);
  }

  inline void yield(int site) { if (S().active && my_id >= 0) schedule_point(site); }

  struct Start { int id; };
  inline void *trampoline(void *a)
  {
    Start *st = static_cast<Start *>(a);
    const int id = st->id;
    delete st;
    my_id = id;
    State &s = S();
    T *t = s.threads[static_cast<size_t>(id)];
    futex_wait(t->go);            // wait until first scheduled
    void *r = t->fn(t->arg);
    t->finished = true;
    schedule_point(102);          // hand over (this thread is no longer enabled)
    return r;
  }

  typedef int (*create_fn)(pthread_t *, const pthread_attr_t *, void *(*)(void *), void *);
  typedef int (*join_fn)(pthread_t, void **);
  inline create_fn real_create() { static create_fn f = reinterpret_cast<create_fn>(dlsym(RTLD_NEXT, "pthread_create")); return f; }
  inline join_fn real_join() { static join_fn f = reinterpret_cast<join_fn>(dlsym(RTLD_NEXT, "pthread_join")); return f; }

  inline int managed_create(pthread_t *thread, const pthread_attr_t *attr, void *(*fn)(void *), void *arg)
  {
    State &s = S();
    T *t = new T();
    t->fn = fn; t->arg = arg;
    const int id = static_cast<int>(s.threads.size());
    s.threads.push_back(t);
    const int rc = real_create()(&t->real, attr, trampoline, new Start{id});
    if (rc != 0) { fprintf(stderr, "sched: pthread_create failed\n"); _exit(95); }
    *thread = t->real;
    schedule_point(100);
    return 0;
  }
  inline int managed_join(pthread_t thread, void **ret)
  {
    State &s = S();
    int target = -1;
    for (int id = 0; id < static_cast<int>(s.threads.size()); ++id) if (id != 0 && pthread_equal(s.threads[static_cast<size_t>(id)]->real, thread)) target = id;
    if (target < 0) return real_join()(thread, ret);
    T *me = s.threads[static_cast<size_t>(s.current)];
    if (!s.threads[static_cast<size_t>(target)]->finished)
      {
        me->blocked_on = target;
        schedule_point(101);      // not enabled until the target has finished
        me->blocked_on = -1;
      }
    return real_join()(thread, ret);   // the target has run its body; its tail finishes by itself
  }

  // mutexes: ownership is modelled by the scheduler (exactly one managed thread runs at a time, the real lock is never contended)
  inline int managed_mutex_lock(const void *m, bool try_only)
  {
    State &s = S();
    schedule_point(103);          // acquiring a lock is a synchronisation operation: another thread may run first
    for (;;)
      {
        auto it = s.mutex_owner.find(m);
        if (it == s.mutex_owner.end()) break;
        if (try_only) return 16;  // EBUSY
        if (it->second == s.current) { fprintf(stderr, "sched: thread %d locks a mutex it already holds\n", s.current); fflush(stderr); _exit(94); }
        T *me = s.threads[static_cast<size_t>(s.current)];
        me->blocked_mutex = m;
        schedule_point(104);      // not enabled until the owner has released the mutex
        me->blocked_mutex = nullptr;
      }
    s.mutex_owner[m] = s.current;
    return 0;
  }
  inline int managed_mutex_unlock(const void *m)
  {
    State &s = S();
    s.mutex_owner.erase(m);
    schedule_point(105);
    return 0;
  }

  // std::atomic of the code under test, with a scheduling point in front of every operation
  template <typename V>
  struct atomic_hook
  {
    std::atomic<V> v;
    atomic_hook() noexcept = default;
    constexpr atomic_hook(V x) noexcept : v(x) {}
    atomic_hook(const atomic_hook &) = delete;
    atomic_hook &operator=(const atomic_hook &) = delete;
    V load(std::memory_order o = std::memory_order_seq_cst) const noexcept { yield(200); return v.load(o); }
    void store(V x, std::memory_order o = std::memory_order_seq_cst) noexcept { yield(201); v.store(x, o); }
    operator V() const noexcept { return load(); }
    V operator=(V x) noexcept { store(x); return x; }
    V exchange(V x, std::memory_order o = std::memory_order_seq_cst) noexcept { yield(202); return v.exchange(x, o); }
    // (no spurious failures under the scheduler)
    bool compare_exchange_weak(V &e, V d, std::memory_order o = std::memory_order_seq_cst) noexcept { yield(203); return v.compare_exchange_strong(e, d, o); }
    bool compare_exchange_weak(V &e, V d, std::memory_order o, std::memory_order f) noexcept { yield(203); return v.compare_exchange_strong(e, d, o, f); }
    bool compare_exchange_strong(V &e, V d, std::memory_order o = std::memory_order_seq_cst) noexcept { yield(203); return v.compare_exchange_strong(e, d, o); }
    bool compare_exchange_strong(V &e, V d, std::memory_order o, std::memory_order f) noexcept { yield(203); return v.compare_exchange_strong(e, d, o, f); }
    V fetch_add(V x, std::memory_order o = std::memory_order_seq_cst) noexcept { yield(204); return v.fetch_add(x, o); }
    V fetch_sub(V x, std::memory_order o = std::memory_order_seq_cst) noexcept { yield(204); return v.fetch_sub(x, o); }
    V fetch_and(V x, std::memory_order o = std::memory_order_seq_cst) noexcept { yield(204); return v.fetch_and(x, o); }
    V fetch_or(V x, std::memory_order o = std::memory_order_seq_cst) noexcept { yield(204); return v.fetch_or(x, o); }
    V fetch_xor(V x, std::memory_order o = std::memory_order_seq_cst) noexcept { yield(204); return v.fetch_xor(x, o); }
    V operator++() noexcept { return fetch_add(1) + 1; }
    V operator++(int) noexcept { return fetch_add(1); }
    V operator--() noexcept { return fetch_sub(1) - 1; }
    V operator--(int) noexcept { return fetch_sub(1); }
    V operator+=(V x) noexcept { return fetch_add(x) + x; }
    V operator-=(V x) noexcept { return fetch_sub(x) - x; }
    bool is_lock_free() const noexcept { return true; }
  };

  // Runs body() under the scheduler with the given choice prefix (choice 0 afterwards).
  inline Trace run(const std::function<void()> &body, const std::vector<int> &prefix)
  {
    State &s = S();
    for (auto *t : s.threads) delete t;
    s.threads.clear();
    s.trace = Trace();
    s.mutex_owner.clear();
    s.prefix = prefix;
    T *main_t = new T();
    s.threads.push_back(main_t);
    s.current = 0;
    my_id = 0;
    s.active = true;
    body();
    s.active = false;
    return s.trace;
  }

  struct Stats { unsigned long long executions = 0, points = 0, max_points = 0, preempting_executions = 0; };

  // iterative context bounding: all executions with at most `bound` preemptions
  // (the subtree below `start`; with recurse == false only `start` itself is executed)
  inline void explore(const std::function<void()> &body, int bound, const std::function<void(const Trace &)> &check, Stats &st, const std::function<bool()> &stop,
                      const std::vector<int> &start = {}, bool recurse = true)
  {
    std::function<void(const std::vector<int> &)> rec = [&](const std::vector<int> &prefix)
    {
      if (stop()) return;
      const Trace x = run(body, prefix);
      ++st.executions;
      st.points += x.points.size();
      st.max_points = std::max<unsigned long long>(st.max_points, x.points.size());
      if (x.preemptions_before(x.points.size()) > 0) ++st.preempting_executions;
      check(x);
      if (!recurse) return;
      const std::vector<int> ch = x.choices();
      for (size_t i = prefix.size(); i < x.points.size(); ++i)
        {
          const Point &p = x.points[i];
          int cost = x.preemptions_before(i);
          if (p.running_enabled) ++cost;
          if (cost > bound) continue;
          for (int alt = 1; alt < static_cast<int>(p.enabled.size()); ++alt)
            {
              std::vector<int> np(ch.begin(), ch.begin() + static_cast<long>(i));
              np.push_back(alt);
              rec(np);
            }
        }
    };
    rec(start);
  }
}

// ---- link-time interposition (define SCHED_INTERPOSE in exactly one translation unit of the harness) ----
#ifdef SCHED_INTERPOSE
extern "C" int pthread_create(pthread_t *thread, const pthread_attr_t *attr, void *(*fn)(void *), void *arg)
{
  if (sched::S().active && sched::my_id >= 0) return sched::managed_create(thread, attr, fn, arg);
  return sched::real_create()(thread, attr, fn, arg);
}
extern "C" int pthread_join(pthread_t thread, void **ret)
{
  if (sched::S().active && sched::my_id >= 0) return sched::managed_join(thread, ret);
  return sched::real_join()(thread, ret);
}
namespace sched
{
  typedef int (*mutex_fn)(pthread_mutex_t *);
  inline mutex_fn real_mutex(const char *name) { return reinterpret_cast<mutex_fn>(dlsym(RTLD_NEXT, name)); }
}
extern "C" int pthread_mutex_lock(pthread_mutex_t *m)
{
  if (sched::S().active && sched::my_id >= 0) return sched::managed_mutex_lock(m, false);
  static sched::mutex_fn f = sched::real_mutex("pthread_mutex_lock");
  return f(m);
}
extern "C" int pthread_mutex_trylock(pthread_mutex_t *m)
{
  if (sched::S().active && sched::my_id >= 0) return sched::managed_mutex_lock(m, true);
  static sched::mutex_fn f = sched::real_mutex("pthread_mutex_trylock");
  return f(m);
}
extern "C" int pthread_mutex_unlock(pthread_mutex_t *m)
{
  if (sched::S().active && sched::my_id >= 0) return sched::managed_mutex_unlock(m);
  static sched::mutex_fn f = sched::real_mutex("pthread_mutex_unlock");
  return f(m);
}
#endif
