// worlds.h - "rich" worlds that contain every feature type with temperature, composition, grains
// and velocity models; shared by C01, C09, C14, C16, C17, C18.
#pragma once
#include "wbgen.h"
#include <functional>

namespace worlds
{
  using namespace wbgen;

  struct Opt
  {
    bool spherical = false;
    bool cross_section = true;
    bool force_surface = false;
    bool random_models = false;   // add random grains / composition models (C15, C16)
    int variant = 0;              // 0: standard; 1: different constants and geometry (a "second file")
    bool custom_cs = false; P2 cs0 = {{0,0}}, cs1 = {{1,0}};   // cross section end points in lattice units
    double shift = 0;             // added to every x / longitude in the file (lattice units), e.g. 178 moves a spherical world across the dateline
    double scale = 1;             // multiplies the lattice unit (e.g. 8: a spherical world spanning +-40 degrees)
    std::function<P2(const P2 &)> map;   // applied to every surface coordinate written to the file (C08: rigid motions)
    double plume_azimuth_shift = 0;      // added to the plume's 'rotation angles' (degrees, clockwise from north)
    bool depth_points = false;           // continental max depth and mantle-layer min depth given as values at points
    bool area_only = false;              // no plume, slab or fault
    bool multi_ridge = false;            // oceanic plate: two oblique ridge segments offset along a transform fault, spreading velocity varying along them
    int slab_model = 0;                  // 0: plate model; 1: mass conserving; 2: mass conserving with a spline of 4 points
    bool second_slab = false;            // a second, short slab in the north-west (mass conserving, spline of 5 points) dipping west
    bool water = false;                  // 'tian water content' composition models (temperature- and pressure-dependent) on the oceanic plate and the slab
    bool long_traces = false;            // three small faults and a small slab on long traces in different directions (along x, along y, diagonal)
    bool many_depth_points = false;      // the continental plate's max depth is given at 20 points in general position
    bool without_layer = false;          // no mantle layer: the continental plate is the first feature of the list (tag 0)
    unsigned depth_seed = 0;             // added to the seeds of the pseudo-random depth surfaces of many_depth_points (another set of surfaces over the same polygons)
    bool sparse = false;                 // features lack whole kinds of models (plume: no velocity / grains models, slab: no composition / velocity, fault: no temperature / grains, continental plate: no grains, oceanic plate: no velocity)
    bool partial = false;                // features only partly replace what the features before them left: 'add' operations (temperature, composition, velocity), a subtracting composition model that leaves negative values, slab / fault models limited to part of the thickness
  };

  inline std::string uniform_grains(const std::string &comps, int n, double a0)
  {
    std::string e = "[", s = "[";
    for (int i = 0; i < n; ++i)
      {
        e += (i ? "," : "") + std::string("[") + num(a0 + 10*i) + "," + num(20 + a0/2 + 5*i) + "," + num(30 + 7*i) + "]";
        s += (i ? "," : "") + std::string(i == 0 ? "0.25" : "-1");
      }
    return "{\"model\":\"uniform\",\"compositions\":" + comps + ",\"Euler angles z-x-z\":" + e + "],\"grain sizes\":" + s + "]}";
  }

  // removes the whole entry ,"<kind> models":[...] from a feature
  inline std::string strip_models(std::string f, const std::string &kind)
  {
    const std::string key = ",\"" + kind + " models\":[";
    const size_t a = f.find(key);
    if (a == std::string::npos) return f;
    size_t i = a + key.size(); int depth = 1;
    for (; i < f.size() && depth > 0; ++i) { if (f[i] == '[') ++depth; else if (f[i] == ']') --depth; }
    return f.erase(a, i - a);
  }

  // s: lattice unit (1e5 m cartesian, 1 degree spherical)
  inline std::string rich(const Opt &o)
  {
    const double s = (o.spherical ? 1.0 : 1e5) * o.scale;
    const double shift = (o.variant == 1 ? 0.5 : 0.0) + o.shift;
    auto M = [&](double x, double y) { const P2 q = {{(x+shift)*s, y*s}}; return o.map ? o.map(q) : q; };
    auto sq = [&](double x0, double x1, double y0, double y1)
    { return pts({M(x0,y0), M(x1,y0), M(x1,y1), M(x0,y1)}); };
    auto P = [&](double x, double y) { return pt(M(x, y)); };
    // depth surfaces given at 30 pseudo-random points each (fixed sequence): points in general position, so that the triangulation is unique
    auto many_points = [&](double x0, double x1, double y0, double y1, double v0, double v1, unsigned seed, const std::string &dflt)
    {
      std::string out = "[[" + dflt + "]";
      unsigned long long st = seed + o.depth_seed;
      auto rnd = [&]() { st = st * 6364136223846793005ULL + 1442695040888963407ULL; return static_cast<double>((st >> 33) % 1000003) / 1000003.0; };
      for (int i = 0; i < 30; ++i)
        {
          const double x = x0 + 0.15 + (x1 - x0 - 0.3) * rnd(), y = y0 + 0.15 + (y1 - y0 - 0.3) * rnd(), v = v0 + (v1 - v0) * rnd();
          out += ",[" + num(std::round(v)) + ",[" + P(std::round(x*1000)/1000, std::round(y*1000)/1000) + "]]";
        }
      return out + "]";
    };
    const std::string many = o.many_depth_points ? many_points(-5, 0, -5, 5, 1.0e5, 2.2e5, 11, "1.5e5") : std::string();
    std::vector<std::string> f;
    f.push_back("{\"model\":\"mantle layer\",\"name\":\"ML\",\"min depth\":" + (o.many_depth_points ? many_points(-5, 5, -5, 5, 0.6e5, 1.4e5, 23, "1e5") : o.depth_points ? "[[1e5],[1.6e5,[" + P(-2.5,-2.5) + "," + P(3,1) + "]],[0.7e5,[" + P(2,-3) + "]]]" : std::string("1e5")) + ",\"max depth\":4e5,\"coordinates\":" + sq(-5,5,-5,5) +
                ",\"temperature models\":[{\"model\":\"linear\",\"min depth\":1e5,\"max depth\":4e5,\"top temperature\":1500,\"bottom temperature\":1700}]"
                ",\"composition models\":[{\"model\":\"uniform\",\"compositions\":[2]}]"
                ",\"grains models\":[" + uniform_grains("[0,1]", 2, 10) + "]"
                ",\"velocity models\":[{\"model\":\"uniform raw\",\"velocity\":[0.01,0.02,0.03]" + std::string(o.partial ? ",\"operation\":\"add\"" : "") + "}]}");
    f.push_back("{\"model\":\"continental plate\",\"name\":\"CP\",\"max depth\":" + (o.many_depth_points ? many : o.depth_points ? "[[1.5e5],[0.9e5,[" + P(-2.5,0) + "," + P(-5,5) + "]],[2.1e5,[" + P(-1,-3) + "]]]" : std::string("1.5e5")) + ",\"coordinates\":" + sq(-5,0,-5,5) +
                ",\"temperature models\":[{\"model\":\"linear\",\"max depth\":1.5e5,\"top temperature\":300,\"bottom temperature\":1400" + std::string(o.partial ? ",\"operation\":\"add\"" : "") + "}]"
                ",\"composition models\":[{\"model\":\"uniform\",\"compositions\":[0]" + std::string(o.partial ? ",\"operation\":\"add\"" : "") + "}" +
                (o.random_models ? ",{\"model\":\"random\",\"compositions\":[3],\"min value\":[0.2],\"max value\":[0.7],\"operation\":\"replace defined only\"}" : "") + "]"
                ",\"grains models\":[" + uniform_grains("[0]", 1, 15) + (o.random_models ? ",{\"model\":\"random uniform distribution\",\"compositions\":[1],\"grain sizes\":[-1],\"normalize grain sizes\":[true]}" : "") + "]"
                ",\"velocity models\":[{\"model\":\"uniform raw\",\"velocity\":[-0.04,0.05,0.001]" + std::string(o.partial ? ",\"operation\":\"add\"" : "") + "}]}");
    f.push_back("{\"model\":\"oceanic plate\",\"name\":\"OP\",\"max depth\":" + (o.many_depth_points ? many_points(0, 5, -5, 5, 0.7e5, 1.3e5, 37, "1e5") : std::string("1e5")) + ",\"coordinates\":" + sq(0,5,-5,5) +
                ",\"temperature models\":[{\"model\":\"half space model\",\"max depth\":1e5,\"top temperature\":280,\"bottom temperature\":1600,"
                + (o.multi_ridge ? "\"spreading velocity\":[[0,[[0.03,0.05],[0.02,0.04]]]],\"ridge coordinates\":[[" + P(4.5,-6) + "," + P(4.0,0.25) + "],[" + P(3.0,-0.25) + "," + P(3.5,6) + "]]}]"
                   : "\"spreading velocity\":0.03,\"ridge coordinates\":[[" + P(4.5,-6) + "," + P(4.5,6) + "]]}]") +
                ",\"composition models\":[{\"model\":\"uniform\",\"compositions\":[1,0],\"fractions\":[0.75,0.25]}" +
                (o.random_models ? ",{\"model\":\"uniform\",\"compositions\":[3],\"operation\":\"replace defined only\"}" : "") +
                (o.partial ? ",{\"model\":\"uniform\",\"compositions\":[2,0],\"fractions\":[0.3,0.4],\"operation\":\"subtract\"}" : "") +
                (o.water ? ",{\"model\":\"tian water content\",\"compositions\":[1],\"lithology\":\"MORB\",\"initial water content\":1,\"cutoff pressure\":16,\"min depth\":2e3,\"max depth\":6e4,\"operation\":\"add\"}"
                           ",{\"model\":\"tian water content\",\"compositions\":[0],\"lithology\":\"sediment\",\"initial water content\":3,\"cutoff pressure\":1,\"max depth\":2e3,\"operation\":\"replace defined only\"}" : "") + "]"
                ",\"grains models\":[" + uniform_grains("[1]", 1, 25) + (o.random_models ? ",{\"model\":\"random uniform distribution\",\"compositions\":[0],\"grain sizes\":[-1],\"normalize grain sizes\":[true]}" : "") + "]"
                ",\"velocity models\":[{\"model\":\"uniform raw\",\"velocity\":[0.06,-0.01,0.002]}]}");
    f.push_back("{\"model\":\"plume\",\"name\":\"PL\",\"min depth\":2e4,\"max depth\":6e5,\"coordinates\":[" + P(-2,2) + "," + P(-2.2,2.1) + "," + P(-2.5,2.5) + "]"
                ",\"cross section depths\":[1e5,2e5,4e5],\"semi-major axis\":[" + num(1.2*s) + "," + num(0.8*s) + "," + num(1.0*s) + "]"
                ",\"eccentricity\":" + std::string(o.variant == 1 ? "[0.3,0.9,0.8]" : "[0.3,0.5,0.0]") + ",\"rotation angles\":[" + num(std::fmod(350 + o.plume_azimuth_shift + 720, 360.0)) + "," + num(std::fmod((o.variant == 1 ? 60 : 10) + o.plume_azimuth_shift + 720, 360.0)) + "," + num(std::fmod((o.variant == 1 ? 20 : 40) + o.plume_azimuth_shift + 720, 360.0)) + "]"
                ",\"temperature models\":[{\"model\":\"gaussian\",\"operation\":\"add\",\"centerline temperatures\":[150,250],\"gaussian sigmas\":[0.3,0.4],\"depths\":[5e4,5e5]}]"
                ",\"composition models\":[{\"model\":\"uniform\",\"compositions\":[3]}]"
                ",\"grains models\":[" + uniform_grains("[0,1]", 2, 35) + "]"
                ",\"velocity models\":[{\"model\":\"uniform raw\",\"velocity\":[0,0,0.1]}]}");
    f.push_back("{\"model\":\"subducting plate\",\"name\":\"SL\",\"coordinates\":[" + P(1,-4) + "," + P(1.2,0) + "," + P(1,4) + "],\"dip point\":" + P(20,0) +
                ",\"segments\":[{\"length\":2e5,\"thickness\":[8e4],\"angle\":[30,60]},{\"length\":1.5e5,\"thickness\":[8e4,6e4],\"angle\":[60]}]"
                ",\"temperature models\":[" + (o.slab_model == 0 ? "{\"model\":\"plate model\",\"density\":3300,\"plate velocity\":0.02,\"adiabatic heating\":" + std::string(o.variant == 1 ? "false" : "true") + std::string(o.partial ? ",\"max distance slab top\":3.5e4" : "") + "}"
                                                : "{\"model\":\"mass conserving\",\"density\":3300,\"spreading velocity\":0.05,\"subducting velocity\":0.05,\"ridge coordinates\":[[" + P(-4.5,-6) + "," + P(-4.5,6) + "]],\"coupling depth\":8e4,\"taper distance\":5e4,"
                                                "\"min distance slab top\":-1e5,\"max distance slab top\":8e4" + std::string(o.slab_model == 2 ? ",\"apply spline\":true,\"number of points in spline\":4" : "") + "}") + "]"
                ",\"composition models\":[{\"model\":\"uniform\",\"compositions\":[0,2],\"fractions\":[0.5,0.5]" + std::string(o.partial ? ",\"max distance slab top\":5e4" : "") + "}" +
                (o.water ? ",{\"model\":\"tian water content\",\"compositions\":[1],\"density\":3300,\"lithology\":\"peridotite\",\"initial water content\":2,\"cutoff pressure\":10,\"max distance slab top\":5e4,\"operation\":\"replace defined only\"}"
                           ",{\"model\":\"tian water content\",\"compositions\":[0],\"density\":3300,\"lithology\":\"gabbro\",\"initial water content\":0.5,\"cutoff pressure\":26,\"min distance slab top\":5e4,\"operation\":\"add\"}" : "") + "]"
                ",\"grains models\":[" + uniform_grains("[0]", 1, 45) + "]"
                ",\"velocity models\":[{\"model\":\"uniform raw\",\"velocity\":[0.03,0,-0.03]}]}");
    f.push_back("{\"model\":\"fault\",\"name\":\"FA\",\"coordinates\":[" + P(-4,-1) + "," + P(-1,-1.5) + "],\"dip point\":" + P(0,-20) +
                ",\"segments\":[{\"length\":1.2e5,\"thickness\":[6e4],\"angle\":[70]}]"
                ",\"temperature models\":[{\"model\":\"linear\",\"max distance fault center\":" + std::string(o.partial ? "1.2e4" : "3e4") + ",\"center temperature\":900,\"side temperature\":1100}]"
                ",\"composition models\":[{\"model\":\"smooth\",\"compositions\":[1],\"side distance fault center\":3e4,\"center fractions\":[1.0],\"side fractions\":[0.25]}]"
                ",\"grains models\":[" + uniform_grains("[1]", 1, 55) + "]"
                ",\"velocity models\":[{\"model\":\"uniform raw\",\"velocity\":[0.001,0.002,0.003]}]}");
    if (o.second_slab)
      f.push_back("{\"model\":\"subducting plate\",\"name\":\"SL2\",\"coordinates\":[" + P(-3.5,2.5) + "," + P(-3.4,4.5) + "],\"dip point\":" + P(-20,3) +
                  ",\"segments\":[{\"length\":2.5e5,\"thickness\":[9e4],\"top truncation\":[-5e4],\"angle\":[50]}]"
                  ",\"temperature models\":[{\"model\":\"mass conserving\",\"density\":3300,\"spreading velocity\":0.03,\"subducting velocity\":0.04,\"ridge coordinates\":[[" + P(4.5,-6) + "," + P(4.5,6) + "]],\"coupling depth\":6e4,\"taper distance\":4e4,"
                  "\"min distance slab top\":-5e4,\"max distance slab top\":9e4,\"apply spline\":true,\"number of points in spline\":5}]"
                  ",\"composition models\":[{\"model\":\"uniform\",\"compositions\":[2]}]}");
    if (o.sparse)
      {
        f[1] = strip_models(f[1], "grains");
        f[2] = strip_models(f[2], "velocity");
        f[3] = strip_models(strip_models(f[3], "velocity"), "grains");
        f[4] = strip_models(strip_models(f[4], "composition"), "velocity");
        f[5] = strip_models(strip_models(f[5], "temperature"), "grains");
      }
    if (o.area_only) f.resize(3);
    if (o.long_traces)
      {
        auto small = [&](const std::string &model, const std::string &name, const std::string &coords, const std::string &dip, double length, double thick, double angle, double T, int comp)
        {
          return "{\"model\":\"" + model + "\",\"name\":\"" + name + "\",\"coordinates\":" + coords + ",\"dip point\":" + dip + ",\"segments\":[{\"length\":" + num(length) + ",\"thickness\":[" + num(thick) + "],\"angle\":[" + num(angle) + "]}],"
                 "\"temperature models\":[{\"model\":\"uniform\",\"temperature\":" + num(T) + "}],\"composition models\":[{\"model\":\"uniform\",\"compositions\":[" + std::to_string(comp) + "]}]}";
        };
        // (a far-away plume first, so that the tags come out in the order of the full world: ... plume 3, subducting plate 4, fault 5)
        f.push_back("{\"model\":\"plume\",\"name\":\"far plume\",\"coordinates\":[" + P(40,40) + "," + P(40,40) + "],\"cross section depths\":[1e5,2e5],\"semi-major axis\":[" + num(0.5*s) + "," + num(0.5*s) + "],\"eccentricity\":[0,0],\"rotation angles\":[0,0]}");
        f.push_back(small("subducting plate", "S1", "[" + P(4.2,-2) + "," + P(4.4,1) + "," + P(4.2,3.5) + "]", P(20,0), 6e4, 3e4, 50, 644, 3));
        f.push_back(small("fault", "F1", "[" + P(-4,-4) + "," + P(0,-3.2) + "," + P(4,-4.2) + "]", P(0,-20), 4e4, 3e4, 60, 611, 3));
        f.push_back(small("fault", "F2", "[" + P(-4.5,4) + "," + P(-4.3,0) + "," + P(-4.5,-2.5) + "]", P(-20,0), 4e4, 3e4, 60, 622, 3));
        f.push_back(small("fault", "F3", "[" + P(1,4.5) + "," + P(4.5,1) + "]", P(20,20), 4e4, 3e4, 75, 633, 3));
      }
    if (o.without_layer) f.erase(f.begin());
    std::string m = coord(o.spherical);
    auto MC = [&](const P2 &q) { return o.map ? o.map(q) : q; };
    if (o.cross_section && o.custom_cs) m += ",\"cross section\":[" + pt(MC({{o.cs0[0]*s, o.cs0[1]*s}})) + "," + pt(MC({{o.cs1[0]*s, o.cs1[1]*s}})) + "]";
    else if (o.cross_section) m += ",\"cross section\":[" + pt(MC({{(-4.5+o.shift)*s, -3.5*s}})) + "," + pt(MC({{(3.5+o.shift)*s, 2.5*s}})) + "]";
    if (o.force_surface) m += ",\"force surface temperature\":true,\"surface temperature\":273.5";
    if (o.variant == 1) m += ",\"potential mantle temperature\":1700,\"thermal expansion coefficient\":2e-5,\"specific heat\":1000,\"gravity model\":{\"model\":\"uniform\",\"magnitude\":10}";
    return world(m, f);
  }

  struct Probe { double x, y, depth; };   // natural surface coordinates (lattice units applied) and depth
  inline std::vector<Probe> lattice(bool spherical)
  {
    const double s = spherical ? 1.0 : 1e5;
    std::vector<Probe> out;
    for (double x : {-4.5, -2.0, -0.5, 0.5, 1.5, 2.5, 4.5, 7.0})
      for (double y : {-3.0, -1.2, 0.5, 2.0, 6.0})
        for (double d : {0.0, 2e4, 8e4, 1.2e5, 2.5e5, 5e5})
          out.push_back({x*s, y*s, d});
    return out;
  }
  // 2-D probes for worlds with the cross section above: distance along the section and depth
  struct Probe2 { double x, z, depth; };
  inline std::vector<Probe2> lattice2(bool spherical)
  {
    std::vector<Probe2> out;
    if (!spherical)
      {
        for (double x : {-1e5, 0.0, 0.7e5, 2.3e5, 4.1e5, 5.9e5, 7.2e5, 9.4e5, 12e5})
          for (double d : {0.0, 2e4, 8e4, 1.2e5, 2.5e5, 5e5})
            out.push_back({x, CART_TOP - d, d});
      }
    else
      {
        for (double a : {-1.0, 0.0, 0.7, 2.3, 4.1, 5.9, 7.2, 9.4, 12.0})
          for (double d : {0.0, 2e4, 8e4, 1.2e5, 2.5e5, 5e5})
            {
              const double r = R_EARTH - d, ang = a * PI / 180.0;
              out.push_back({r*std::cos(ang), r*std::sin(ang), d});
            }
      }
    return out;
  }
}
