// wbgen.h - tiny generator for world-builder input files and query points
#pragma once
#include <array>
#include <cmath>
#include <string>
#include <vector>
#include <cstdio>

namespace wbgen
{
  typedef std::array<double,2> P2;
  typedef std::array<double,3> P3;
  const double PI = 3.14159265358979323846;
  const double R_EARTH = 6371000.0;
  const double CART_TOP = 1e6;

  inline std::string num(double v)
  {
    char b[40];
    snprintf(b, sizeof b, "%.17g", v);
    return b;
  }
  inline std::string pt(const P2 &p) { return "[" + num(p[0]) + "," + num(p[1]) + "]"; }
  inline std::string pts(const std::vector<P2> &v)
  {
    std::string o = "[";
    for (size_t i = 0; i < v.size(); ++i) o += (i ? "," : "") + pt(v[i]);
    return o + "]";
  }
  inline std::string nums(const std::vector<double> &v)
  {
    std::string o = "[";
    for (size_t i = 0; i < v.size(); ++i) o += (i ? "," : "") + num(v[i]);
    return o + "]";
  }
  inline std::string ints(const std::vector<unsigned> &v)
  {
    std::string o = "[";
    for (size_t i = 0; i < v.size(); ++i) o += (i ? "," : "") + std::to_string(v[i]);
    return o + "]";
  }
  inline std::string join(const std::vector<std::string> &v, const std::string &sep = ",")
  {
    std::string o;
    for (size_t i = 0; i < v.size(); ++i) o += (i ? sep : "") + v[i];
    return o;
  }
  // members: JSON members (without braces) other than version / features, may be empty
  inline std::string world(const std::string &members, const std::vector<std::string> &features)
  {
    return "{\"version\":\"1.1\"" + (members.empty() ? std::string() : "," + members) + ",\"features\":[" + join(features, ",\n") + "]}\n";
  }
  inline std::string coord(bool spherical, const std::string &depth_method = "starting point")
  {
    return spherical ? "\"coordinate system\":{\"model\":\"spherical\",\"depth method\":\"" + depth_method + "\"}"
           : "\"coordinate system\":{\"model\":\"cartesian\"}";
  }
  // natural (x,y,depth) -> cartesian query point. Cartesian worlds: z = top - depth with the model top at
  // CART_TOP (as in the repository's own data files, where z + depth = 1000 km; slabs and faults use z + depth
  // as the height of the surface). spherical: lon/lat in degrees, radius = R - depth
  inline P3 sph(double lon_deg, double lat_deg, double radius)
  {
    const double lo = lon_deg * PI / 180.0, la = lat_deg * PI / 180.0;
    return {{radius * std::cos(la) * std::cos(lo), radius * std::cos(la) * std::sin(lo), radius * std::sin(la)}};
  }
  inline P3 query_point(bool spherical, double x, double y, double depth)
  {
    if (spherical) return sph(x, y, R_EARTH - depth);
    return {{x, y, CART_TOP - depth}};
  }
}
