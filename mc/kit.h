// kit.h - shared machinery of all checkers: deterministic sharded enumeration of finite case
// spaces on the real implementation, evidence / replay / known-findings handling.
//
// A checker defines suites; a suite is a finite, index-addressable case space [0,n) plus a function
// that evaluates the oracle on case i. The driver forks `shards` workers which pull chunks of case
// indices from a shared counter (so the complete space is covered whatever the scheduling), every
// worker records counters in shared memory and violations / samples in its own file. A worker
// that dies (signal, sanitizer abort, watchdog) is a violation of the case it was running and is
// restarted behind that case. There is no randomness anywhere.
#pragma once
#include <sys/file.h>
#include <fcntl.h>
#include <algorithm>
#include <array>
#include <atomic>
#include <chrono>
#include <cmath>
#include <csignal>
#include <cstdint>
#include <cstdio>
#include <cstdlib>
#include <cstring>
#include <fstream>
#include <functional>
#include <map>
#include <memory>
#include <set>
#include <sstream>
#include <string>
#include <vector>
#include <fcntl.h>
#include <sys/mman.h>
#include <sys/stat.h>
#include <sys/wait.h>
#include <unistd.h>

#include "rapidjson/document.h"
#include "world_builder/world.h"

#if defined(__SANITIZE_ADDRESS__)
// sanitizer builds: a report ends the worker with a recognisable exit code; leaks are not part of any property
extern "C" const char *__asan_default_options() { return "detect_leaks=0:exitcode=88:allocator_may_return_null=1:malloc_context_size=12:handle_abort=1"; }
extern "C" const char *__ubsan_default_options() { return "print_stacktrace=1:halt_on_error=1:exitcode=89"; }
#endif

namespace kit
{
  inline double now()
  {
    return std::chrono::duration<double>(std::chrono::steady_clock::now().time_since_epoch()).count();
  }

  // ---------- tiny JSON writer helpers ----------
  inline std::string jstr(const std::string &s)
  {
    std::string o = "\"";
    for (unsigned char c : s)
      {
        if (c == '"') o += "\\\"";
        else if (c == '\\') o += "\\\\";
        else if (c == '\n') o += "\\n";
        else if (c == '\t') o += "\\t";
        else if (c == '\r') o += "\\r";
        else if (c < 0x20 || c >= 0x7f)
          {
            char b[8];
            snprintf(b, sizeof b, "\\u%04x", c);
            o += b;
          }
        else o += static_cast<char>(c);
      }
    return o + "\"";
  }
  inline std::string jnum(double v)
  {
    if (!std::isfinite(v)) return jstr(std::isnan(v) ? "nan" : (v > 0 ? "inf" : "-inf"));
    char b[40];
    snprintf(b, sizeof b, "%.17g", v);
    return b;
  }
  template <class T> std::string jarr(const T &v)
  {
    std::string o = "[";
    bool first = true;
    for (auto &x : v)
      {
        if (!first) o += ",";
        first = false;
        o += jnum(static_cast<double>(x));
      }
    return o + "]";
  }
  typedef std::vector<std::array<unsigned int,3>> Request;
  inline std::string jreq(const Request &r)
  {
    std::string o = "[";
    for (size_t i = 0; i < r.size(); ++i)
      o += (i ? ",[" : "[") + std::to_string(r[i][0]) + "," + std::to_string(r[i][1]) + "," + std::to_string(r[i][2]) + "]";
    return o + "]";
  }
  // key/value object builder
  struct JObj
  {
    std::string s = "{";
    JObj &raw(const std::string &k, const std::string &v)
    {
      if (s.size() > 1) s += ",";
      s += jstr(k) + ":" + v;
      return *this;
    }
    JObj &str(const std::string &k, const std::string &v) { return raw(k, jstr(v)); }
    JObj &num(const std::string &k, double v) { return raw(k, jnum(v)); }
    JObj &integer(const std::string &k, long long v) { return raw(k, std::to_string(v)); }
    JObj &boolean(const std::string &k, bool v) { return raw(k, v ? "true" : "false"); }
    std::string done() const { return s + "}"; }
  };

  inline bool biteq(double a, double b) { return std::memcmp(&a, &b, sizeof a) == 0; }
  inline bool biteq(const std::vector<double> &a, const std::vector<double> &b)
  {
    return a.size() == b.size() && (a.empty() || std::memcmp(a.data(), b.data(), a.size()*sizeof(double)) == 0);
  }
  inline uint64_t fnv(const void *p, size_t n, uint64_t h = 1469598103934665603ull)
  {
    const unsigned char *c = static_cast<const unsigned char *>(p);
    for (size_t i = 0; i < n; ++i) { h ^= c[i]; h *= 1099511628211ull; }
    return h;
  }
  inline uint64_t fnv(const std::string &s, uint64_t h = 1469598103934665603ull) { return fnv(s.data(), s.size(), h); }
  inline uint64_t fnv(const std::vector<double> &v, uint64_t h = 1469598103934665603ull) { return fnv(v.data(), v.size()*sizeof(double), h); }

  // ---------- mixed radix ----------
  struct Radix
  {
    std::vector<uint64_t> r;
    explicit Radix(std::vector<uint64_t> radices) : r(std::move(radices)) {}
    uint64_t total() const { uint64_t t = 1; for (auto x : r) t *= x; return t; }
    std::vector<unsigned> decode(uint64_t i) const
    {
      std::vector<unsigned> d(r.size());
      for (size_t k = 0; k < r.size(); ++k) { d[k] = static_cast<unsigned>(i % r[k]); i /= r[k]; }
      return d;
    }
  };
  // all tuples that deviate from the all-zero default in at most k coordinates
  inline std::vector<std::vector<unsigned>> deviations(const std::vector<uint64_t> &radices, unsigned k)
  {
    std::vector<std::vector<unsigned>> out;
    std::vector<unsigned> cur(radices.size(), 0);
    std::function<void(size_t, unsigned)> rec = [&](size_t pos, unsigned left)
    {
      if (pos == radices.size()) { out.push_back(cur); return; }
      cur[pos] = 0;
      rec(pos+1, left);
      if (left > 0)
        for (unsigned v = 1; v < radices[pos]; ++v) { cur[pos] = v; rec(pos+1, left-1); }
      cur[pos] = 0;
    };
    rec(0, k);
    return out;
  }

  // ---------- run directory / worlds ----------
  struct Globals
  {
    std::string property, tier = "quick", rundir, self;
    int shards = 16;
    int shard_id = 0;
    long seed = 0;
    double deadline = 0;      // absolute time
    bool replay = false;
    bool in_child = false;    // this process was exec'd to run one case of a fresh_process suite
  };
  inline Globals &G() { static Globals g; return g; }

  inline std::string write_world_file(const std::string &text, const std::string &tag = "w")
  {
    const std::string path = G().rundir + "/" + tag + std::to_string(G().shard_id) + ".wb";
    FILE *f = fopen(path.c_str(), "wb");
    if (!f) { perror(path.c_str()); _exit(3); }
    fwrite(text.data(), 1, text.size(), f);
    fclose(f);
    return path;
  }
  inline std::unique_ptr<WorldBuilder::World> make_world(const std::string &text, unsigned long seed = 1, const std::string &tag = "w")
  {
    return std::make_unique<WorldBuilder::World>(write_world_file(text, tag), false, "", seed, true);
  }

  // ---------- per-worker shared state ----------
  constexpr int MAXC = 64;
  struct Shared
  {
    std::atomic<uint64_t> next;           // next global case index to hand out
    struct W
    {
      volatile uint64_t current;          // case being evaluated (UINT64_MAX: none)
      volatile uint64_t cases_done, evaluations, nontrivial;
      volatile uint64_t counters[MAXC];
      volatile uint64_t deadline_hit;
    } w[64];
  };

  struct Ctx
  {
    Shared::W *w = nullptr;
    FILE *out = nullptr;                  // shard record file
    std::string suite;
    uint64_t idx = 0;
    bool case_nontrivial = false;
    int nviol = 0, nsamples = 0;
    std::map<std::string,int> per_sig;
    std::vector<std::pair<std::string,std::string>> replay_violations; // in replay mode
    static std::vector<std::string> &counter_names() { static std::vector<std::string> n; return n; }
    static int counter_id(const std::string &name)
    {
      auto &n = counter_names();
      for (size_t i = 0; i < n.size(); ++i) if (n[i] == name) return static_cast<int>(i);
      fprintf(stderr, "kit: counter '%s' not registered\n", name.c_str());
      _exit(3);
    }
    bool child = false;   // records go to stdout, to be re-ingested by the parent worker
    void eval(uint64_t n = 1) { w->evaluations = w->evaluations + n; }
    void nontrivial() { case_nontrivial = true; }
    void count(int id, uint64_t n = 1) { w->counters[id] = w->counters[id] + n; }
    // signature: stable description of *what* fails (used for grouping and known-findings matching);
    // detail: JSON object text with the materialised case
    void violation(const std::string &signature, const std::string &detail_json)
    {
      if (child) { printf("V\t%s\t%s\n", signature.c_str(), detail_json.c_str()); return; }
      if (G().replay) { replay_violations.emplace_back(signature, detail_json); return; }
      ++nviol;
      // cap per signature (not in total), so that a flood of one finding can never hide another one
      if (++per_sig[signature] > 25) { fprintf(out, "{\"k\":\"violmore\",\"sig\":%s}\n", jstr(signature).c_str()); return; }
      fprintf(out, "{\"k\":\"viol\",\"suite\":%s,\"idx\":%llu,\"sig\":%s,\"detail\":%s}\n", jstr(suite).c_str(),
              static_cast<unsigned long long>(idx), jstr(signature).c_str(), detail_json.c_str());
      fflush(out);
    }
    void sample(const std::string &json)
    {
      if (child) { printf("S\t%s\n", json.c_str()); return; }
      if (G().replay || ++nsamples > 2) return;
      fprintf(out, "{\"k\":\"sample\",\"suite\":%s,\"idx\":%llu,\"case\":%s}\n", jstr(suite).c_str(),
              static_cast<unsigned long long>(idx), json.c_str());
      fflush(out);
    }
    // distinct-key reporting (e.g. canonical states); merged into a set by the driver
    void key(const std::string &space, uint64_t h)
    {
      if (child) { printf("K\t%s\t%016llx\n", space.c_str(), static_cast<unsigned long long>(h)); return; }
      if (G().replay) return;
      fprintf(out, "{\"k\":\"key\",\"space\":%s,\"h\":\"%016llx\"}\n", jstr(space).c_str(), static_cast<unsigned long long>(h));
    }
  };

  struct Suite
  {
    std::string name;
    uint64_t n = 0;
    std::function<void(uint64_t, Ctx &)> run;
    std::string bound;          // human-readable statement of the alphabet and bound
    int watchdog_s = 120;
    std::function<std::string(uint64_t)> describe;   // optional: JSON text describing case i (used when a worker dies in it)
    bool fresh_process = false; // run every case in a freshly exec'd process (process-level statics start pristine)
  };

  struct Spec
  {
    std::string property;
    std::string level;          // exploration | fault_enumeration | model_checking
    std::string rule;           // how cases are enumerated / what is non-trivial
    std::vector<std::string> assumptions;
    std::vector<std::string> counters;   // names of extra counters
    double quick_deadline_s = 240, thorough_deadline_s = 1500;
    // run once, in a freshly exec'd process, before any worker starts (e.g. to write reference answers to the run directory)
    std::function<void(const std::string &tier)> prepare;
    // called by the driver after merging; may add coverage keys (raw JSON members)
    std::function<void(const std::map<std::string,uint64_t> &counters, const std::map<std::string,size_t> &keyspaces, JObj &coverage)> finalize;
  };

  // ---------- known findings ----------
  struct Known { std::string property, status, match, what; };
  inline std::vector<Known> load_known()
  {
    std::vector<Known> out;
    std::ifstream f("/verif/known_findings.json");
    if (!f) return out;
    std::stringstream ss; ss << f.rdbuf();
    rapidjson::Document d;
    d.Parse(ss.str().c_str());
    if (d.HasParseError() || !d.IsObject() || !d.HasMember("findings")) { fprintf(stderr, "kit: cannot parse known_findings.json\n"); _exit(3); }
    for (auto &e : d["findings"].GetArray())
      out.push_back({e["property"].GetString(), e["status"].GetString(), e["match"].GetString(), e["what"].GetString()});
    return out;
  }
  // match: glob where '*' matches any (possibly empty) substring; everything else is literal
  inline bool sig_match(const std::string &pat, const std::string &sig)
  {
    size_t p = 0, s = 0, star = std::string::npos, mark = 0;
    while (s < sig.size())
      {
        if (p < pat.size() && pat[p] != '*' && pat[p] == sig[s]) { ++p; ++s; }
        else if (p < pat.size() && pat[p] == '*') { star = p++; mark = s; }
        else if (star != std::string::npos) { p = star + 1; s = ++mark; }
        else return false;
      }
    while (p < pat.size() && pat[p] == '*') ++p;
    return p == pat.size();
  }

  inline std::string sanitize(const std::string &s)
  {
    std::string o;
    for (char c : s) o += (isalnum(static_cast<unsigned char>(c)) || c == '-' || c == '.') ? c : '_';
    if (o.size() > 120) o = o.substr(0, 100) + "_" + std::to_string(fnv(s) % 1000000);
    return o;
  }

  inline void install_sanitizer_env() {}

  // Runs `--child-case suite idx` in a freshly exec'd copy of this binary and returns its raw record output.
  inline std::string exec_child_case(const std::string &suite, uint64_t idx, int *status = nullptr)
  {
    int pfd[2];
    if (pipe(pfd) != 0) { perror("pipe"); _exit(3); }
    fflush(stdout);
    const pid_t p = fork();
    if (p == 0)
      {
        close(pfd[0]);
        dup2(pfd[1], 1);
        close(pfd[1]);
        const std::string sid = std::to_string(G().shard_id), sidx = std::to_string(idx);
        execl(G().self.c_str(), G().self.c_str(), "--child-case", suite.c_str(), sidx.c_str(), "--tier", G().tier.c_str(), "--shard-id", sid.c_str(), static_cast<char *>(nullptr));
        _exit(127);
      }
    close(pfd[1]);
    std::string got;
    char buf[65536];
    ssize_t n;
    while ((n = read(pfd[0], buf, sizeof buf)) > 0) got.append(buf, static_cast<size_t>(n));
    close(pfd[0]);
    int st = 0;
    waitpid(p, &st, 0);
    if (status) *status = st;
    return got;
  }

  // Runs one case (used by workers, replay and the inline debugging mode). Suites marked fresh_process are
  // executed in a freshly exec'd copy of this binary whose records are re-ingested here.
  inline void run_one(const Suite &s, uint64_t idx, Ctx &ctx)
  {
    ctx.suite = s.name;
    ctx.idx = idx;
    ctx.case_nontrivial = false;
    if (!s.fresh_process || G().in_child) { s.run(idx, ctx); return; }
    int st = 0;
    const std::string got = exec_child_case(s.name, idx, &st);
    std::stringstream gs(got);
    std::string line;
    bool complete = false;
    while (std::getline(gs, line))
      {
        if (line.size() < 2 || line[1] != '\t') continue;
        const std::string rest = line.substr(2);
        const size_t t = rest.find('\t');
        if (line[0] == 'V' && t != std::string::npos) ctx.violation(rest.substr(0, t), rest.substr(t+1));
        else if (line[0] == 'K' && t != std::string::npos) ctx.key(rest.substr(0, t), strtoull(rest.substr(t+1).c_str(), nullptr, 16));
        else if (line[0] == 'S') ctx.sample(rest);
        else if (line[0] == 'C')
          {
            std::stringstream cs(rest);
            unsigned long long ev = 0; int nt = 0;
            cs >> ev >> nt;
            ctx.eval(ev);
            if (nt) ctx.nontrivial();
            unsigned long long v; int id = 0;
            while (cs >> v) { if (id < MAXC) ctx.count(id, v); ++id; }
            complete = true;
          }
      }
    if (WIFSIGNALED(st)) ctx.violation("crash/" + s.name + "/signal" + std::to_string(WTERMSIG(st)), JObj().str("how", "child process of a fresh_process case died").done());
    else if (!complete) ctx.violation("harness/child-incomplete/" + s.name, JObj().integer("exit", WIFEXITED(st) ? WEXITSTATUS(st) : -1).str("output_tail", got.size() > 600 ? got.substr(got.size()-600) : got).done());
  }

  inline int worker(const std::vector<Suite> &suites, Shared *sh, int id, uint64_t total)
  {
    G().shard_id = id;
    Ctx ctx;
    ctx.w = &sh->w[id];
    const std::string path = G().rundir + "/shard" + std::to_string(id) + ".jsonl";
    ctx.out = fopen(path.c_str(), "a");
    // stderr of the worker (sanitizer reports) goes to a per-shard log
    const std::string epath = G().rundir + "/shard" + std::to_string(id) + ".err";
    int efd = open(epath.c_str(), O_WRONLY|O_CREAT|O_APPEND, 0644);
    if (efd >= 0) { dup2(efd, 2); close(efd); }
    // chunk size: small so that load is balanced, large enough to keep the counter cheap
    const uint64_t chunk = std::max<uint64_t>(1, std::min<uint64_t>(64, total / (static_cast<uint64_t>(G().shards) * 64)));
    for (;;)
      {
        const uint64_t begin = sh->next.fetch_add(chunk);
        if (begin >= total) break;
        const uint64_t end = std::min(total, begin + chunk);
        for (uint64_t g = begin; g < end; ++g)
          {
            if (now() > G().deadline)
              {
                // hand the rest back is impossible; record that the space was not completed
                ctx.w->deadline_hit = ctx.w->deadline_hit + (end - g);
                break;
              }
            uint64_t local = g;
            size_t si = 0;
            while (local >= suites[si].n) { local -= suites[si].n; ++si; }
            ctx.w->current = g;
            alarm(static_cast<unsigned>(suites[si].watchdog_s));
            try
              {
                run_one(suites[si], local, ctx);
              }
            catch (const std::exception &e)
              {
                ctx.violation("harness/uncaught-exception/" + suites[si].name, JObj().str("what", e.what()).done());
              }
            alarm(0);
            ctx.w->current = UINT64_MAX;
            ctx.w->cases_done = ctx.w->cases_done + 1;
            if (ctx.case_nontrivial) ctx.w->nontrivial = ctx.w->nontrivial + 1;
          }
      }
    fclose(ctx.out);
    return 0;
  }

  inline std::string read_tail(const std::string &path, size_t n)
  {
    std::ifstream f(path, std::ios::binary);
    if (!f) return "";
    std::stringstream ss; ss << f.rdbuf();
    std::string s = ss.str();
    if (s.size() > n) s = s.substr(s.size()-n);
    return s;
  }

  struct Viol { std::string suite; uint64_t idx; std::string sig, detail; };

  // short, stable label of what a dying worker printed (sanitizer report kind and first library frame), for the signature
  inline std::string crash_tag(const std::string &err)
  {
    std::string tag;
    size_t p = err.find("AddressSanitizer: ");
    if (p != std::string::npos)
      {
        size_t e = p + 18;
        while (e < err.size() && (isalnum(static_cast<unsigned char>(err[e])) || err[e] == '-')) ++e;
        tag = "/asan-" + err.substr(p + 18, e - p - 18);
      }
    else if ((p = err.find("runtime error: ")) != std::string::npos)
      {
        size_t e = err.find('\n', p);
        std::string m = err.substr(p + 15, std::min<size_t>(e - p - 15, 70));
        std::string clean;
        for (char c : m) clean += (isalpha(static_cast<unsigned char>(c)) || c == ' ') ? c : '#';
        // the file:line in front of "runtime error" tells where
        size_t b = err.rfind('\n', p);
        b = (b == std::string::npos) ? 0 : b + 1;
        std::string where = err.substr(b, p - b);
        const size_t sl = where.rfind('/');
        if (sl != std::string::npos) where = where.substr(sl + 1);
        while (!where.empty() && (where.back() == ' ' || where.back() == ':')) where.pop_back();
        tag = "/ubsan-" + clean + "@" + where;
      }
    else return "";
    // first stack frame inside the library: the function name (stable under edits that shift line numbers)
    size_t f = 0;
    while ((f = err.find("/stage/source/", f)) != std::string::npos)
      {
        size_t b = err.rfind(" in ", f);
        size_t ls = err.rfind('\n', f);
        if (!(b != std::string::npos && (ls == std::string::npos || b > ls))) { ++f; continue; }
          {
            std::string fn = err.substr(b + 4, f - b - 4);
            // drop the argument list and trailing path fragment
            const size_t par = fn.find('(');
            if (par != std::string::npos) fn = fn.substr(0, par);
            while (!fn.empty() && (fn.back() == ' ' || fn.back() == '.')) fn.pop_back();
            const size_t sp = fn.rfind(' ');
            if (sp != std::string::npos) fn = fn.substr(sp + 1);
            if (fn.size() > 90) fn = fn.substr(0, 90);
            const size_t at = tag.find('@');
            if (at != std::string::npos) tag = tag.substr(0, at);
            tag += "@" + fn;
          }
        break;
      }
    return tag;
  }

  inline int replay_main(const Spec &spec, const std::vector<Suite> &suites, const std::string &file)
  {
    std::ifstream f(file);
    if (!f) { fprintf(stderr, "cannot open %s\n", file.c_str()); return 2; }
    std::stringstream ss; ss << f.rdbuf();
    rapidjson::Document d;
    d.Parse(ss.str().c_str());
    if (d.HasParseError()) { fprintf(stderr, "cannot parse %s\n", file.c_str()); return 2; }
    const std::string suite = d["suite"].GetString(), sig = d["signature"].GetString();
    const uint64_t idx = d["case_index"].GetUint64();
    const Suite *s = nullptr;
    for (auto &x : suites) if (x.name == suite) s = &x;
    if (!s || idx >= s->n) { fprintf(stderr, "replay: unknown suite/case %s/%llu in tier %s\n", suite.c_str(), static_cast<unsigned long long>(idx), G().tier.c_str()); return 2; }
    G().replay = true;
    fflush(stdout);
    int pfd[2];
    if (pipe(pfd) != 0) return 2;
    pid_t p = fork();
    if (p == 0)
      {
        close(pfd[0]);
        Shared::W w{};
        Ctx ctx;
        ctx.w = &w;
        alarm(static_cast<unsigned>(s->watchdog_s * 3));
        try { run_one(*s, idx, ctx); }
        catch (const std::exception &e) { ctx.violation("harness/uncaught-exception/" + s->name, "{}"); }
        std::string o;
        for (auto &v : ctx.replay_violations) o += v.first + "\n";
        (void)!write(pfd[1], o.data(), o.size());
        _exit(0);
      }
    close(pfd[1]);
    std::string got;
    char buf[4096];
    ssize_t n;
    while ((n = read(pfd[0], buf, sizeof buf)) > 0) got.append(buf, static_cast<size_t>(n));
    int st = 0;
    waitpid(p, &st, 0);
    bool reproduced = false;
    // the case killed the process again (signal, sanitizer exit code, watchdog): that is the crash being replayed
    if (WIFSIGNALED(st) || (WIFEXITED(st) && WEXITSTATUS(st) != 0)) reproduced = sig.compare(0, 6, "crash/") == 0;
    std::stringstream gs(got);
    std::string line;
    while (std::getline(gs, line)) if (line == sig) reproduced = true;
    if (!reproduced && !s->fresh_process && idx > 0)
      {
        // Not reproducible in a pristine process: the failure may depend on what the process did before (process-level state shared between
        // worlds). Re-run the suite's cases 0..idx in order in ONE fresh process and see whether case idx fails then. Deterministic, no sampling.
        int hfd[2];
        if (pipe(hfd) != 0) return 2;
        fflush(stdout);
        pid_t hp = fork();
        if (hp == 0)
          {
            close(hfd[0]);
            Shared::W w{};
            Ctx ctx;
            ctx.w = &w;
            alarm(3000);
            size_t before = 0;
            for (uint64_t i = 0; i <= idx; ++i)
              {
                before = ctx.replay_violations.size();
                try { run_one(*s, i, ctx); }
                catch (const std::exception &e) { ctx.violation("harness/uncaught-exception/" + s->name, "{}"); }
              }
            std::string o;
            for (size_t q = before; q < ctx.replay_violations.size(); ++q) o += ctx.replay_violations[q].first + "\n";
            (void)!write(hfd[1], o.data(), o.size());
            _exit(0);
          }
        close(hfd[1]);
        std::string hgot;
        while ((n = read(hfd[0], buf, sizeof buf)) > 0) hgot.append(buf, static_cast<size_t>(n));
        int hst = 0;
        waitpid(hp, &hst, 0);
        std::stringstream hs(hgot);
        while (std::getline(hs, line)) if (line == sig) reproduced = true;
        if (reproduced)
          {
            printf("VIOLATION property=%s replay=%s history=cases-0..%llu-of-suite-%s-in-one-process\n", spec.property.c_str(), file.c_str(), static_cast<unsigned long long>(idx), suite.c_str());
            return 1;
          }
      }
    if (reproduced)
      {
        printf("VIOLATION property=%s replay=%s\n", spec.property.c_str(), file.c_str());
        return 1;
      }
    printf("replay: signature '%s' not reproduced by %s case %llu\n", sig.c_str(), suite.c_str(), static_cast<unsigned long long>(idx));
    return 0;
  }

  inline int driver(int argc, char **argv, const Spec &spec, const std::function<std::vector<Suite>(const std::string &tier)> &make)
  {
    Globals &g = G();
    g.property = spec.property;
    g.self = argv[0];
    std::string replay_file;
    std::string only_suite;
    long long inline_case = -1, child_case = -1;
    bool prepare_mode = false;
    for (int i = 1; i < argc; ++i)
      {
        const std::string a = argv[i];
        if (a == "--tier" && i+1 < argc) g.tier = argv[++i];
        else if (a == "--shards" && i+1 < argc) g.shards = atoi(argv[++i]);
        else if (a == "--replay" && i+1 < argc) replay_file = argv[++i];
        else if (a == "--suite" && i+1 < argc) only_suite = argv[++i];
        else if (a == "--deadline" && i+1 < argc) { /* handled below */ ++i; }
        else if (a == "--run-case" && i+2 < argc) { only_suite = argv[++i]; inline_case = atoll(argv[++i]); }
        else if (a == "--child-case" && i+2 < argc) { only_suite = argv[++i]; child_case = atoll(argv[++i]); }
        else if (a == "--shard-id" && i+1 < argc) g.shard_id = atoi(argv[++i]);
        else if (a == "--prepare") prepare_mode = true;
        else { fprintf(stderr, "usage: %s [--tier quick|thorough] [--shards n] [--replay file] [--suite name] [--deadline s]\n", argv[0]); return 2; }
      }
    if (const char *s = getenv("VERIF_SEED")) g.seed = atol(s);
    double deadline_s = g.tier == "thorough" ? spec.thorough_deadline_s : spec.quick_deadline_s;
    for (int i = 1; i+1 < argc; ++i) if (std::string(argv[i]) == "--deadline") deadline_s = atof(argv[i+1]);
    g.shards = std::max(1, std::min(g.shards, 64));
    const double t0 = now();
    g.deadline = t0 + deadline_s;
    if (!replay_file.empty())
      {
        // the tier recorded in the replay file wins
        std::ifstream f(replay_file);
        std::stringstream ss; ss << f.rdbuf();
        rapidjson::Document d;
        d.Parse(ss.str().c_str());
        if (!d.HasParseError() && d.IsObject() && d.HasMember("tier")) g.tier = d["tier"].GetString();
      }
    if (const char *rd = getenv("KIT_RUNDIR")) g.rundir = rd;     // child / prepare processes share the parent's run directory
    else
      {
        g.rundir = "/verif/build/run/" + spec.property + (replay_file.empty() ? "" : "_replay" + std::to_string(getpid()));
        if (replay_file.empty())
          {
            // two runs of one property share this directory (world files, reference data): a second run waits until the first one is done.
            // The descriptor stays open for the life of the process and is inherited by its children.
            (void)!system("mkdir -p /verif/build/run");
            const int lock_fd = open(("/verif/build/run/" + spec.property + ".lock").c_str(), O_CREAT | O_RDWR, 0644);
            if (lock_fd >= 0) (void)flock(lock_fd, LOCK_EX);
          }
        (void)!system(("rm -rf " + g.rundir + " && mkdir -p " + g.rundir).c_str());
        setenv("KIT_RUNDIR", g.rundir.c_str(), 1);
      }
    Ctx::counter_names() = spec.counters;
    if (prepare_mode)
      {
        g.deadline = now() + 3600;
        if (spec.prepare) spec.prepare(g.tier);
        return 0;
      }
    if (child_case >= 0)
      {
        g.in_child = true;
        g.deadline = now() + 3600;
        std::vector<Suite> cs = make(g.tier);
        for (auto &s : cs)
          if (s.name == only_suite)
            {
              Shared::W w{};
              Ctx ctx;
              ctx.w = &w;
              ctx.child = true;
              alarm(static_cast<unsigned>(s.watchdog_s));
              try { run_one(s, static_cast<uint64_t>(child_case), ctx); }
              catch (const std::exception &e) { ctx.violation("harness/uncaught-exception/" + s.name, JObj().str("what", e.what()).done()); }
              printf("C\t%llu %d", static_cast<unsigned long long>(w.evaluations), ctx.case_nontrivial ? 1 : 0);
              for (size_t c = 0; c < spec.counters.size(); ++c) printf(" %llu", static_cast<unsigned long long>(w.counters[c]));
              printf("\n");
              fflush(stdout);
              _exit(0);
            }
        return 2;
      }
    if (spec.prepare && getenv("KIT_PREPARED") == nullptr)
      {
        fflush(stdout);
        const int rc = system((g.self + " --prepare --tier " + g.tier).c_str());
        if (rc != 0) { printf("HARNESS-ERROR property=%s prepare step failed (rc=%d)\n", spec.property.c_str(), rc); return 3; }
        setenv("KIT_PREPARED", "1", 1);
      }
    if (static_cast<int>(spec.counters.size()) > MAXC) { fprintf(stderr, "too many counters\n"); return 2; }

    if (!replay_file.empty())
      {
        std::vector<Suite> suites = make(g.tier);
        g.deadline = now() + 3600;
        const int rc = replay_main(spec, suites, replay_file);
        (void)!system(("rm -rf " + g.rundir).c_str());
        return rc;
      }

    std::vector<Suite> suites = make(g.tier);
    if (!only_suite.empty())
      {
        std::vector<Suite> f;
        for (auto &s : suites) if (s.name == only_suite) f.push_back(s);
        suites = f;
      }
    if (inline_case >= 0 && !suites.empty())
      {
        // debugging aid: run one case in this very process, print what it reports
        g.replay = true;
        Shared::W w{};
        Ctx ctx;
        ctx.w = &w;
        run_one(suites[0], static_cast<uint64_t>(inline_case), ctx);
        for (auto &v : ctx.replay_violations) printf("%s\n%s\n", v.first.c_str(), v.second.substr(0, 3000).c_str());
        printf("evaluations=%llu violations=%zu nontrivial=%d\n", static_cast<unsigned long long>(w.evaluations), ctx.replay_violations.size(), ctx.case_nontrivial);
        return ctx.replay_violations.empty() ? 0 : 1;
      }
    uint64_t total = 0;
    for (auto &s : suites) total += s.n;
    if (total == 0) { fprintf(stderr, "no cases\n"); return 2; }

    Shared *sh = static_cast<Shared *>(mmap(nullptr, sizeof(Shared), PROT_READ|PROT_WRITE, MAP_SHARED|MAP_ANONYMOUS, -1, 0));
    new (sh) Shared();
    sh->next = 0;
    for (int i = 0; i < 64; ++i) sh->w[i].current = UINT64_MAX;

    std::vector<Viol> viols;
    std::map<pid_t,int> pids;
    fflush(stdout);
    auto spawn = [&](int id)
    {
      pid_t p = fork();
      if (p == 0) { _exit(worker(suites, sh, id, total)); }
      pids[p] = id;
    };
    for (int i = 0; i < g.shards; ++i) spawn(i);
    int crashes = 0;
    while (!pids.empty())
      {
        int st = 0;
        pid_t p = wait(&st);
        if (p < 0) break;
        auto it = pids.find(p);
        if (it == pids.end()) continue;
        const int id = it->second;
        pids.erase(it);
        const bool bad = WIFSIGNALED(st) || (WIFEXITED(st) && WEXITSTATUS(st) != 0);
        if (bad)
          {
            const uint64_t cur = sh->w[id].current;
            ++crashes;
            std::string how = WIFSIGNALED(st) ? "signal" + std::to_string(WTERMSIG(st)) : "exit" + std::to_string(WEXITSTATUS(st));
            if (cur != UINT64_MAX)
              {
                uint64_t local = cur; size_t si = 0;
                while (local >= suites[si].n) { local -= suites[si].n; ++si; }
                const std::string tail = read_tail(g.rundir + "/shard" + std::to_string(id) + ".err", 6000);
                how += crash_tag(tail);
                JObj cd;
                cd.str("how", how);
                if (suites[si].describe) cd.raw("case", suites[si].describe(local));
                cd.str("stderr_tail", tail);
                viols.push_back({suites[si].name, local, "crash/" + suites[si].name + "/" + how, cd.done()});
                sh->w[id].current = UINT64_MAX;
                sh->w[id].cases_done = sh->w[id].cases_done + 1;
              }
            else
              viols.push_back({"-", 0, "harness/worker-died-outside-case/" + how, "{}"});
            if (crashes < 2000 && cur != UINT64_MAX)
              {
                // The worker's current chunk is lost beyond `cur`; re-run the remainder of that chunk here by
                // restarting a worker that first finishes the chunk. Simplest sound way: chunks are re-derivable.
                // We keep it simple: restart the worker; the unfinished remainder of the chunk is evaluated by
                // a dedicated pass below.
                const uint64_t chunk = std::max<uint64_t>(1, std::min<uint64_t>(64, total / (static_cast<uint64_t>(g.shards) * 64)));
                const uint64_t cend = std::min(total, (cur / chunk + 1) * chunk);
                if (cur + 1 < cend)
                  {
                    // evaluate [cur+1, cend) in a fresh worker that owns exactly this range
                    pid_t q = fork();
                    if (q == 0)
                      {
                        Shared *priv = sh;
                        // temporary private counter: emulate by running the range directly
                        G().shard_id = id;
                        Ctx ctx;
                        ctx.w = &priv->w[id];
                        ctx.out = fopen((g.rundir + "/shard" + std::to_string(id) + ".jsonl").c_str(), "a");
                        int efd = open((g.rundir + "/shard" + std::to_string(id) + ".err").c_str(), O_WRONLY|O_CREAT|O_TRUNC, 0644);
                        if (efd >= 0) { dup2(efd, 2); close(efd); }
                        for (uint64_t gi = cur + 1; gi < cend; ++gi)
                          {
                            if (now() > G().deadline) { ctx.w->deadline_hit = ctx.w->deadline_hit + (cend - gi); break; }
                            uint64_t local = gi; size_t si = 0;
                            while (local >= suites[si].n) { local -= suites[si].n; ++si; }
                            ctx.w->current = gi;
                            alarm(static_cast<unsigned>(suites[si].watchdog_s));
                            try { run_one(suites[si], local, ctx); }
                            catch (const std::exception &e) { ctx.violation("harness/uncaught-exception/" + suites[si].name, JObj().str("what", e.what()).done()); }
                            alarm(0);
                            ctx.w->current = UINT64_MAX;
                            ctx.w->cases_done = ctx.w->cases_done + 1;
                            if (ctx.case_nontrivial) ctx.w->nontrivial = ctx.w->nontrivial + 1;
                          }
                        fclose(ctx.out);
                        // then continue as a normal worker
                        _exit(worker(suites, sh, id, total));
                      }
                    pids[q] = id;
                  }
                else
                  {
                    (void)!truncate((g.rundir + "/shard" + std::to_string(id) + ".err").c_str(), 0);
                    spawn(id);
                  }
              }
          }
      }

    // ---- merge ----
    uint64_t cases_done = 0, evaluations = 0, nontrivial = 0, deadline_hit = 0;
    std::map<std::string,uint64_t> counters;
    for (int i = 0; i < g.shards; ++i)
      {
        cases_done += sh->w[i].cases_done;
        evaluations += sh->w[i].evaluations;
        nontrivial += sh->w[i].nontrivial;
        deadline_hit += sh->w[i].deadline_hit;
        for (size_t c = 0; c < spec.counters.size(); ++c) counters[spec.counters[c]] += sh->w[i].counters[c];
      }
    std::map<std::string,std::set<std::string>> keys;
    std::vector<std::string> samples;
    for (int i = 0; i < g.shards; ++i)
      {
        std::ifstream f(g.rundir + "/shard" + std::to_string(i) + ".jsonl");
        std::string line;
        while (std::getline(f, line))
          {
            rapidjson::Document d;
            d.Parse(line.c_str());
            if (d.HasParseError() || !d.IsObject()) continue;
            const std::string k = d["k"].GetString();
            if (k == "key") keys[d["space"].GetString()].insert(d["h"].GetString());
            else if (k == "sample")
              {
                if (samples.size() < 6)
                  {
                    const size_t pos = line.find("\"case\":");
                    samples.push_back("{\"suite\":" + jstr(d["suite"].GetString()) + ",\"case_index\":" + std::to_string(d["idx"].GetUint64()) + "," + line.substr(pos, line.size()-pos-1) + "}");
                  }
              }
            else if (k == "viol")
              {
                const size_t pos = line.find("\"detail\":");
                viols.push_back({d["suite"].GetString(), d["idx"].GetUint64(), d["sig"].GetString(), line.substr(pos+9, line.size()-pos-10)});
              }
          }
      }
    std::map<std::string,size_t> keyspaces;
    for (auto &k : keys) keyspaces[k.first] = k.second.size();

    // ---- violations: group by signature, replay, classify ----
    std::map<std::string,std::vector<const Viol *>> by_sig;
    for (auto &v : viols) by_sig[v.sig].push_back(&v);
    const std::vector<Known> known = load_known();
    int n_real = 0, n_known = 0, n_harness = 0;
    (void)!system(("rm -rf /verif/replays/" + spec.property + " && mkdir -p /verif/replays/" + spec.property).c_str());
    std::vector<std::string> lines;
    int reported = 0;
    for (auto &e : by_sig)
      {
        const Viol &v = *e.second.front();
        const std::string rfile = "/verif/replays/" + spec.property + "/" + sanitize(e.first) + ".json";
        {
          std::ofstream o(rfile);
          o << JObj().str("property", spec.property).str("tier", g.tier).str("suite", v.suite).integer("case_index", static_cast<long long>(v.idx))
            .str("signature", v.sig).integer("occurrences", static_cast<long long>(e.second.size())).raw("all_case_indices_first_40", [&]() { std::string l = "["; for (size_t q = 0; q < e.second.size() && q < 40; ++q) l += (q ? "," : "") + std::to_string(e.second[q]->idx); return l + "]"; }()).raw("detail", v.detail.empty() ? "{}" : v.detail)
            .str("replay_cmd", "/verif/check " + spec.property + " --replay " + rfile).done() << "\n";
        }
        bool is_known = false;
        std::string what;
        for (auto &k : known)
          if (k.property == spec.property && k.status == "known" && sig_match(k.match, v.sig)) { is_known = true; what = k.what; }
        bool reproduced = true;
        if (v.sig.compare(0, 8, "harness/") == 0) reproduced = false;
        else if (reported < 12)
          {
            // replay before report: fresh process, this single case only
            const std::string cmd = "env -u KIT_RUNDIR -u KIT_PREPARED " + g.self + " --replay " + rfile + " > " + g.rundir + "/replay.out 2>&1";
            const int rc = system(cmd.c_str());
            reproduced = WIFEXITED(rc) && WEXITSTATUS(rc) == 1;
          }
        ++reported;
        if (!reproduced)
          {
            ++n_harness;
            lines.push_back("HARNESS-ERROR property=" + spec.property + " signature=" + v.sig + " did not reproduce in a fresh process: " + rfile);
          }
        else if (is_known)
          {
            ++n_known;
            lines.push_back("KNOWN-FINDING: property=" + spec.property + " " + v.sig + " (" + std::to_string(e.second.size()) + " cases) " + what);
          }
        else
          {
            ++n_real;
            lines.push_back("VIOLATION property=" + spec.property + " replay=" + rfile + " signature=" + v.sig + " cases=" + std::to_string(e.second.size()));
          }
      }

    const bool exhaustive = (deadline_hit == 0 && cases_done == total);
    // ---- evidence ----
    JObj cov;
    cov.integer("evaluations", static_cast<long long>(evaluations));
    cov.integer("distinct_nontrivial", static_cast<long long>(nontrivial));
    cov.str("rule", spec.rule);
    {
      std::string s = "[";
      for (size_t i = 0; i < samples.size(); ++i) s += (i ? "," : "") + samples[i];
      cov.raw("samples", s + "]");
    }
    cov.boolean("exhaustive", exhaustive);
    cov.integer("cases_total", static_cast<long long>(total));
    cov.integer("cases_completed", static_cast<long long>(cases_done));
    cov.integer("cases_cut_by_deadline", static_cast<long long>(deadline_hit));
    {
      std::string s = "[";
      for (size_t i = 0; i < suites.size(); ++i)
        s += (i ? "," : "") + JObj().str("suite", suites[i].name).integer("cases", static_cast<long long>(suites[i].n)).str("alphabet_and_bound", suites[i].bound).done();
      cov.raw("suites", s + "]");
    }
    {
      JObj c;
      for (auto &k : counters) c.integer(k.first, static_cast<long long>(k.second));
      cov.raw("counters", c.done());
      JObj ks;
      for (auto &k : keyspaces) ks.integer(k.first, static_cast<long long>(k.second));
      cov.raw("distinct_keys", ks.done());
    }
    if (spec.finalize) spec.finalize(counters, keyspaces, cov);
    cov.integer("known_findings_matched", n_known);
    {
      std::string s = "[";
      for (size_t i = 0; i < spec.assumptions.size(); ++i) s += (i ? "," : "") + jstr(spec.assumptions[i]);
      JObj ev;
      ev.str("property_id", spec.property).str("tier", g.tier).integer("seed", g.seed).str("level", spec.level)
        .raw("coverage", cov.done()).raw("assumptions", s + "]").num("wall_s", now() - t0).integer("violations", n_real);
      (void)!system("mkdir -p /verif/evidence");
      std::ofstream o("/verif/evidence/" + spec.property + ".json");
      o << ev.done() << "\n";
    }
    for (auto &l : lines) printf("%s\n", l.c_str());
    printf("%s tier=%s cases=%llu/%llu evaluations=%llu nontrivial=%llu exhaustive=%s violations=%d known=%d harness_errors=%d wall=%.1fs\n",
           spec.property.c_str(), g.tier.c_str(), static_cast<unsigned long long>(cases_done), static_cast<unsigned long long>(total),
           static_cast<unsigned long long>(evaluations), static_cast<unsigned long long>(nontrivial), exhaustive ? "true" : "false",
           n_real, n_known, n_harness, now() - t0);
    if (n_real > 0) return 1;
    if (n_harness > 0) return 3;
    return 0;
  }
}
