// georef.h - exact / independent geometric references used by C04, C19 (written from the property
// statements, not from the implementation)
#pragma once
#include <array>
#include <cstdint>
#include <cstdlib>
#include <vector>
#include <functional>
#include <algorithm>

namespace georef
{
  typedef std::array<int64_t,2> IP;   // integer lattice point

  inline int64_t cross(const IP &a, const IP &b, const IP &c)
  {
    return (b[0]-a[0])*(c[1]-a[1]) - (b[1]-a[1])*(c[0]-a[0]);
  }
  inline bool on_segment(const IP &a, const IP &b, const IP &p)
  {
    if (cross(a, b, p) != 0) return false;
    return std::min(a[0], b[0]) <= p[0] && p[0] <= std::max(a[0], b[0]) && std::min(a[1], b[1]) <= p[1] && p[1] <= std::max(a[1], b[1]);
  }
  // closed polygon: boundary counts as inside. Crossing number (even-odd) in exact integer arithmetic.
  inline bool in_closed_polygon(const std::vector<IP> &poly, const IP &p)
  {
    const size_t n = poly.size();
    for (size_t i = 0; i < n; ++i)
      if (on_segment(poly[i], poly[(i+1)%n], p)) return true;
    bool in = false;
    for (size_t i = 0; i < n; ++i)
      {
        const IP &a = poly[i], &b = poly[(i+1)%n];
        if ((a[1] > p[1]) != (b[1] > p[1]))
          {
            // x coordinate of the edge at height p.y compared with p.x, exactly:
            // p.x < a.x + (p.y-a.y)*(b.x-a.x)/(b.y-a.y)
            const int64_t lhs = (p[0]-a[0])*(b[1]-a[1]);
            const int64_t rhs = (p[1]-a[1])*(b[0]-a[0]);
            if ((b[1] > a[1]) ? (lhs < rhs) : (lhs > rhs)) in = !in;
          }
      }
    return in;
  }
  inline bool segments_properly_or_improperly_intersect(const IP &a, const IP &b, const IP &c, const IP &d)
  {
    const int64_t d1 = cross(c, d, a), d2 = cross(c, d, b), d3 = cross(a, b, c), d4 = cross(a, b, d);
    if (((d1 > 0 && d2 < 0) || (d1 < 0 && d2 > 0)) && ((d3 > 0 && d4 < 0) || (d3 < 0 && d4 > 0))) return true;
    if (d1 == 0 && on_segment(c, d, a)) return true;
    if (d2 == 0 && on_segment(c, d, b)) return true;
    if (d3 == 0 && on_segment(a, b, c)) return true;
    if (d4 == 0 && on_segment(a, b, d)) return true;
    return false;
  }
  // simple polygon: distinct vertices, non-adjacent edges disjoint, adjacent edges share only their common vertex,
  // no three consecutive collinear vertices (so every listed vertex is a real corner), non-zero area
  inline bool is_simple(const std::vector<IP> &poly)
  {
    const size_t n = poly.size();
    if (n < 3) return false;
    for (size_t i = 0; i < n; ++i)
      {
        for (size_t j = i+1; j < n; ++j) if (poly[i] == poly[j]) return false;
        if (cross(poly[i], poly[(i+1)%n], poly[(i+2)%n]) == 0) return false;
      }
    for (size_t i = 0; i < n; ++i)
      for (size_t j = i+1; j < n; ++j)
        {
          const bool adjacent = (j == i+1) || (i == 0 && j == n-1);
          if (adjacent) continue;
          if (segments_properly_or_improperly_intersect(poly[i], poly[(i+1)%n], poly[j], poly[(j+1)%n])) return false;
        }
    return true;
  }
  // all simple polygons with nmin..nmax vertices on the LxL integer lattice; every cyclic start and both
  // orientations appear as separate entries unless canonical_start is set (then only sequences whose first
  // vertex is the lexicographically smallest are kept - both orientations still appear)
  inline std::vector<std::vector<IP>> lattice_polygons(int L, size_t nmin, size_t nmax, bool canonical_start)
  {
    std::vector<IP> pts;
    for (int x = 0; x < L; ++x) for (int y = 0; y < L; ++y) pts.push_back({{x, y}});
    std::vector<std::vector<IP>> out;
    std::vector<IP> cur;
    std::vector<bool> used(pts.size(), false);
    std::function<void()> rec = [&]()
    {
      if (cur.size() >= nmin && is_simple(cur)) out.push_back(cur);
      if (cur.size() == nmax) return;
      for (size_t i = 0; i < pts.size(); ++i)
        {
          if (used[i]) continue;
          if (canonical_start && !cur.empty() && pts[i] < cur[0]) continue;
          used[i] = true; cur.push_back(pts[i]);
          rec();
          cur.pop_back(); used[i] = false;
        }
    };
    rec();
    return out;
  }
}
