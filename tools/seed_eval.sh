#!/bin/bash
# seed_eval.sh <property> [check ids...]  : for every confirmed change under /tmp/seed/<property>/out/*, apply it to /repo,
# run the quick check(s), revert, and keep it under /verif/seeded/ with meta.json. Development-time tool.
set -uo pipefail
prop=$1; shift
checks=${@:-$prop}
ROOT=${SEEDROOT:-/tmp/seed}; TAG=${SEEDTAG:-}
for o in $ROOT/$prop/out/*/; do
  m=$(basename $o)
  [ -f $o/patch.diff ] || continue
  conf=$(grep "^$prop $m:" $ROOT/confirm_all.log | tail -1)
  case "$conf" in
    *"demo_without_rc=0 demo_with_rc="[1-9]*" other_failed_tests=0"*) ;;
    *) echo "$prop $m NOT CONFIRMED: $conf"; continue;;
  esac
  res=$(/verif/tools/seed_try.sh $o/patch.diff $checks 2>&1)
  echo "$prop $m: $res" | cut -c1-600
  status=missed; echo "$res" | grep -q "^CAUGHT" && status=caught
  needs=$(grep -i -A6 "needed\|manifest" $o/notes.md | head -8 | tr '\n' ' ' | cut -c1-500)
  python3 /verif/tools/seed_keep.py $o $prop-$TAG$m $prop $status "$(echo "$res" | head -3 | cut -c1-400)" -- "$needs" > /dev/null
done
