#!/bin/bash
# seed_matrix.sh : re-run every kept seeded change against the current tree and the current checks (development-time tool).
# Writes /verif/build/seed_matrix.txt ; does not touch seeded/*/meta.json
out=/verif/build/seed_matrix.txt; : > $out
for d in /verif/seeded/*/; do
  id=$(basename $d); prop=${id%%-*}
  p=$d/patch.diff; [ -f $d/patch_rebased.diff ] && p=$d/patch_rebased.diff
  if ! git -C /repo apply --check $p 2>/dev/null; then
    # try fuzzy / 3-way
    if git -C /repo apply --3way --check $p 2>/dev/null; then :; else echo "$id NOAPPLY" >> $out; continue; fi
  fi
  res=$(/verif/tools/seed_try.sh $p $prop 2>&1 | head -1 | cut -c1-200)
  echo "$id $res" >> $out
done
echo DONE >> $out
