#!/usr/bin/env python3
"""Generate /verif/build/<variant>/build.ninja for a staged copy of /repo's sources.

The library is compiled file by file (non-unity, so -j16 is used) with -DGWB_VERIF, archived to
libwb.a; gwb-dat / gwb-grid and the checker binaries of /verif/checks are linked against it.
A checker source names the variants it wants in a first-lines comment `// VARIANTS: rel san`.
"""
import os, re, sys, glob

V = '/verif'
variant = sys.argv[1]
stage = f'{V}/build/stage'
out = f'{V}/build/{variant}'
os.makedirs(out, exist_ok=True)

common = ('-std=c++14 -DGWB_VERIF -DVTU11_ENABLE_ZLIB -DWB_USE_FP_EXCEPTIONS -DWB_WITH_ZLIB -DNDEBUG '
          f'-I{stage}/include -I{stage}/gen/include -w')
flags = {
    'rel': '-O2 -g1',
    'san': '-O1 -g1 -D_GLIBCXX_ASSERTIONS -fno-omit-frame-pointer -fsanitize=address,undefined,float-cast-overflow '
           '-fno-sanitize-recover=undefined,float-cast-overflow',
    'tsan': '-O1 -g1 -fno-omit-frame-pointer -fsanitize=thread',
    # 'sch': as rel, and every std::atomic of the library / tools goes through the GWB_VERIF yield hook (mc/atomic_hook.h is force-included)
    'sch': '-O2 -g1',
}[variant]
ldflags = {'rel': '', 'san': '-fsanitize=address,undefined', 'tsan': '-fsanitize=thread', 'sch': ''}[variant]
libextra = f' -include {V}/mc/atomic_hook.h' if variant == 'sch' else ''

cxx = 'ccache g++' if os.path.exists('/usr/bin/ccache') else 'g++'
L = []
L.append(f'cxx = {cxx}')
L.append(f'cxxflags = {common} {flags}')
L.append(f'chkflags = {common.replace("-std=c++14", "-std=c++17")} {flags} -I{V}/mc -I{stage}/source -Wall -Wno-unused-function')
L.append(f'ldflags = {ldflags} -lz -lpthread')
L.append(f'rule cc\n  command = $cxx $cxxflags{libextra} -MMD -MF $out.d -c $in -o $out\n  depfile = $out.d\n  deps = gcc\n  description = CC $out')
L.append('rule chk\n  command = $cxx $chkflags $extra -MMD -MF $out.d -c $in -o $out\n  depfile = $out.d\n  deps = gcc\n  description = CHK $out')
L.append('rule ar\n  command = rm -f $out && ar crs $out $in\n  description = AR $out')
L.append('rule link\n  command = g++ -o $out $objs -Wl,--whole-archive libwb.a -Wl,--no-whole-archive $ldflags\n  description = LINK $out')

objs = []
for src in sorted(glob.glob(f'{stage}/source/world_builder/**/*.cc', recursive=True)):
    rel = os.path.relpath(src, f'{stage}/source')
    o = 'obj/' + rel.replace('/', '_')[:-3] + '.o'
    objs.append(o)
    L.append(f'build {o}: cc {src}')
L.append('build libwb.a: ar ' + ' '.join(objs))
for app in ('gwb-dat', 'gwb-grid'):
    L.append(f'build obj/{app}.o: cc {stage}/source/{app}/main.cc')
    L.append(f'build bin/{app}: link obj/{app}.o libwb.a\n  objs = obj/{app}.o')
targets = ['bin/gwb-dat', 'bin/gwb-grid']

mcobjs = []
for src in sorted(glob.glob(f'{V}/mc/*.cc')):
    head = open(src).read(400)
    m = re.search(r'VARIANTS:\s*([a-z ]+)', head)
    if m and variant not in m.group(1).split():
        continue
    o = 'obj/mc_' + os.path.basename(src)[:-3] + '.o'
    mcobjs.append(o)
    L.append(f'build {o}: chk {src}')
if mcobjs:
    L.append('build libmc.a: ar ' + ' '.join(mcobjs))

for src in sorted(glob.glob(f'{V}/checks/*.cc')):
    head = open(src).read(600)
    m = re.search(r'VARIANTS:\s*([a-z ]+)', head)
    want = m.group(1).split() if m else ['rel']
    if variant not in want:
        continue
    name = os.path.basename(src)[:-3]
    # a checker may ask for extra compiler flags in a first-lines comment `// EXTRA: -fno-access-control` (reading private members of library objects)
    mx = re.search(r'EXTRA:\s*(\S.*)', head)
    L.append(f'build obj/chk_{name}.o: chk {src}' + (f'\n  extra = {mx.group(1).strip()}' if mx else ''))
    L.append(f'build bin/{name}: link obj/chk_{name}.o ' + ('libmc.a ' if mcobjs else '') + f'libwb.a\n  objs = obj/chk_{name}.o ' + ('libmc.a' if mcobjs else ''))
    targets.append(f'bin/{name}')
L.append('default ' + ' '.join(targets))
new = '\n'.join(L) + '\n'
p = f'{out}/build.ninja'
if not os.path.exists(p) or open(p).read() != new:
    open(p, 'w').write(new)
