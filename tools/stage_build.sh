#!/bin/bash
# stage_build.sh <variant>...   (variants: rel san tsan sch)
# Copies /repo's working-tree sources (content comparison, so the current tree is always what is
# built) into /verif/build/stage and builds libwb.a, the apps and the checker binaries of each
# requested variant incrementally with -DGWB_VERIF. Serialised by a lock; nothing lives in /tmp.
set -euo pipefail
V=/verif
REPO=${VERIF_REPO:-/repo}
mkdir -p $V/build/stage/gen/include/world_builder $V/build/run $V/build/ccache
export CCACHE_DIR=$V/build/ccache CCACHE_BASEDIR=$V/build CCACHE_NOHASHDIR=1
exec 9>$V/build/.lock
flock 9
rsync -rc --delete $REPO/include/ $V/build/stage/include/
rsync -rc --delete $REPO/source/ $V/build/stage/source/
ver=$(cat $REPO/VERSION)
maj=${ver%%.*}; rest=${ver#*.}; min=${rest%%.*}; rest=${rest#*.}; pat=${rest%%-*}
lab=""; case "$ver" in *-*) lab=${ver#*-};; esac
tmpc=$V/build/stage/gen/config.h.new
sed -e "s/@WORLD_BUILDER_VERSION_MAJOR@/$maj/g" -e "s/@WORLD_BUILDER_VERSION_MINOR@/$min/g" \
    -e "s/@WORLD_BUILDER_VERSION_PATCH@/$pat/g" -e "s/@WORLD_BUILDER_VERSION_LABEL@/$lab/g" \
    -e "s/@GIT_SHA1@/verif/g" -e "s/@GIT_BRANCH@/verif/g" -e "s/@GIT_DATE@/none/g" \
    -e "s/@GIT_COMMIT_SUBJECT@/none/g" -e "s#@WORLD_BUILDER_SOURCE_DIR@#$REPO#g" \
    $REPO/include/world_builder/config.h.in > $tmpc
cmp -s $tmpc $V/build/stage/gen/include/world_builder/config.h || cp $tmpc $V/build/stage/gen/include/world_builder/config.h
rm -f $tmpc
for variant in "$@"; do
  python3 $V/tools/gen_ninja.py $variant
  if ! ninja -C $V/build/$variant -j16 > $V/build/$variant/ninja.log 2>&1; then
    echo "BUILD FAILED variant=$variant (see $V/build/$variant/ninja.log)" >&2
    tail -40 $V/build/$variant/ninja.log >&2
    exit 2
  fi
done
