#!/bin/bash
# Builds all four variants of the library, the apps and every checker binary once (offline, from files on disk).
set -euo pipefail
cd /verif
tools/stage_build.sh rel san tsan sch
echo "setup done"
