#!/usr/bin/env python3
import json, sys
for l in open('/verif/properties.jsonl'):
    p = json.loads(l)
    if p['id'] == sys.argv[1]:
        print(f"Property {p['id']}: {p['title']}\n\nStatement: {p['statement']}\n\nQuantified over: {p['quantifier']['text']}\n\nCode it is anchored in: {', '.join(p['anchors']['files'])}")
