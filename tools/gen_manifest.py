#!/usr/bin/env python3
"""Writes /verif/MANIFEST.json from the table below (kept in one place so it is always valid)."""
import json, os, subprocess

V = '/verif'
CHECKS = {
    # id: (level, engine, technique, text, note, design_ref)
    'C03': ('exploration', 'E1',
            'bounded exhaustive enumeration (full product of constants x coordinate system x feature stack x forcing) on the real library, closed-form oracle',
            'Every tuple of a finite lattice of global constants, both coordinate systems, four feature-list kinds and four forcing settings is built and '
            'queried at every lattice point/depth/request list; background values are compared with the documented closed form, forced surface '
            'temperature with the configured value in every batching, also inside features.',
            'Coverage is the stated lattice only; outside-ness of points is decided by construction of the worlds (all features at x>=0).',
            'DESIGN.md section 3 C03'),
    'C01': ('model_checking', 'E2',
            'bounded exhaustive enumeration of request lists (all lists up to length 3|4 over 8 atoms) and explicit-state search over operation histories (all sequences up to depth 3|5) on the real library',
            'Every request list up to the bound is issued at every lattice point of four rich worlds through the 2-D and 3-D interface and every block is compared bit-for-bit with the '
            'stand-alone query and the single-property entry points; every operation history up to the bound (queries through all entry points, constructing/querying/destroying a second '
            'world) is replayed on fresh objects and the canonical state (probe answers, RNG engine, other world alive) is compared with a history-free world.',
            'Alphabets: 8 request atoms, 4 worlds, 9 operations; nothing beyond the stated list length / history depth is claimed. All traces are implementation traces.',
            'DESIGN.md section 3 C01'),
    'C16': ('exploration', 'E1',
            'bounded exhaustive enumeration (full product of create_world argument combinations x worlds) with a differential oracle against the native World object',
            'Every combination of world, output-flag pointer, output-directory argument and seed is passed through create_world and the C++ wrapper; every C function and wrapper method is '
            'compared bit-for-bit with a native World built from the same arguments at every lattice point and for every request list of length <= 2, and the declaration files must appear exactly in the requested directory.',
            'Argument alphabet as stated (3 flag pointers, 4 directory strings incl. a prefix without trailing slash, 3 seeds, 4 worlds); thorough tier equals quick tier because the space is already the full product.',
            'DESIGN.md section 3 C16'),
    'C02': ('exploration', 'E1',
            'bounded exhaustive enumeration of ordered feature lists (all lists of <= 2|3 features with all mode assignments, deviation-bounded for 3|4) on the real library against a reference fold',
            'Every ordered list (with repetition) of features from six templates - one per feature type, overlapping footprints - with every assignment of replace / replace defined only / add / '
            'subtract / no models / temperature-only is built and compared bit-for-bit with a reference fold written from the documentation: background, then in file order each covering feature '
            'applies its models; tag of the last covering feature. Deleted and permuted lists are all members of the enumerated space and tied to the same fold.',
            'Membership of a point in a single feature is taken from the implementation (geometry is C04/C06); uniform models only; list length bound as stated.',
            'DESIGN.md section 3 C02'),
    'C04': ('exploration', 'E1',
            'bounded exhaustive enumeration of all simple lattice polygons (3..4|5 vertices on a 3x3|4x4 lattice) and of plume tables within 2|3 deviations, exact integer / long-double reference oracle',
            'Every simple polygon of the lattice, in both orientations, is used as the footprint of each area feature type with three depth windows and three scales (cartesian) and five longitude '
            'offsets including dateline-straddling and +-360 ones (spherical); membership at every half-step point (all edge and vertex points included) and at the closed ends of the depth interval '
            '(with their nextafter neighbours) is compared with an exact integer crossing-number oracle. Plume tables within the deviation bound are compared with an independent implementation of the statement.',
            'Polygons beyond the lattice / vertex bound and plume tables beyond the deviation bound are not covered; spherical boundary points and plume points within 1e-9 of the rim are skipped and counted.',
            'DESIGN.md section 3 C04'),
    'C19': ('exploration', 'E1',
            'bounded exhaustive enumeration of kernel inputs on small integer lattices (all point subsets and insertion orders, all simple polygons, all polylines with bends <= 60 degrees, all lattice pairs on the sphere) with brute-force / exact oracles',
            'The kd-tree is built from every subset of up to 5|6 lattice points in every insertion order and queried at every half-step point (ties included); the polygon kernel is run on every '
            'simple lattice polygon at every half-step point with an exact integer oracle (all edge and vertex points included); every lattice polyline with bends <= 60 degrees is turned into a '
            'Bezier curve whose closest-point answers are compared with dense sampling plus refinement; conversions and the great-circle distance are compared on a full (lon,lat) lattice, all pairs.',
            'Kernels are called directly through their public headers; lattice sizes bound the claim. Bezier queries whose nearest curve point is a curve end are not judged.',
            'DESIGN.md section 3 C19'),
    'C14': ('model_checking', 'E3',
            'stateless model checking of the real code: all schedules with <= 2|3 preemptions (iterative context bounding) under a cooperative scheduler over hooked yield points and interposed pthread_create/join, plus exhaustive (n, threads) enumeration of the work partition and every -j in 1..40 of the real tool; data races by a separate free-running ThreadSanitizer pass',
            'Worker threads of the real ThreadPool query one real World; the scheduler serialises them and enumerates every interleaving of the scheduling points (thread create/join/exit and the three yield '
            'hooks of World::properties) within the preemption bound, each execution on a brand-new world, every result compared bit-for-bit with the sequential answer and one schedule per unit replayed. '
            'parallel_for is run for every n in 0..256|2000 and every thread count 1..40 (each index visited exactly once) and gwb-grid for every -j in 1..40 on 8 grids (byte-identical files). '
            'Because a serialising scheduler hides unsynchronised accesses, the same bodies run free in the TSan build on brand-new worlds with 8 threads released together.',
            'Code between two scheduling points is atomic under the scheduler; races inside such stretches are only covered by TSan happens-before analysis (sampled executions, not exhaustive). Sequential consistency assumed. Worlds without random models.',
            'DESIGN.md section 3 C14'),
    'C09': ('exploration', 'E1',
            'bounded exhaustive enumeration (full product of cross sections x coordinate systems x 2-D lattice x all request lists of length <= 2) with a differential oracle against the 3-D interface',
            'For every cross section of the alphabet (5 origins x 7 directions including oblique, negative and non-axis-aligned ones, both coordinate systems) a rich world is built and every 2-D '
            'lattice point is queried with every request list; the harness computes the 3-D point from the statement and compares block by block with the 3-D interface (velocity: in-section projection). '
            'Adjacent-double pairs straddling feature boundaries are queried in->out->in. Worlds without a cross section must refuse all five 2-D entry points with a std::exception.',
            'Non-velocity blocks are only judged at robust points (neighbours at 1e-6 scale agree); the rest is counted as skipped.',
            'DESIGN.md section 3 C09'),
    'C15': ('model_checking', 'E2',
            'explicit enumeration of all operation sequences up to depth 3|5 over 6 operations on twin worlds (11 feature/model combinations), plus the full product of seeds x seed sources with all-pairs comparison',
            'For every feature type offering a random grains model (both models) every operation sequence up to the bound is executed on two worlds built alike; answers are compared bit-for-bit and the '
            'serialised mt19937 engines must be equal after every step; every random answer is validated (orthonormal, det +1, normalised sizes, fixed sizes, per-composition bounds). Seeds {0,1,2,1000,max} '
            'through the constructor, the file entry or both: twins agree, the file entry overrides the constructor, all pairs of distinct seeds differ.',
            'States are the distinct engine states reached; depth bound as stated; tolerance 1e-12 for matrix validity.',
            'DESIGN.md section 3 C15'),
    'C07': ('exploration', 'E1',
            'bounded exhaustive enumeration of slab/fault configurations (all tuples within 3 deviations | full product) built as twin worlds with culling on and off (GWB_VERIF switch), and of value-point layouts for depth surfaces against a full triangle scan',
            'Every slab/fault of the alphabet (7 coordinate settings incl. high latitudes, dateline and meridional trenches; 4 trench shapes; dips 1..179; min depth 0..200 km; growing thickness) is '
            'built twice in one process, with the computed culling bounds and with infinite ones, and compared bit-for-bit on a lattice that reaches three times (length+thickness) around the trench and '
            'below the deepest possible point. Objects::Surface::local_value is compared with a long-double scan of all its triangles for every value-point layout of the alphabet, also through the longitude alias.',
            'The un-accelerated evaluation is the same code with infinite bounds, so a defect shared by both paths is not visible here (geometry itself is C04/C06).',
            'DESIGN.md section 3 C07'),
    'C13': ('exploration', 'E1',
            'bounded exhaustive enumeration of world families (sane and schema-valid degenerate parameters) x points placed on the degenerate loci x request lists, executed in the ASan+UBSan build with a finiteness oracle',
            'Every world of four families (rich worlds; slabs/faults over 12 segment tables incl. zero length/thickness, dips 0/180 and overturning arcs x thermal models incl. zero velocities; area '
            'features and plumes with degenerate geometry; degenerate cross sections) is queried at polygon vertices and edge midpoints, trench points and ends, the slab tip, joints and arc centres, depth 0 '
            'and the min/max depths, the poles, the +-180 meridian, the centre of the sphere, z+depth=0, plume axis and rim, with every single-property request and three batched ones, in 3-D and 2-D. '
            'Every value must be finite or a std::exception thrown; a sanitizer report, signal or watchdog expiry is a violation.',
            'Only the listed families and loci are covered; worlds rejected by the constructor are left to C12.',
            'DESIGN.md section 3 C13'),
    'C12': ('fault_enumeration', 'E4',
            'exhaustive enumeration of document faults: every single deviation (byte level: prefix / deletion / transposition / token substitution; JSON-tree level: delete / replace by 7|14 constants / rename key / duplicate element at EVERY node) of base documents, all short token strings, all list-length combinations, formatting variants, and (thorough) all pairs of tree deviations of the smallest base; each candidate loaded in the ASan+UBSan build, independent schema verdict from Python jsonschema',
            'Every candidate document of the stated classes is handed to World::World in the sanitizer build. Allowed outcomes are a built world (then probed with 160 queries) or a std::exception with a '
            'message; a signal, sanitizer report, foreign exception or watchdog expiry is a violation of that candidate. Documents that Python jsonschema finds invalid against the frozen published schema, '
            'and list families with inconsistent lengths, must be rejected; formatting variants (whitespace, comments at every token boundary, key orders) must answer bit-identically to the canonical file.',
            'Single deviations on every base document; in the thorough tier also every pair of {delete, replace by null / -1 / "x" / [] / {}} at two nodes of the smallest base; base documents as listed; the schema verdict is used one way (invalid => reject).',
            'DESIGN.md section 3 C12'),
    'C17': ('exploration', 'E1',
            'bounded exhaustive enumeration (full product of worlds x dim x compositions x grain compositions x grains x convert spherical x separator; every special line of a comment / option-prefix / malformed-row alphabet at three positions) with the real gwb-dat binaries run as subprocesses, cell-by-cell differential oracle against the library',
            'The real gwb-dat binary is run once per configuration on the full point lattice; the header is parsed into column names and every cell is compared as a string with the value '
            'World::properties returns for that column at that row (printed through the same ostream formatting), including the echoed coordinates. Every line of the special-line alphabet '
            '(bare #, every token-prefix of every option line, comments of 1..8 words, option look-alikes, rows with too few / too many columns, 7 kinds of non-numeric token at every position, '
            'trailing garbage, refused option values) is inserted before, between and after the rows and run through the ASan+UBSan build of the tool with libstdc++ assertions: comments must leave '
            'the table unchanged, malformed lines must end the run with a message, and nothing may be undefined behaviour.',
            'Worlds, counts and the special-line alphabet as listed; the harness links the same libwb.a, so exact string equality is required. Two known findings (2-D column shift, 3-D header column g) are pinned by reference outputs.',
            'DESIGN.md section 3 C17'),
    'C18': ('exploration', 'E1',
            'bounded exhaustive enumeration (full product of grid type x dim x cell counts 1..3|4 per axis x bound sets x worlds, output modes and thread counts round-robin | all modes) with the real gwb-grid main() run in-process; captured writer arrays and the parsed ASCII file against an independent lattice / closed-surface description of the requested mesh and a differential oracle against World::properties',
            'The real gwb-grid main() is run for every grid file of the alphabet. The arrays it hands to the VTU writer are captured at full precision: node positions and cells must be exactly the requested '
            'lattice (cartesian, chunk incl. one across the +-180 meridian: every lattice node once, every lattice cell once, valid VTK node order), a closed ring lattice (annulus) or, per radial level, a closed '
            'surface of 12 n^2 quads with Euler characteristic 2 and total solid angle 4 pi, extruded radially (sphere); every connectivity index refers to an existing node; Depth is the distance below '
            'the top; temperature, velocity, tag and every composition are bit-identical to World::properties at the node position and depth; --filtered and --by-tag outputs contain exactly the cells whose highest '
            'node tag is selected, with unchanged node values; the written file is well-formed XML and, parsed back, equals the arrays (ASCII: their %.6g rendering; Base64Inline, Base64Appended, RawBinary and RawBinaryCompressed: byte for byte after decoding by format / offset / header attributes and zlib blocks).',
            'Output format ASCII for two thirds of the grid files, the four binary formats round-robin for the rest; cell counts, bounds and worlds as listed. The tag rule is the one the tool implements and its help text describes.',
            'DESIGN.md section 3 C18'),
    'C08': ('exploration', 'E1',
            'bounded exhaustive enumeration (full product of 6 base worlds x rigid motions: rotation angle x translation in cartesian worlds, common longitude offsets x query longitude aliases in spherical worlds) with a metamorphic oracle: moved world at moved point against base world at base point',
            'Six base worlds containing every feature and model type, a curved trench, single and two-segment ridges with varying spreading velocity, depth surfaces given at points and a cross section are written with every '
            'coordinate of the file moved by g (feature coordinates, dip points, ridge coordinates, depth-surface points, cross section; plume azimuths for rotations) and queried at g(p) for every probe p, in 3-D and through the 2-D '
            'interface; tag, compositions, temperature and grains must agree with the unmoved world up to rounding. Exact motions (quarter turns, half-lattice translations) must agree exactly on points lying on polygon edges, '
            'corners and constant depth limits. Spherical worlds are shifted by every longitude offset of the alphabet, including ones carrying features across +-180 and to longitudes near +-360, and queried through L, L+360 and L-360.',
            'Probes within 0.1 m / 1e-6 degree of a tag / composition change or on a temperature jump are skipped and counted. One known finding (slab / fault trench written with longitudes outside (-180,180]) is pinned by a reference output.',
            'DESIGN.md section 3 C08'),
    'C10': ('exploration', 'E1',
            'bounded exhaustive enumeration: full product {slab, fault} x {1,2} segments x placement of each model kind in {feature, section, segment} (3^4) x every subset of coordinates with an explicit section (2^n), differential oracle between layouts; and {slab, fault} x coordinate count x overridden coordinate x 8 override kinds with section weights observed through marker compositions',
            'Every re-layout of one logical world (models written at the feature, repeated in section entries for any subset of coordinates, or written into every segment; an explicitly modelled second segment keeps its own model) '
            'is built and compared bit-for-bit with the feature-level layout on a point lattice. For the section statement every coordinate gets its own section; a classifier world with the same trench paints composition j in '
            'section j, which makes the interpolation weights of every probe observable through the public API: weights must be convex and confined to two adjacent sections; thickness, top truncation and length (via membership and the public '
            'distance-to-plane query), uniform temperatures, compositions and additive (operation add) models must be the weighted combination; overriding thickness / length / top truncation / temperature / composition / dip of coordinate k '
            'must leave every probe with zero weight on section k bit-identical.',
            'Gently bent trenches with 2..4|5 coordinates, one or two segments; uniform and linear models. Probes within 1 mm of an extent limit are skipped and counted.',
            'DESIGN.md section 3 C10'),
    'C11': ('exploration', 'E1',
            'bounded exhaustive enumeration of depth surfaces (every set of <= 2|3 additional value points on the lattice points of four polygons x every assignment from a 3-value set x min/max depth x cartesian / spherical incl. date-line and near-360 placements; an affine family over the same sets and over a large plate) with the local depth observed by bisection on membership through the public API',
            'For every surface of the alphabet the local depth limit is recovered at every half-step lattice point inside or on the polygon by bisection on the tag along the vertical and compared with what the documentation promises: '
            'the listed value at a listed point, the default at an unlisted corner, a listed value replacing the default at a corner, bounds by the smallest and largest nodal value everywhere, exact reproduction of affine data whatever the '
            'triangulation, the effect of a value-less item listed first or last; in cartesian worlds the feature is additionally compared with Objects::Surface built directly from the documented node list.',
            'Polygons, point sets and values as listed; spherical polygon edges are not probed. Two known findings: value listed at a corner with a zero coordinate (pinned by reference outputs), near-collinear value points on a diagonal in spherical coordinates (third-party triangulator).',
            'DESIGN.md section 3 C11'),
    'C06': ('exploration', 'E1',
            'bounded exhaustive enumeration of straight-trench slab / fault worlds (all dip pairs of a 5-value set for one segment in 6 trench directions x 2 dip sides; all continuous-dip tables of two | three segments; dip-jump tables; thickness / truncation shapes; depth windows) x a 7 x 22 x 21 probe lattice, against a long-double planar construction written from the statement',
            'For every world the public distance-to-plane query and the membership (tag) of every probe are compared with an independent construction of the surface in the vertical plane perpendicular to the trench: straight pieces and circular arcs '
            'chained from the trench at min depth, perpendicular feet by bracketing and bisection, signed distance and arc length at the nearest foot; membership = top truncation <= distance <= thickness (fault: half thickness either side), '
            '0 <= along <= total length, foot between the trench ends, min depth <= depth <= max depth. A linear temperature model decodes the distance the feature itself used. The two entry points are called in both orders and the distance query is repeated.',
            'Cartesian worlds only (in spherical worlds the construction depends on the depth method). Probes within 10 tolerances of any limit, with two nearly equidistant feet, or in the footless wedge of a dip jump are skipped and counted. One known finding (foot exactly on a segment joint).',
            'DESIGN.md section 3 C06'),
    'C05': ('exploration', 'E1',
            'bounded exhaustive enumeration (full product per model family of feature type x parameter values incl. sentinels x model range relation x operation x coordinate system) of single-feature worlds with elementary geometry, against the documented expressions in long double; differential oracle for the sentinel of slab models without a closed form',
            'For every tuple a single-feature world is built whose model input is known exactly (square plates, straight ridge parallel to an axis or along a meridian, vertical plume, vertical slab / fault) and every probe - at the ends of the '
            'feature and model ranges, one metre inside, in between and outside - is compared with the documented expression: uniform, linear, adiabatic, Chapman, half space, plate model, constant-age plate, Gaussian plume, uniform and smooth composition '
            'with all four operations, uniform raw velocity; negative parameters must select the adiabatic / global value. For the mass conserving and plate model slab temperatures a local potential temperature over a different global one must equal the world with that global value.',
            'Parameter alphabets as listed in the source of the check; plate-model probes stay 10 km away from the ridge axis (truncated series); 1e-9 relative tolerance (1e-5 for the two plate models).',
            'DESIGN.md section 3 C05'),
    'C20': ('exploration', 'E1',
            'bounded exhaustive enumeration: full product of oceanic cooling models x end-member temperatures x plate thickness x ridge geometry x spreading velocity (uniform / varying) probed on a lattice that includes the ridge axis; all parameter tuples of the mass conserving and plate model slab temperatures within 2 | 3 deviations of a default (14 coordinates); linear models of all feature types; envelope / monotonicity / boundary-value oracles',
            'Every oceanic half space, plate and constant-age plate model of the product is queried on 16 x 5 surface positions (on the ridge axis, 0.1 m, 100 m and 1 km from it, far away, on both sides) x 43 depths: the temperature must lie '
            'between top and bottom temperature, rise with depth, fall with distance from the ridge, and attain the prescribed temperatures at the model top and (plate models) bottom, also where the max depth is given at points. Every slab model tuple within the '
            'deviation bound is probed on a 37 x 57 x 2 lattice and compared with surface temperature <= T <= max(ambient, adiabat), the ambient temperature coming from a twin world without the slab model; comparisons are negated so that NaN fails. Linear models must stay between and attain their two temperatures.',
            'Alphabets as listed in the source; probes within 20 m of the ridge axis are exempt from the top-temperature clause of the half space model (singular point). Two known findings (ripples of the truncated plate-model series next to the axis; spline undershoot of the mass conserving model).',
            'DESIGN.md section 3 C20'),
}
NOT_YET = {}

# additions of the second round (appended to the text of the level claim); details: DESIGN.md section 3 "As built, second round"
ROUND2 = {
    'C01': 'Second round: a fifth world whose features only partly replace earlier values, probes just above / at / below the surface and lines through fault and slab; history alphabet of 15 operations incl. temperature profiles through two slabs with splines of different sizes.',
    'C02': 'Second round: modes with one more composition listed at fraction 0 (8 modes).',
    'C03': 'Second round: suite limits - every feature type x top/bottom {absent, constant, values at points | shallower than the geometric reach} x coordinate system; probes beyond the local depth limits inside the footprint return the background.',
    'C04': 'Second round: plume min depth below its first cross section.',
    'C05': 'Second round: uniform raw velocity of all six feature types x {replace, add, subtract} over a moving layer; model ranges and feature tops given as surfaces, probed where the local range is exact.',
    'C06': 'Second round: negative min depth with probes above the reference surface.',
    'C08': 'Second round: base worlds with small faults / a small slab on long traces in three directions and with depth surfaces given at 30 points each in general position (8 base worlds).',
    'C09': 'Second round: forced surface temperature as a dimension, depths just above / at / below the surface, temperature / composition entry points; refusal matrix {coordinate system} x {forced surface} x 3 points x 7 depths x 6 entry points.',
    'C10': 'Second round: fourth placement (explicit sections fall through to the feature; 4^4 placements), two-valued top truncation / thickness, zero-length first / second segment at one coordinate, coarse independent planar oracle (25 km).',
    'C11': 'Second round: six scaled / displaced places (0.0025x, 0.025x, 4x the lattice unit) and a closed-form fan oracle for rectangles with one interior value point.',
    'C12': 'Second round: every rejected document is offered a second time in the same process and must be rejected again.',
    'C13': 'Second round: slabs and faults next to a pole queried on and around the rotation axis; mass conserving slabs with optional parameters at zero or beyond the slab.',
    'C14': 'Second round: suite psched - ThreadPool::parallel_for with a counting body, std::atomic of the tool mapped onto a hooked atomic and pthread_mutex interposed, threads {2,3,4} x n up to 5000, all schedules within 3/2/1 | 4/3/2 preemptions; partition sizes around 1024/2048/4096; sequential references from brand-new threads; TSan rounds with mass conserving slabs; 11 grids for -j independence.',
    'C15': 'Second round: suite validity - combination x deflection {0.5, 0, 1e-3, 1e-2, 0.1, 1} x four size settings (incl. fixed 0, un-normalised random) x 2 seeds, slabs and faults at five positions between trench coordinates.',
    'C16': 'Second round: every query twice in a row; TSan pass with eight threads sharing one C handle and one C++ wrapper object.',
    'C17': 'Second round: every requested value must have a column.',
    'C18': 'Second round: grids with 1331 / 4913 / 4615 nodes, 2..16 threads, all five VTU formats (multi-block compressed arrays).',
    'C19': 'Second round: conversion round trips on 19 colatitudes within 8 degrees of both poles; one-bend family for the Bezier kernel (queries on the curve normals around the bend, both sides).',
    'C20': 'Second round: slab length as 15th coordinate plus the full product length x coupling depth x taper x velocity x ridge distance x dip (3^6); linear slab models starting above the slab surface.',
}

ROUND3 = {
    'C01': 'Third round: 19 operations (a hydrated plate at one cartesian point with two depth arguments; two tag columns 0.03 degrees apart in the spherical world over a sloping layer top given at points) and a sixth world carrying the tian water content model.',
    'C02': 'Third round: ninth mode (two chained models per kind in one feature).',
    'C03': 'Third round: top and bottom surfaces listing different value points.',
    'C04': 'Third round: spherical plume centres written beyond +180, across the date line and below -180 (a longitude offset implies the spherical world); probe depths at non-quarter fractions between cross sections.',
    'C05': 'Third round: uniform grains (Euler angles) for all feature types, velocity / grains models with surface ranges, spherical half-space model starting below the surface.',
    'C06': 'Third round: dip point close to the trench.',
    'C07': 'Third round: arcs through the vertical, one-plane bodies with tip probes over the full length below the actual trench curve, 24 listed shallow thin bodies under bent traces, cartesian columns through member points in spherical worlds; each world is asked all points in a row (not alternating with its twin).',
    'C08': 'Third round: plume rotation angles decreasing through zero with strongly elliptical sections, a dense patch of probes over the plume at non-quarter depths, robustness judged on the grains as well.',
    'C10': 'Third round: suite lengthmodel (feature-level mass conserving model vs the uniform slab with the interpolated length).',
    'C12': 'Third round: fourth base document (hydrated features, interpolation options); closed option strings replaced by an unsupported value must be rejected.',
    'C13': 'Third round: all 57 model plugins with required entries only x 2 coordinate systems; 160 hydrated worlds.',
    'C14': 'Third round: build variant sch (std::atomic inside the library hooked as scheduling points), harness world with repeated columns, TSan gwb-grid with filter options, fine chunk grid (0.04 degrees, 2 km levels, all 40 thread counts) over a sloping layer top given at points.',
    'C15': 'Third round: fixed sizes with normalisation.',
    'C16': 'Third round: negative depths, file names with blanks, native twin for the C++ wrapper stream on random worlds that carry a random composition model.',
    'C17': 'Third round: rows with colliding concatenations, comma separated rows with empty fields.',
    'C18': 'Third round: --resolution-limit, other orders of the grid file settings, inner radius 0.',
    'C19': 'Third round: Bezier and polygon kernels in spherical coordinates (haversine brute force; polygons beyond +-180).',
    'C20': 'Third round: model-level constants as coordinates 16-18.',
}

ROUND4 = {
    'C01': 'Fourth round: 22 operations (two more spherical worlds with all depth surfaces at points: mirrored points with equal cartesian x and y, a tag column in a world over the same polygons with other surfaces), a seventh batching world whose features lack whole kinds of models, deprecated gravity argument with a non-default value.',
    'C05': 'Fourth round: plate models with a top hotter than the bottom, composition lists written in descending order, slab models above the slab top (negative top truncation, ranges above / across / below the top).',
    'C06': 'Fourth round: dips differing by thousandths of a degree, top truncation entries for faults, top truncation beyond half the thickness.',
    'C07': 'Fourth round: surface lookup on polygons turned by 30 degrees at (1e7,1e7) (the last-resort triangle test is reached).',
    'C08': 'Fourth round: every cartesian signature says whether a depth surface of the moved world is incompletely triangulated and whether its nodes are collinear / cocircular up to rounding (read from the world object).',
    'C09': 'Fourth round: cross sections whose second point lies more than half a turn of longitude away.',
    'C10': 'Fourth round: suites noop (sections without a model vs sections with a model that adds zero) and reverse (the trench listed from the other end, bodies tapering out along strike).',
    'C11': 'Fourth round: a probe in general position next to every lattice probe.',
    'C12': 'Fourth round: unsigned 32-bit entries replaced by their value plus 2^32 must be rejected.',
    'C14': 'Fourth round: adiabatic mantle-layer model (reads world-level constants) in the schedule and TSan worlds, chunks closed over 360 degrees in the -j comparison and under TSan.',
    'C16': 'Fourth round: suite handles (several handles with identical arguments alive at once, a file rewritten between two creations); TSan pass with 20 threads using three request lists of different lengths.',
    'C17': 'Fourth round: indented option lines, hexadecimal / inf / nan / overflowing tokens as malformed rows.',
    'C19': 'Fourth round: hook family (trenches of 5-9 coordinates curling one way, check points up to 300 km away).',
}

ROUND5 = {
    'C01': 'Fifth round: add-velocity models and negative compositions in the partial world, composition entry point for compositions 2 and 3.',
    'C04': 'Fifth round: plume rotation angles more than a quarter turn apart.',
    'C05': 'Fifth round: negative uniform offsets, two models with a later locally-short replace range, slow spreading, plume sentinel, three offset ridge segments with per-coordinate velocities, two plates over one area.',
    'C06': 'Fifth round: top truncation decreasing down dip; feet exactly on a segment joint are undecided in the no-foot branch.',
    'C10': 'Fifth round: suite emptylists; noop kind with an inherited temperature model.',
    'C11': 'Fifth round: suite maxdefault (max depth lists without a value for the corners).',
    'C12': 'Fifth round: rejected documents offered to the entry point that writes declaration files.',
    'C13': 'Fifth round: hand-typed rotation matrices, plate model on long fast slabs.',
    'C16': 'Fifth round: refusals of a world without cross section through both wrappers.',
    'C17': 'Fifth round: remarks behind option values; convert spherical in 2-D is reported.',
    'C18': 'Fifth round: arrays of whole compression blocks (VTK last-block convention), world without a mantle layer under the filter options.',
}

ROUND6 = {
    'C01': 'Sixth round: W2 has its own thermal diffusivity (per-process copies of a world constant).',
    'C10': 'Sixth round: velocity kind in suite noop (one section carries uniform raw, the others add the zero vector).',
}

def main():
    props = [json.loads(l) for l in open(f'{V}/properties.jsonl')]
    hooks_commits = []
    try:
        log = subprocess.run(['git', '-C', '/repo', 'log', '--format=%H %s'], capture_output=True, text=True).stdout.splitlines()
        hooks_commits = [l.split()[0] for l in log if 'verif hooks:' in l]
    except Exception:
        pass
    checks = []
    na = []
    for p in props:
        i = p['id']
        if i in CHECKS:
            lvl, eng, tech, text, note, ref = CHECKS[i]
            if i in ROUND2: text = text + ' ' + ROUND2[i]
            if i in ROUND3: text = text + ' ' + ROUND3[i]
            if i in ROUND4: text = text + ' ' + ROUND4[i]
            if i in ROUND5: text = text + ' ' + ROUND5[i]
            if i in ROUND6: text = text + ' ' + ROUND6[i]
            c = {
                'property_id': i,
                'quick_cmd': f'./check {i} --tier quick',
                'thorough_cmd': f'./check {i} --tier thorough',
                'evidence_file': f'/verif/evidence/{i}.json',
                'replay_cmd_template': f'./check {i} --replay {{path}}',
                'engine': eng,
                'level_claimed': {'category': lvl, 'text': text, 'design_ref': ref},
                'level_note': note,
                'technique': tech,
            }
            checks.append(c)
        else:
            na.append({'property_id': i, 'reason': NOT_YET.get(i, 'check not built yet in this round (planned: bounded exhaustive enumeration, see DESIGN.md section 3); no claim is made')})
    m = {
        'version': 1,
        'setup_cmd': './tools/setup.sh',
        'hooks': {
            'guard': 'GWB_VERIF',
            'enable': 'tools/stage_build.sh copies /repo include/ and source/ into /verif/build/stage and compiles every file with -DGWB_VERIF (variants rel, san, tsan, sch; sch force-includes mc/atomic_hook.h so that std::atomic inside the library passes through the yield hook)',
            'baseline_off_cmd': './tools/baseline_off.sh',
            'source_commits': hooks_commits,
            'add_only': True,
        },
        'engines': [
            {'name': 'E1', 'path': 'mc/kit.h', 'kind_free_text': 'deterministic sharded product / deviation-bounded enumerator over world files, points and request lists on the real library, with replay and known-findings handling',
             'serves_properties': sorted(i for i in CHECKS if CHECKS[i][1] == 'E1')},
            {'name': 'E2', 'path': 'mc/kit.h', 'kind_free_text': 'explicit-state search over operation histories replayed on fresh objects, canonical state keys',
             'serves_properties': sorted(i for i in CHECKS if CHECKS[i][1] == 'E2')},
            {'name': 'E3', 'path': 'mc/coopsched.h', 'kind_free_text': 'preemption-bounded cooperative scheduler over hooked yield points, interposed pthread_create/join/mutex and hooked std::atomic (tool and library) + free-running TSan pass',
             'serves_properties': sorted(i for i in CHECKS if CHECKS[i][1] == 'E3')},
            {'name': 'E4', 'path': 'checks/C12.cc', 'kind_free_text': 'document-fault enumerator: every single byte/token/tree deviation of base documents loaded in a forked sanitizer-build child',
             'serves_properties': sorted(i for i in CHECKS if CHECKS[i][1] == 'E4')},
        ],
        'checks': checks,
        'not_applicable': na,
        'notes': 'All checks rebuild from /repo working tree via tools/stage_build.sh (content-compared staging, incremental ninja, ccache under /verif/build). '
                 'Known findings: /verif/known_findings.json. Seeded changes and which check catches them: DESIGN.md section 6 and /verif/seeded/.',
    }
    json.dump(m, open(f'{V}/MANIFEST.json', 'w'), indent=1)
    print(f'MANIFEST.json: {len(checks)} checks, {len(na)} not_applicable')

if __name__ == '__main__':
    main()
