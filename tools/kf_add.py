#!/usr/bin/env python3
"""kf_add.py <property> <status known|fixed> <match> <commit or -> <what...>  - append an entry to known_findings.json (development-time tool, never used by checks)"""
import json, sys
prop, status, match, commit = sys.argv[1:5]
what = ' '.join(sys.argv[5:])
d = json.load(open('/verif/known_findings.json'))
e = {'property': prop, 'status': status, 'match': match, 'what': what}
if status == 'fixed':
    e['commit'] = commit
    e['line'] = f'fixed: property={prop} {commit} {what}'
else:
    e['line'] = f'known: property={prop} {what}'
d['findings'] = [x for x in d['findings'] if not (x['property'] == prop and x['match'] == match)] + [e]
json.dump(d, open('/verif/known_findings.json', 'w'), indent=1)
