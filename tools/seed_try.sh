#!/bin/bash
# seed_try.sh <patch.diff> <check-id>...   apply a seeded change to /repo, run the given quick checks, always revert.
# Prints one line per check: CAUGHT / MISSED.
set -uo pipefail
patch=$1; shift
cd /repo
if ! git diff --quiet; then echo "/repo has uncommitted changes; refusing"; exit 2; fi
git apply --check "$patch" || { echo "patch does not apply"; exit 2; }
git apply "$patch"
trap 'git -C /repo checkout -- . ; /verif/tools/stage_build.sh rel >/dev/null 2>&1' EXIT
for id in "$@"; do
  out=$(/verif/check $id --tier ${SEED_TIER:-quick} 2>&1); rc=$?
  if [ $rc -eq 1 ]; then echo "CAUGHT $id: $(echo "$out" | grep -m2 '^VIOLATION' | cut -c1-260)";
  elif [ $rc -eq 0 ]; then echo "MISSED $id: $(echo "$out" | tail -1 | cut -c1-200)";
  else echo "ERROR rc=$rc $id: $(echo "$out" | tail -3 | cut -c1-300)"; fi
done
