#!/bin/bash
# seed_confirm.sh <seed dir with wt/ and out/mN/> <mN>  : re-confirm in the scratch worktree that the change
# compiles, passes the pinned suite, and that its demo fails with / passes without the change.
set -uo pipefail
d=$1; m=$2; wt=$d/wt; o=$d/out/$m
cd $wt && git checkout -q -- . 
cmake --build _build -j${SEED_J:-16} > /dev/null 2>&1 || { echo "clean build failed"; exit 2; }
demo=$(ls $o/demo.sh 2>/dev/null)
( cd $o && bash demo.sh $wt/_build > $o/confirm_without.txt 2>&1 ); rc0=$?
git apply $o/patch.diff || { echo "patch does not apply"; exit 2; }
cmake --build _build -j${SEED_J:-16} > /dev/null 2>&1 || { echo "build with change failed"; git checkout -q -- .; exit 2; }
ctest --test-dir _build -j${SEED_J:-16} --timeout 900 > $o/confirm_ctest.txt 2>&1
failed=$(grep -E "^\s*[0-9]+ - .*\((Failed|Timeout|SEGFAULT|Exception|Child aborted)" $o/confirm_ctest.txt | grep -v grid_fault_edge_limits | wc -l)
( cd $o && bash demo.sh $wt/_build > $o/confirm_with.txt 2>&1 ); rc1=$?
git checkout -q -- .
echo "$m: demo_without_rc=$rc0 demo_with_rc=$rc1 other_failed_tests=$failed $(grep 'tests passed' $o/confirm_ctest.txt)"
