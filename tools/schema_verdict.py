#!/usr/bin/env python3
"""schema_verdict.py <in.jsonl> <out.txt>: for every line (a JSON string holding a candidate document) print
V (valid against the published schema), I (invalid), or U (not parseable by Python's json / not judged)."""
import json, sys, multiprocessing, re
import jsonschema

SCHEMA = json.load(open('/verif/oracles/published_schema.json'))
CLS = jsonschema.validators.validator_for(SCHEMA)

def strip_comments(t):
    # the world builder accepts // and /* */ comments; remove them outside strings
    out = []; i = 0; n = len(t); ins = False
    while i < n:
        c = t[i]
        if ins:
            out.append(c)
            if c == '\\' and i + 1 < n: out.append(t[i+1]); i += 1
            elif c == '"': ins = False
        elif c == '"': ins = True; out.append(c)
        elif c == '/' and i + 1 < n and t[i+1] == '/':
            while i < n and t[i] != '\n': i += 1
            continue
        elif c == '/' and i + 1 < n and t[i+1] == '*':
            j = t.find('*/', i + 2)
            if j < 0: return None
            i = j + 2; continue
        else: out.append(c)
        i += 1
    return ''.join(out)

def verdict(line):
    try:
        text = json.loads(line)
        t = strip_comments(text)
        if t is None: return 'U'
        doc = json.loads(t)
    except Exception:
        return 'U'
    try:
        v = CLS(SCHEMA)
        return 'V' if v.is_valid(doc) else 'I'
    except Exception:
        return 'U'

if __name__ == '__main__':
    lines = open(sys.argv[1]).read().splitlines()
    with multiprocessing.Pool(16) as p:
        res = p.map(verdict, lines, chunksize=32)
    open(sys.argv[2], 'w').write(''.join(res))
