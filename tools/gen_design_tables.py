#!/usr/bin/env python3
"""Regenerates the generated appendices of DESIGN.md (fixes, known findings, seeded changes) from
known_findings.json, /repo's git log and seeded/*/meta.json (+ build/seed_matrix.txt when present)."""
import json, os, re, subprocess, glob
V = '/verif'
kf = json.load(open(f'{V}/known_findings.json'))['findings']
log = subprocess.run(['git', '-C', '/repo', 'log', '--format=%h %s'], capture_output=True, text=True).stdout.splitlines()
fixes = [l for l in log if re.match(r'^[0-9a-f]+ fix:', l)]
out = []
out.append('## Appendix A - repairs committed to /repo (`fix:` commits)\n')
out.append('| commit | subject | found by (property / signature) |\n|---|---|---|')
for l in reversed(fixes):
    h, subj = l.split(' ', 1)
    who = sorted(set(f"{f['property']}: `{f['match']}`" for f in kf if f['status'] == 'fixed' and f.get('commit', '')[:7] == h[:7]))
    out.append(f"| {h} | {subj[5:]} | {'; '.join(who) if who else '(see commit message)'} |")
out.append('\n## Appendix B - known findings (genuine defects that are recorded, not repaired)\n')
out.append('| property | signature pattern | what fails, and why it is not repaired |\n|---|---|---|')
for f in kf:
    if f['status'] == 'known':
        out.append(f"| {f['property']} | `{f['match']}` | {f['what']} |")
out.append('\n## Appendix C - seeded changes and which check catches them\n')
matrix = {}
mp = f'{V}/build/seed_matrix.txt'
if os.path.exists(mp):
    for l in open(mp):
        p = l.split(' ', 1)
        if len(p) == 2: matrix[p[0]] = p[1].strip()
out.append('| seed | breaks | needs, in order to manifest | result of the property\'s quick check with the change applied |\n|---|---|---|---|')
for d in sorted(glob.glob(f'{V}/seeded/*/')):
    sid = os.path.basename(d.rstrip('/'))
    try: m = json.load(open(d + 'meta.json'))
    except Exception: continue
    needs = re.sub(r'\s+', ' ', m.get('needs_to_manifest', ''))[:260].replace('|', '/')
    res = m.get('detected', '?')
    if m.get('caught_by') and m.get('caught_by') != m.get('breaks_property'): res += f" (by {m['caught_by']})"
    elif m.get('caught_by'): res += f" ({m['caught_by']})"
    sig = ''
    mm = re.search(r'signature=(\S+)', m.get('check_output', ''))
    if mm: sig = mm.group(1)[:110]
    out.append(f"| {sid} | {m.get('breaks_property')} | {needs} | {res}{(' - `' + sig + '`') if sig else ''} |")
txt = '\n'.join(out) + '\n'
p = f'{V}/DESIGN.md'
s = open(p).read()
a, b = '<!-- BEGIN GENERATED APPENDICES -->', '<!-- END GENERATED APPENDICES -->'
if a in s:
    s = s[:s.index(a) + len(a)] + '\n' + txt + s[s.index(b):]
else:
    s += f'\n{a}\n{txt}{b}\n'
open(p, 'w').write(s)
print('appendices written:', len(fixes), 'fixes,', sum(1 for f in kf if f['status'] == 'known'), 'known findings')
