#!/usr/bin/env python3
"""seed_keep.py <src out/mN dir> <seed id> <property> <status: caught|missed> <check result line> -- <needs...>
Copies patch.diff, demo files and notes into /verif/seeded/<seed id>/ and writes meta.json."""
import json, os, shutil, sys
src, sid, prop, status, result = sys.argv[1:6]
needs = ' '.join(sys.argv[7:]) if len(sys.argv) > 6 else ''
dst = f'/verif/seeded/{sid}'
os.makedirs(dst, exist_ok=True)
for f in os.listdir(src):
    if f.endswith(('.diff', '.cc', '.sh', '.md', '.wb', '.grid', '.dat', '.py', '.c')) and os.path.getsize(os.path.join(src, f)) < 300000:
        shutil.copy(os.path.join(src, f), dst)
conf = {}
for name in ('confirm_ctest.txt',):
    p = os.path.join(src, name)
    if os.path.exists(p):
        t = open(p).read()
        conf['ctest_summary'] = [l for l in t.splitlines() if 'tests passed' in l or 'Failed' in l][:5]
meta = {
    'seed_id': sid, 'breaks_property': prop,
    'needs_to_manifest': needs,
    'confirmed_by_me': 'tools/seed_confirm.sh in the scratch worktree: clean build, demo exits 0; change applied, rebuild, full ctest (only grid_fault_edge_limits fails, as on the unchanged tree), demo exits non-zero; worktree restored',
    'confirmation': conf,
    'ran_against_checks': f'tools/seed_try.sh {sid}/patch.diff {prop} (git -C /repo apply; ./check {prop} --tier quick; git -C /repo checkout -- .)',
    'detected': status, 'check_output': result,
}
json.dump(meta, open(f'{dst}/meta.json', 'w'), indent=1)
print('kept', dst)
