#!/bin/bash
# Builds /repo/_build (guard GWB_VERIF off: the repository's own build never defines it) and runs the
# pinned ctest command; compares the set of passing tests with /root/.vp/BASELINE.json stable_pass.
set -uo pipefail
REPO=${VERIF_REPO:-/repo}
B=$REPO/_build
if [ ! -f $B/build.ninja ]; then
  cmake -G Ninja -S $REPO -B $B -DCMAKE_BUILD_TYPE=RelWithDebInfo > /dev/null || exit 2
fi
cmake --build $B -j16 > $B/verif_build.log 2>&1 || { tail -30 $B/verif_build.log; echo "baseline build failed"; exit 2; }
junit=$B/verif_junit.xml
rm -f $junit
ctest --test-dir $B -j8 --timeout 900 --output-junit $junit > $B/verif_ctest.log 2>&1
python3 - "$junit" <<'EOF'
import json, sys, xml.etree.ElementTree as ET
base = json.load(open('/root/.vp/BASELINE.json'))
want = set(n.split('::')[0] for n in base['stable_pass'])
root = ET.parse(sys.argv[1]).getroot()
passed = set()
for tc in root.iter('testcase'):
    ok = tc.find('failure') is None and tc.find('error') is None and tc.get('status', 'run') in ('run', 'passed')
    if ok: passed.add(tc.get('name'))
missing = sorted(want - passed)
print(f"baseline: {len(want & passed)}/{len(want)} stable tests pass with the guard off")
if missing:
    print("FAILING:", *missing)
    sys.exit(1)
EOF
