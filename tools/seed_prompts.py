#!/usr/bin/env python3
"""seed_prompts.py <round dir> <changes per agent>: writes <round dir>/<id>/prompt.md for every property and creates the scratch
worktree <round dir>/<id>/wt of /repo. The prompt holds the property text, build instructions and the titles of the changes
earlier rounds produced for the property (so that a new round goes elsewhere) - nothing else from /verif."""
import json, os, re, glob, subprocess, sys
root, n = sys.argv[1], int(sys.argv[2])
props = {json.loads(l)['id']: json.loads(l) for l in open('/verif/properties.jsonl')}
for pid, p in props.items():
    d = f'{root}/{pid}'
    os.makedirs(d + '/out', exist_ok=True)
    if not os.path.exists(d + '/wt'):
        subprocess.run(['git', '-C', '/repo', 'worktree', 'add', '--detach', d + '/wt', 'HEAD'], check=True, capture_output=True)
    earlier = []
    for sd in sorted(glob.glob(f'/verif/seeded/{pid}-*')):
        notes = os.path.join(sd, 'notes.md')
        title = ''
        if os.path.exists(notes):
            for line in open(notes):
                line = line.strip()
                if line:
                    title = re.sub(r'^#+\s*', '', line); break
        if not title:
            m = json.load(open(sd + '/meta.json')); title = m.get('needs_to_manifest', '')[:120]
        earlier.append(f" - {os.path.basename(sd)}: {title[:200]}")
    anchors = ', '.join(p['anchors']['files'])
    txt = f'''You are helping to evaluate a verification effort for the C++ library "Geodynamic World Builder" (GWB). Your job is to play the role of a developer who accidentally introduces a subtle regression.

You have your own scratch git worktree of the repository at: {d}/wt   (work ONLY inside {d}; never touch /repo or /verif, never read anything under /verif).

Here is a semantic property that the library is supposed to satisfy:

---
Property {pid}: {p['title']}

Statement: {p['statement']}

Quantified over: {p['quantifier']['text']}

Code it is anchored in: {anchors}

---

TASK: produce {n} different, independent, realistic source changes to the library/tools (each one a small patch to files under source/ or include/ of the worktree) such that each change:
 1. BREAKS the property above (for some inputs / schedules / histories),
 2. still COMPILES, and
 3. still PASSES the repository's existing test suite (all tests that pass without the change), and
 4. needs something SPECIFIC to manifest: a particular interleaving, a multi-step sequence of operations, an unusual-but-valid input, a particular parameter combination, or two cooperating sites that each look fine alone. NOT something ordinary use would expose at once, and NOT something the existing tests catch. Think of the kind of bug a plausible refactoring, "optimisation", caching attempt, off-by-one, wrong index, swapped argument, sign slip, unit mix-up or boundary condition change would introduce.
 Make the changes different in kind from one another (different code sites / mechanisms). Prefer code sites and input classes that the earlier changes listed below did NOT touch (other feature types, other models, other options of the tools, other entry points, the other coordinate system, other parameter ranges).

HOW TO BUILD AND TEST (no network is available; everything needed is installed):
   cd {d}/wt && cmake -G Ninja -B _build -DCMAKE_BUILD_TYPE=RelWithDebInfo -DCMAKE_CXX_COMPILER_LAUNCHER=ccache > /dev/null && cmake --build _build -j3
   ctest --test-dir _build -j3 --timeout 900        # one test (grid_fault_edge_limits) fails even on the unchanged tree; that is expected. All others must pass.
 The library is _build/lib/libWorldBuilder.a (link with -Wl,--whole-archive ... -Wl,--no-whole-archive, include dirs include/ and _build/include/, flags -std=c++14 -lz -lpthread); the tools are _build/bin/gwb-dat and _build/bin/gwb-grid. Example world files: tests/gwb-dat/*.wb, tests/gwb-grid/*.wb+.grid, cookbooks/. The public API is in include/world_builder/world.h (World::properties, temperature, composition, grains, ...), wrapper_c.h, wrapper_cpp.h.

FOR EACH change i = 1..{n} deliver, in directory {d}/out/m<i>/ :
   - patch.diff : `git diff` of the worktree for that change alone (apply each change on a clean tree: `git -C {d}/wt checkout -- .` between changes)
   - a demonstration: a small standalone C++ program (demo.cc + the exact build/run command in demo.sh, taking the build dir as $1) or a shell script using the tools, that exits 0 on the unchanged tree and exits non-zero (prints what differs) with the change applied. Run it both ways yourself and confirm.
   - notes.md : first line a one-sentence title of the change; then which file/function you changed, why it breaks the property, what specific circumstance is needed for it to manifest, and the output of ctest with the change (pass/fail counts) and of the demo with/without the change.
 Confirm for every change that the full ctest run still passes (apart from grid_fault_edge_limits). If a candidate change makes a test fail, discard it and find another.
 At the end leave the worktree clean (`git -C {d}/wt checkout -- .`). Reply with a short summary listing the changes (one paragraph each) and the paths of the deliverables.

IMPORTANT - earlier rounds already produced the following changes for this property; do NOT repeat them or close variants of them (different file / mechanism / trigger wanted):
''' + '\n'.join(earlier) + '''

Use -j3 for builds and `ctest -j3`; other agents share the machine. A ccache is available (the cmake line above enables it).
'''
    open(d + '/prompt.md', 'w').write(txt)
print('prompts written under', root)
