// VARIANTS: rel
// C04 - area features and plumes occupy exactly their declared footprint and depth range.
#include "kit.h"
#include "wbgen.h"
#include <functional>
#include <algorithm>
#include "georef.h"
using namespace kit;
using namespace wbgen;
using georef::IP;

namespace
{
  const char *TYPE[3] = {"continental plate", "oceanic plate", "mantle layer"};
  const Request REQ = {{{4,0,0}},{{2,0,0}}};

  const std::vector<std::vector<IP>> &polys(int L, size_t nmax)
  {
    static std::map<std::pair<int,size_t>, std::vector<std::vector<IP>>> cache;
    auto k = std::make_pair(L, nmax);
    auto it = cache.find(k);
    if (it == cache.end()) it = cache.emplace(k, georef::lattice_polygons(L, 3, nmax, true)).first;
    return it->second;
  }

  struct Window { const char *name; bool has; double lo, hi; };
  const Window WIN[3] = {{"default", false, 0, 0}, {"[1e5,3e5]", true, 1e5, 3e5}, {"[2e5,2e5]", true, 2e5, 2e5}};

  std::string area_feature(int type, const std::vector<IP> &poly, double unit, double x0, double y0, const Window &win)
  {
    std::vector<P2> c;
    for (auto &p : poly) c.push_back({{x0 + unit*static_cast<double>(p[0]), y0 + unit*static_cast<double>(p[1])}});
    std::string f = "{\"model\":\"" + std::string(TYPE[type]) + "\",\"name\":\"A\",\"coordinates\":" + pts(c);
    if (win.has) f += ",\"min depth\":" + num(win.lo) + ",\"max depth\":" + num(win.hi);
    return f + ",\"composition models\":[{\"model\":\"uniform\",\"compositions\":[0],\"fractions\":[0.625]}]}";
  }
  std::string polystr(const std::vector<IP> &p)
  {
    std::string s = "[";
    for (size_t i = 0; i < p.size(); ++i) s += (i ? "," : "") + std::string("[") + std::to_string(p[i][0]) + "," + std::to_string(p[i][1]) + "]";
    return s + "]";
  }

  // variant: 0 default, 1/2 windows, 3/4 scales
  void run_area(bool sph, int L, size_t nmax, uint64_t idx, Ctx &ctx)
  {
    static const int c_in = Ctx::counter_id("points_inside"), c_out = Ctx::counter_id("points_outside"), c_bnd = Ctx::counter_id("points_on_boundary"), c_skipb = Ctx::counter_id("skipped_spherical_boundary_points");
    const auto &P = polys(L, nmax);
    const uint64_t np = P.size();
    const std::vector<IP> &poly = P[idx % np];
    uint64_t r = idx / np;
    const int type = static_cast<int>(r % 3); r /= 3;
    const int variant = static_cast<int>(r % 5);
    const Window &win = WIN[sph ? 0 : (variant == 1 ? 1 : variant == 2 ? 2 : 0)];
    double unit = sph ? 10.0 : (variant == 3 ? 1024.0 : variant == 4 ? 1.0 : 1e5);
    // spherical: variant = longitude offset
    const double LONOFF[5] = {0, 170, -190, 340, -360};
    const double x0 = sph ? LONOFF[variant] : 0.0, y0 = sph ? -10.0 : 0.0;
    const std::string text = world(coord(sph), {area_feature(type, poly, unit, x0, y0, win)});
    auto w = make_world(text);
    // depths
    std::vector<std::pair<double,bool>> depths;   // depth, inside window
    if (!win.has)
      {
        depths = {{std::nextafter(0.0, -1.0), false}, {0.0, true}, {1e5, true}};
        depths.push_back(sph ? std::make_pair(3e6, true) : std::make_pair(1e300, true));
        depths.push_back({-5.0, false});
      }
    else
      {
        depths = {{std::nextafter(win.lo, 0.0), false}, {win.lo, true}, {0.5*(win.lo+win.hi), true}, {win.hi, true}, {std::nextafter(win.hi, 1e308), false}};
      }
    // points: cartesian half-step lattice (scale 2), spherical quarter-offset lattice (scale 4, odd numerators => never on a lattice line)
    const int64_t S = sph ? 4 : 2;
    std::vector<IP> spoly;
    for (auto &p : poly) spoly.push_back({{p[0]*S, p[1]*S}});
    bool any_in = false, any_out = false;
    for (int64_t ix = -S/2 - (sph ? 1 : 0); ix <= (L-1)*S + S/2 + (sph ? 1 : 0); ++ix)
      for (int64_t iy = -S/2 - (sph ? 1 : 0); iy <= (L-1)*S + S/2 + (sph ? 1 : 0); ++iy)
        {
          if (sph && (ix % 2 == 0 || iy % 2 == 0)) continue;   // odd quarter steps only
          const bool inpoly = georef::in_closed_polygon(spoly, {{ix, iy}});
          bool boundary = false;
          for (size_t i = 0; i < spoly.size(); ++i) if (georef::on_segment(spoly[i], spoly[(i+1)%spoly.size()], {{ix, iy}})) boundary = true;
          const double x = x0 + unit*static_cast<double>(ix)/static_cast<double>(S), y = y0 + unit*static_cast<double>(iy)/static_cast<double>(S);
          // spherical: the degree->radian scaling makes points on (diagonal) edges inexact; they are not compared, only counted
          if (sph && boundary) { ctx.count(c_skipb); continue; }
          for (auto &dw : depths)
            {
              const P3 q = query_point(sph, x, y, dw.first);
              const std::vector<double> out = w->properties(q, dw.first, REQ);
              ctx.eval();
              const bool expect = inpoly && dw.second;
              const bool got = out[0] != -1;
              const bool got_comp = out[1] == 0.625;
              if (expect) { any_in = true; ctx.count(c_in); } else { any_out = true; ctx.count(c_out); }
              if (boundary) ctx.count(c_bnd);
              if (got != expect || got_comp != expect)
                ctx.violation(std::string("C04/area/") + (sph ? "spherical/" : "cartesian/") + (expect ? "missing-" : "spurious-") +
                              (inpoly != (got) && dw.second ? (boundary ? "boundary-point" : "footprint-point") : "depth-range"),
                              JObj().str("feature", TYPE[type]).raw("polygon_lattice", polystr(poly)).num("unit", unit).num("x0", x0).str("window", win.name)
                              .raw("point_natural", jarr(std::vector<double>{x, y})).num("depth", dw.first).boolean("expected_inside", expect)
                              .boolean("on_polygon_boundary", boundary).raw("observed_tag_and_composition", jarr(out)).str("world", text).done());
            }
        }
    if (any_in && any_out) ctx.nontrivial();
    if (idx % 1201 == 3) ctx.sample(JObj().str("feature", TYPE[type]).raw("polygon_lattice", polystr(poly)).num("unit", unit).num("x0", x0).str("window", win.name).boolean("spherical", sph).done());
  }

  // ---------------- plume ----------------
  const std::vector<uint64_t> PLUME_RADIX = {3, 3, 4, 8, 3, 5, 3, 2, 4};
  struct Plume
  {
    bool sph;
    std::vector<double> depths, a, e, rot;
    std::vector<P2> c;
    double min_depth, max_depth; bool has_max;
    double lon_off = 0;   // spherical: added to every centre longitude of the file (200: written beyond +180; 179.5: the plume straddles the date line; -190: written below -180)
  };
  Plume make_plume(const std::vector<unsigned> &d)
  {
    Plume p;
    p.sph = d[7] == 1 || d[8] != 0;   // a longitude offset implies a spherical world (so that offset + moving centres is two deviations, not three)
    p.depths = {1e5, 3e5};
    const P2 C[3][2] = {{{{0,0}},{{0,0}}}, {{{0,0}},{{1,0}}}, {{{0,0}},{{1,1}}}};
    p.c = {C[d[0]][0], C[d[0]][1]};
    const double A[3][2] = {{1,1},{1,2},{2,1}};
    p.a = {A[d[1]][0], A[d[1]][1]};
    const double E[4][2] = {{0,0},{0.6,0.6},{0,0.8},{0.8,0.6}};
    p.e = {E[d[2]][0], E[d[2]][1]};
    const double Rr[8][2] = {{0,0},{45,45},{0,90},{350,10},{10,350},{30,80},{10,130},{170,40}};   // (the last two: more than a quarter turn between two sections)
    p.rot = {Rr[d[3]][0], Rr[d[3]][1]};
    if (d[4] == 1) { p.depths.resize(1); p.c.resize(1); p.a.resize(1); p.e.resize(1); p.rot.resize(1); }
    if (d[4] == 2)
      {
        p.depths.push_back(5e5);
        p.c.push_back({{p.c.back()[0]-1, p.c.back()[1]}});
        p.a.push_back(1.5); p.e.push_back(0.3); p.rot.push_back(p.rot.back()+20);
      }
    // 1.5e5 and 2.2e5: the plume starts below its first cross section (truncated at the top, no head)
    p.min_depth = d[5] == 0 ? 0 : d[5] == 1 ? 5e4 : d[5] == 2 ? 1e5 : d[5] == 3 ? 1.5e5 : 2.2e5;
    p.lon_off = d[8] == 0 ? 0 : d[8] == 1 ? 200 : d[8] == 2 ? 179.5 : -190;
    p.has_max = d[6] != 0;
    p.max_depth = d[6] == 1 ? 4e5 : 2.5e5;
    return p;
  }
  std::string plume_feature(const Plume &p)
  {
    const double s = p.sph ? 1.0 : 1e5;
    std::vector<P2> c; std::vector<double> a;
    for (auto &q : p.c) c.push_back({{q[0]*s + (p.sph ? p.lon_off : 0.0), q[1]*s}});
    for (double v : p.a) a.push_back(v*s);
    std::string f = "{\"model\":\"plume\",\"name\":\"P\",\"coordinates\":" + pts(c) + ",\"cross section depths\":" + nums(p.depths) + ",\"semi-major axis\":" + nums(a) +
                    ",\"eccentricity\":" + nums(p.e) + ",\"rotation angles\":" + nums(p.rot) + ",\"min depth\":" + num(p.min_depth);
    if (p.has_max) f += ",\"max depth\":" + num(p.max_depth);
    return f + ",\"composition models\":[{\"model\":\"uniform\",\"compositions\":[0],\"fractions\":[0.625]}]}";
  }
  // reference: value of the (ellipse | ellipsoid) form at the point, in lattice units; <= 1 means inside
  long double plume_form(const Plume &p, long double x, long double y, long double depth)
  {
    const long double PIl = 3.141592653589793238462643383279502884L;
    long double cx, cy, a, e, ang;
    const size_t n = p.depths.size();
    bool head = false;
    if (depth < p.depths[0]) { cx = p.c[0][0]; cy = p.c[0][1]; a = p.a[0]; e = p.e[0]; ang = p.rot[0]; head = true; }
    else if (depth >= p.depths[n-1]) { cx = p.c[n-1][0]; cy = p.c[n-1][1]; a = p.a[n-1]; e = p.e[n-1]; ang = p.rot[n-1]; }
    else
      {
        size_t i = 0;
        while (!(p.depths[i] <= depth && depth < p.depths[i+1])) ++i;
        const long double f = (depth - p.depths[i]) / (static_cast<long double>(p.depths[i+1]) - p.depths[i]);
        cx = (1-f)*p.c[i][0] + f*p.c[i+1][0];
        cy = (1-f)*p.c[i][1] + f*p.c[i+1][1];
        a = (1-f)*p.a[i] + f*p.a[i+1];
        e = (1-f)*p.e[i] + f*p.e[i+1];
        long double r1 = p.rot[i], r2 = p.rot[i+1];
        // shortest arc on the circle of directions
        while (r2 - r1 > 180) r2 -= 360;
        while (r2 - r1 < -180) r2 += 360;
        ang = (1-f)*r1 + f*r2;
      }
    // direction of the major axis: 'ang' degrees clockwise from north (+y)
    const long double th = ang * PIl / 180;
    const long double ux = sinl(th), uy = cosl(th);
    const long double dx = x - cx, dy = y - cy;
    const long double along = dx*ux + dy*uy, across = -dx*uy + dy*ux;
    const long double b = a * sqrtl(1 - e*e);
    long double v = along*along/(a*a) + across*across/(b*b);
    if (head)
      {
        const long double c = p.depths[0] - p.min_depth, z = p.depths[0] - depth;
        v += z*z/(c*c);
      }
    return v;
  }

  void run_plume(const std::shared_ptr<std::vector<std::vector<unsigned>>> &devs, uint64_t idx, Ctx &ctx)
  {
    static const int c_in = Ctx::counter_id("points_inside"), c_out = Ctx::counter_id("points_outside"), c_skip = Ctx::counter_id("skipped_near_boundary");
    const Plume p = make_plume((*devs)[idx]);
    if (!p.sph && p.lon_off != 0) return;     // longitude offsets only exist in spherical worlds
    const std::string text = world(coord(p.sph), {plume_feature(p)});
    auto w = make_world(text);
    const double s = p.sph ? 1.0 : 1e5;
    bool any_in = false, any_out = false;
    for (int ix = -12; ix <= 12; ++ix) for (int iy = -12; iy <= 12; ++iy)
        for (double depth : {0.0, 2.5e4, 5e4, 6e4, 7.5e4, 9.9e4, 1e5, 1.3e5, 1.5e5, 2e5, 2.3e5, 2.5e5, 3e5, 3.6e5, 4e5, 4.5e5, 5e5, 6e5})
          {
            const double x = 0.25*ix, y = 0.25*iy;
            const long double v = plume_form(p, x, y, depth);
            const bool in_depth = depth >= p.min_depth && (!p.has_max || depth <= p.max_depth);
            if (in_depth && fabsl(v - 1) < 1e-9L) { ctx.count(c_skip); continue; }
            const bool expect = in_depth && v <= 1;
            // the query longitude is brought back into (-180,180], as an application would pass it
            double qlon = x*s + (p.sph ? p.lon_off : 0.0);
            if (p.sph) { while (qlon > 180) qlon -= 360; while (qlon <= -180) qlon += 360; }
            const P3 q = query_point(p.sph, qlon, y*s, depth);
            const std::vector<double> out = w->properties(q, depth, REQ);
            ctx.eval();
            if (expect) { any_in = true; ctx.count(c_in); } else { any_out = true; ctx.count(c_out); }
            const bool got = out[0] != -1;
            if (got != expect || (out[1] == 0.625) != expect)
              {
                const char *region = depth < p.depths[0] ? "head" : depth >= p.depths.back() ? "below-deepest-section" : "between-sections";
                ctx.violation(std::string("C04/plume/") + (p.sph ? "spherical/" : "cartesian/") + (expect ? "missing/" : "spurious/") + (in_depth ? region : "depth-range"),
                              JObj().raw("deviation_tuple", jarr((*devs)[idx])).raw("point_lattice_units", jarr(std::vector<double>{x, y})).num("depth", depth)
                              .num("reference_form_value", static_cast<double>(v)).boolean("expected_inside", expect).raw("observed_tag_and_composition", jarr(out)).str("world", text).done());
              }
          }
    if (any_in && any_out) ctx.nontrivial();
    if (idx % 37 == 5) ctx.sample(JObj().raw("deviation_tuple", jarr((*devs)[idx])).str("feature", plume_feature(p)).done());
  }
}

int main(int argc, char **argv)
{
  Spec spec;
  spec.property = "C04";
  spec.level = "exploration";
  spec.rule = "area suites: every simple lattice polygon (3..n vertices on an LxL integer lattice, both orientations, first vertex lexicographically smallest) x 3 area feature types x "
              "{default window, [1e5,3e5], [2e5,2e5], two other scales} (cartesian) or 5 longitude offsets incl. +-180 straddling and +-360 (spherical); membership from an exact integer "
              "crossing-number oracle x closed depth interval with nextafter neighbours; plume suite: all cross-section tables within k deviations of a default table, membership from an "
              "independent long-double implementation of the statement. non-trivial: the world has both inside and outside query points; tuples distinct by construction";
  spec.assumptions = {"spherical footprint points are taken on odd quarter steps so that no query point lies on a polygon edge (pi/180 scaling makes boundary points inexact, as the property allows)",
                      "plume points whose reference form value is within 1e-9 of 1 are skipped and counted (skipped_near_boundary)"
                     };
  spec.counters = {"points_inside", "points_outside", "points_on_boundary", "skipped_near_boundary", "skipped_spherical_boundary_points"};
  spec.quick_deadline_s = 300; spec.thorough_deadline_s = 1500;
  return driver(argc, argv, spec, [](const std::string &tier)
  {
    const bool th = tier == "thorough";
    std::vector<Suite> s;
    {
      const int L = th ? 4 : 3; const size_t nmax = th ? 5 : 4;
      Suite a; a.name = "area_cartesian"; a.n = polys(L, nmax).size() * 3 * 5;
      a.run = [L, nmax](uint64_t i, Ctx &c) { run_area(false, L, nmax, i, c); };
      a.bound = "all " + std::to_string(polys(L, nmax).size()) + " simple polygons with 3.." + std::to_string(nmax) + " vertices on the " + std::to_string(L) + "x" + std::to_string(L) +
                " lattice x 3 feature types x 5 variants; half-step query lattice incl. all boundary and vertex points x 5 depths";
      s.push_back(a);
    }
    {
      const int L = 3; const size_t nmax = th ? 4 : 3;
      Suite a; a.name = "area_spherical"; a.n = polys(L, nmax).size() * 3 * 5;
      a.run = [L, nmax](uint64_t i, Ctx &c) { run_area(true, L, nmax, i, c); };
      a.bound = "all " + std::to_string(polys(L, nmax).size()) + " simple polygons with 3.." + std::to_string(nmax) + " vertices on the 3x3 lattice (10 degree unit) x 3 feature types x longitude offsets {0,170,-190,340,-360}";
      s.push_back(a);
    }
    {
      const unsigned k = th ? 3 : 2;
      auto devs = std::make_shared<std::vector<std::vector<unsigned>>>(deviations(PLUME_RADIX, k));
      Suite a; a.name = "plume"; a.n = devs->size();
      a.run = [devs](uint64_t i, Ctx &c) { run_plume(devs, i, c); };
      a.bound = "plume tables within " + std::to_string(k) + " deviations of the default over radices (centres 3, semi-major 3, eccentricity 4, rotation 6, sections 3, min depth 5 (two of them below the first cross section), max depth 3, coordinate system 2, longitude offset of the centres 4 {0, 200, 179.5, -190}); 25x25x15 point lattice (quarter steps)";
      s.push_back(a);
    }
    return s;
  });
}
