// VARIANTS: rel
// C11 - depth surfaces given at points are honoured, affine-exact and bounded.
#include "kit.h"
#include "wbgen.h"
#include "georef.h"
#include "world_builder/objects/surface.h"
#include "world_builder/consts.h"
using namespace kit;
using namespace wbgen;
using WorldBuilder::World;

namespace
{
  typedef std::array<int,2> LP;   // lattice point (lattice unit: 1e5 m cartesian, 1 degree spherical)
  const std::vector<std::vector<LP>> POLYGONS =
  {
    {{{0,0}},{{2,0}},{{2,2}},{{0,2}}},                         // square with a corner in the origin
    {{{-1,0}},{{2,0}},{{2,2}},{{-1,2}}},                       // rectangle with two corners that have a zero coordinate
    {{{1,1}},{{4,1}},{{4,2}},{{2,2}},{{2,4}},{{1,4}}},         // concave L, no zero coordinate
    {{{1,1}},{{3,1}},{{3,3}},{{1,3}}},                         // square away from the axes (cocircular corners, no zero coordinate)
    {{{10,10}},{{30,10}},{{30,30}},{{10,30}}},                 // large plate: value points close to its corners give long thin triangles
  };
  const char *POLY_NAMES[] = {"square with a corner at (0,0)", "rectangle with an edge on y=0", "concave L", "square away from the axes", "large plate 20 x 20 units"};
  const std::vector<double> VALUES = {1e5, 1.5e5, 2.2e5};
  const char *FEATURES[] = {"continental plate", "oceanic plate", "mantle layer"};

  bool inside_closed(const std::vector<LP> &poly, int x2, int y2)   // doubled coordinates
  {
    std::vector<georef::IP> p;
    for (auto &q : poly) p.push_back({{2*q[0], 2*q[1]}});
    return georef::in_closed_polygon(p, {{x2, y2}});
  }
  // candidate value points: all integer lattice points inside or on the polygon (corners included)
  std::vector<LP> candidates(const std::vector<LP> &poly)
  {
    std::vector<LP> c;
    if (poly[0][0] == 10) return {{{12,11}},{{29,12}},{{28,28}},{{11,29}},{{20,20}},{{13,27}},{{27,13}},{{20,11}},{{19,29}},{{11,20}}};
    for (int x = -2; x <= 5; ++x) for (int y = -1; y <= 5; ++y) if (inside_closed(poly, 2*x, 2*y)) c.push_back({{x, y}});
    return c;
  }
  bool is_corner(const std::vector<LP> &poly, const LP &p) { return std::find(poly.begin(), poly.end(), p) != poly.end(); }

  struct Case
  {
    unsigned poly = 0, feature = 0;
    bool spherical = false, is_max = true;
    int default_mode = 0;                 // 0: corners get the explicit value [1.2e5]; 1: no value without points (schema default; min depth only)
    std::vector<LP> pts;                  // additional value points
    std::vector<double> vals;             // their values
    bool affine = false; double a = 0, b = 0, c = 0;   // values are a + b x + c y at corners and additional points alike
    bool one_item_per_value = false;      // group points of equal value into one item instead of one item per point
    bool default_last = false;            // the value without points is the last item instead of the first
    double lon_shift = 0;                 // spherical: added to every longitude of the file (179: polygon across the date line, 355: longitudes up to 359)
    double scale = 1;                     // multiplies the lattice unit (0.025: a 2-unit square is 0.05 degrees / 5 km wide)
    double x0 = 0, y0 = 0;                // origin of the lattice in file units (scaled families sit away from the axes)
  };
  const double CORNER_DEFAULT = 1.2e5;

  std::string describe(const Case &k)
  {
    std::string p = "[";
    for (size_t i = 0; i < k.pts.size(); ++i) p += (i ? "," : "") + std::string("[") + std::to_string(k.pts[i][0]) + "," + std::to_string(k.pts[i][1]) + "," + num(k.vals[i]) + "]";
    return JObj().str("polygon", POLY_NAMES[k.poly]).str("feature", FEATURES[k.feature]).boolean("spherical", k.spherical).str("surface", k.is_max ? "max depth" : "min depth")
           .str("corner_default", k.default_mode == 0 ? "explicit value without points" : "schema default").raw("value_points_x_y_value", p + "]").boolean("affine", k.affine).boolean("value_without_points_listed_last", k.default_last).num("longitude_shift", k.lon_shift).num("lattice_scale", k.scale).num("origin_x", k.x0).num("origin_y", k.y0).done();
  }

  double unit(bool sph) { return sph ? 1.0 : 1e5; }
  // file coordinates of the lattice position (qx, qy)
  double fx(const Case &k, double qx) { return k.x0 + qx * unit(k.spherical) * k.scale + k.lon_shift; }
  double fy(const Case &k, double qy) { return k.y0 + qy * unit(k.spherical) * k.scale; }

  std::string depth_json(const Case &k, const std::vector<LP> &poly)
  {
    std::vector<std::string> items;
    if (k.affine)
      {
        // every node listed explicitly: corners first, then the additional points
        for (auto &q : poly) items.push_back("[" + num(k.a + k.b*q[0] + k.c*q[1]) + ",[" + pt({fx(k, q[0]), fy(k, q[1])}) + "]]");
        for (auto &q : k.pts) items.push_back("[" + num(k.a + k.b*q[0] + k.c*q[1]) + ",[" + pt({fx(k, q[0]), fy(k, q[1])}) + "]]");
      }
    else
      {
        if (k.default_mode == 0 && !k.default_last) items.push_back("[" + num(CORNER_DEFAULT) + "]");
        if (k.one_item_per_value)
          {
            for (double v : VALUES)
              {
                std::string l;
                for (size_t i = 0; i < k.pts.size(); ++i) if (k.vals[i] == v) l += (l.empty() ? "" : ",") + pt({fx(k, k.pts[i][0]), fy(k, k.pts[i][1])});
                if (!l.empty()) items.push_back("[" + num(v) + ",[" + l + "]]");
              }
          }
        else
          for (size_t i = 0; i < k.pts.size(); ++i) items.push_back("[" + num(k.vals[i]) + ",[" + pt({fx(k, k.pts[i][0]), fy(k, k.pts[i][1])}) + "]]");
        if (k.default_mode == 0 && k.default_last) items.push_back("[" + num(CORNER_DEFAULT) + "]");
      }
    return "[" + join(items) + "]";
  }

  std::string world_text(const Case &k)
  {
    const auto &poly = POLYGONS[k.poly];
    std::vector<P2> c;
    for (auto &q : poly) c.push_back({{fx(k, q[0]), fy(k, q[1])}});
    std::string f = std::string("{\"model\":\"") + FEATURES[k.feature] + "\",\"name\":\"A\",\"coordinates\":" + pts(c) + ",";
    f += k.is_max ? "\"min depth\":0,\"max depth\":" + depth_json(k, poly) : "\"min depth\":" + depth_json(k, poly) + ",\"max depth\":6e5";
    f += ",\"composition models\":[{\"model\":\"uniform\",\"compositions\":[0]}]}";
    return world(coord(k.spherical), {f});
  }

  // the nodes the documentation promises: corners at their default, overridden / extended by the listed points
  struct Node { LP p; double v; bool listed; };
  std::vector<Node> documented_nodes(const Case &k)
  {
    const auto &poly = POLYGONS[k.poly];
    std::vector<Node> n;
    const double corner_default = k.default_mode == 0 ? CORNER_DEFAULT : (k.is_max ? std::numeric_limits<double>::max() : 0.0);
    for (auto &q : poly) n.push_back({q, k.affine ? k.a + k.b*q[0] + k.c*q[1] : corner_default, k.affine});
    // additional points in the order in which the file lists them (the triangulation of cocircular / collinear nodes may depend on it)
    std::vector<size_t> order;
    if (k.one_item_per_value && !k.affine) { for (double val : VALUES) for (size_t i = 0; i < k.pts.size(); ++i) if (k.vals[i] == val) order.push_back(i); }
    else for (size_t i = 0; i < k.pts.size(); ++i) order.push_back(i);
    for (size_t i : order)
      {
        const double v = k.affine ? k.a + k.b*k.pts[i][0] + k.c*k.pts[i][1] : k.vals[i];
        bool found = false;
        for (auto &e : n) if (e.p == k.pts[i]) { e.v = v; e.listed = true; found = true; }
        if (!found) n.push_back({k.pts[i], v, true});
      }
    // a value without points sets every corner, also corners that an earlier item had set
    if (k.default_last && k.default_mode == 0 && !k.affine) for (size_t i = 0; i < poly.size(); ++i) { n[i].v = CORNER_DEFAULT; n[i].listed = false; }
    return n;
  }

  // local depth limit at a surface position, recovered from the public API by bisection on membership along the vertical
  bool local_depth(World &w, const Case &k, double x, double y, double &value, std::string &error)
  {
    auto inside = [&](double depth)
    {
      const P3 p = query_point(k.spherical, x, y, depth);
      return w.properties(p, depth, {{{4,0,0}}})[0] >= 0;
    };
    try
      {
        double lo, hi;   // max depth: inside at lo, outside at hi.  min depth: outside at lo, inside at hi
        if (k.is_max) { lo = 0; hi = 5.9e5; if (!inside(lo)) { error = "not inside the feature at depth 0"; return false; } if (inside(hi)) { value = std::numeric_limits<double>::infinity(); return true; } }
        else { lo = 0; hi = 5.9e5; if (!inside(hi)) { error = "not inside the feature just above its max depth"; return false; } if (inside(lo)) { value = 0; return true; } }
        for (int it = 0; it < 70 && hi - lo > 1e-7; ++it)
          {
            const double mid = 0.5 * (lo + hi);
            if (inside(mid) == k.is_max) lo = mid; else hi = mid;
          }
        value = k.is_max ? lo : hi;
        return true;
      }
    catch (const std::exception &e) { error = std::string("query throws: ") + std::string(e.what()).substr(0, 300); return false; }
  }

  void run_case(const Case &k, Ctx &ctx)
  {
    static const int c_probe = Ctx::counter_id("probes_bisected"), c_listed = Ctx::counter_id("listed_points_checked"), c_corner = Ctx::counter_id("unlisted_corners_checked"),
                     c_override = Ctx::counter_id("corner_overrides_checked"), c_affine = Ctx::counter_id("affine_probes_checked"), c_kernel = Ctx::counter_id("kernel_cross_checks");
    const auto &poly = POLYGONS[k.poly];
    const std::string text = world_text(k);
    // does the file list a value for a point that coincides with a polygon corner having a zero coordinate?
    bool zero_corner_listed = false;
    for (auto &q : poly) if ((fx(k, q[0]) == 0 || fy(k, q[1]) == 0) && (k.affine || std::find(k.pts.begin(), k.pts.end(), q) != k.pts.end())) zero_corner_listed = true;
    // spherical: two or more value points exactly on a diagonal through two polygon corners (collinear before, nearly collinear after the conversion to radians)
    bool diagonal_points = false;
    if (k.spherical)
      for (size_t a = 0; a < poly.size() && !diagonal_points; ++a) for (size_t b = a + 2; b < poly.size() && !diagonal_points; ++b)
          {
            if (a == 0 && b + 1 == poly.size()) continue;   // adjacent corners
            int on = 0;
            for (auto &q : k.pts) if (georef::cross({{poly[a][0], poly[a][1]}}, {{poly[b][0], poly[b][1]}}, {{q[0], q[1]}}) == 0 && !is_corner(poly, q)) ++on;
            if (on >= 2) diagonal_points = true;
          }
    auto fail = [&](const std::string &sig, const std::string &what, const std::string &extra = "{}")
    {
      ctx.violation("C11/" + sig + (zero_corner_listed ? "/value-listed-at-a-polygon-corner-with-a-zero-coordinate" : "") + (diagonal_points ? "/spherical-with-two-or-more-value-points-on-a-diagonal-through-two-corners" : ""), JObj().str("what", what).raw("case", describe(k)).raw("extra", extra).str("world", text).done());
    };
    std::unique_ptr<World> w;
    try { w = make_world(text); }
    catch (const std::exception &e) { fail("world-rejected", std::string("a valid depth surface was rejected: ") + std::string(e.what()).substr(0, 300)); return; }
    const std::vector<Node> nodes = documented_nodes(k);
    double vmin = std::numeric_limits<double>::infinity(), vmax = -vmin;
    for (auto &n : nodes) { vmin = std::min(vmin, n.v); vmax = std::max(vmax, n.v); }
    // the kernel, fed with the documented node list directly
    std::unique_ptr<WorldBuilder::Objects::Surface> surf;
    {
      std::pair<std::vector<double>,std::vector<double>> vp;
      const double dtr = k.spherical ? WorldBuilder::Consts::PI / 180.0 : 1.0;
      for (auto &n : nodes) { vp.first.push_back(n.v); vp.second.push_back(fx(k, n.p[0])*dtr); vp.second.push_back(fy(k, n.p[1])*dtr); }
      try { surf = std::make_unique<WorldBuilder::Objects::Surface>(vp); }
      catch (const std::exception &) { surf.reset(); }
    }
    const bool bounded_values = std::isfinite(vmax) && vmax < 1e300;
    // probes: every half-step lattice point inside or on the polygon
    const bool large = poly[0][0] == 10;
    // ... and next to each of them a point in general position (+0.137, +0.059 lattice units): on the half-step lattice a probe is a node, an edge
    // midpoint or a centroid-like point of the triangles, which is where several kinds of interpolation error vanish
    for (int x2 = (large ? 20 : -4); x2 <= (large ? 60 : 10); x2 += (large ? 2 : 1)) for (int y2 = (large ? 20 : -2); y2 <= (large ? 60 : 10); y2 += (large ? 2 : 1))
      for (int general = 0; general < 2; ++general)
        {
          if (general == 0 && !inside_closed(poly, x2, y2)) continue;
          if (general == 1)
            {
              std::vector<georef::IP> p2000;
              for (auto &q : poly) p2000.push_back({{2000*q[0], 2000*q[1]}});
              if (!georef::in_closed_polygon(p2000, {{1000*x2 + 274, 1000*y2 + 118}})) continue;
            }
          const double lx = 0.5 * x2 + (general ? 0.137 : 0.0), ly = 0.5 * y2 + (general ? 0.059 : 0.0);   // lattice units
          const double x = fx(k, lx), y = fy(k, ly);
          // spherical polygon edges are not exactly representable after the conversion to radians: stay off them
          bool on_edge = false;
          if (k.spherical && general == 0)
            {
              std::vector<georef::IP> p2;
              for (auto &q : poly) p2.push_back({{2*q[0], 2*q[1]}});
              for (size_t i = 0; i < p2.size(); ++i) if (georef::on_segment(p2[i], p2[(i+1)%p2.size()], {{x2, y2}})) on_edge = true;
            }
          if (on_edge) continue;
          double v = 0; std::string err;
          ctx.eval();
          ctx.count(c_probe);
          const std::string at = JObj().num("x", x).num("y", y).done();
          if (!local_depth(*w, k, x, y, v, err)) { fail(err.compare(0, 12, "query throws") == 0 ? "query-throws" : "probe-not-in-feature", err, at); return; }
          auto extra = [&](double expect) { return JObj().num("x", x).num("y", y).num("recovered_depth", v).num("expected", expect).done(); };
          // is this probe a node?
          const Node *node = nullptr;
          if (general == 0 && x2 % 2 == 0 && y2 % 2 == 0) for (auto &n : nodes) if (n.p[0] == x2/2 && n.p[1] == y2/2) node = &n;
          const double tol = 1e-6;
          if (node && bounded_values)
            {
              const bool corner = is_corner(poly, node->p);
              if (node->listed && corner && !k.affine)
                {
                  ctx.count(c_override);
                  if (!(std::fabs(v - node->v) <= tol * node->v)) { fail("value-listed-at-a-polygon-corner-does-not-replace-the-corner-default", "the depth at a polygon corner is not the value listed for that point", extra(node->v)); return; }
                }
              else if (node->listed)
                {
                  ctx.count(c_listed);
                  if (!(std::fabs(v - node->v) <= tol * std::max(1.0, node->v))) { fail(std::string("listed-value-not-honoured/") + (corner ? "corner" : "interior-or-edge-point"), "the depth at a listed point is not the listed value", extra(node->v)); return; }
                }
              else
                {
                  ctx.count(c_corner);
                  if (!(std::fabs(v - node->v) <= tol * std::max(1.0, node->v))) { fail("unlisted-corner-not-at-its-default", "the depth at an unlisted polygon corner is not the documented default", extra(node->v)); return; }
                }
            }
          if (bounded_values && !(v >= vmin - tol * vmax && v <= vmax + tol * vmax)) { fail("interpolated-depth-outside-the-range-of-nodal-values", "the interpolated depth is not between the smallest and largest nodal value", JObj().num("x", x).num("y", y).num("recovered_depth", v).num("min", vmin).num("max", vmax).done()); return; }
          // rectangle with exactly one value point strictly inside: the four corners are cocircular and the point lies inside their circle, so the Delaunay
          // triangulation is the fan around that point, at every scale and position; the interpolated depth is known in closed form
          if (!k.affine && bounded_values && k.pts.size() == 1 && poly.size() == 4 && !is_corner(poly, k.pts[0]))
            {
              int xmin = poly[0][0], xmax = poly[0][0], ymin = poly[0][1], ymax = poly[0][1];
              for (auto &q : poly) { xmin = std::min(xmin, q[0]); xmax = std::max(xmax, q[0]); ymin = std::min(ymin, q[1]); ymax = std::max(ymax, q[1]); }
              const LP P = k.pts[0];
              if (P[0] > xmin && P[0] < xmax && P[1] > ymin && P[1] < ymax)
                {
                  const double px = lx, py = ly, vP = nodes.back().v;
                  bool found = false; double expect = 0;
                  for (size_t i = 0; i < 4 && !found; ++i)
                    {
                      const Node &A = nodes[i], &B = nodes[(i+1)%4];
                      const double det = (B.p[1] - P[1]) * (A.p[0] - P[0]) + (P[0] - B.p[0]) * (A.p[1] - P[1]);
                      const double la = ((B.p[1] - P[1]) * (px - P[0]) + (P[0] - B.p[0]) * (py - P[1])) / det;
                      const double lb = ((P[1] - A.p[1]) * (px - P[0]) + (A.p[0] - P[0]) * (py - P[1])) / det;
                      if (la >= -1e-12 && lb >= -1e-12 && la + lb <= 1 + 1e-12) { found = true; expect = la * A.v + lb * B.v + (1 - la - lb) * vP; }
                    }
                  static const int c_fan = Ctx::counter_id("fan_reference_checks");
                  if (found)
                    {
                      ctx.count(c_fan);
                      if (!(std::fabs(v - expect) <= 1e-6 * std::max(1.0, std::fabs(expect)))) { fail("depth-differs-from-the-linear-interpolation-on-the-unique-delaunay-triangulation", "rectangle with one interior value point: the depth is not the linear interpolation on the fan triangulation around that point", extra(expect)); return; }
                    }
                }
            }
          if (k.affine)
            {
              ctx.count(c_affine);
              const double expect = k.a + k.b * lx + k.c * ly;
              if (!(std::fabs(v - expect) <= 1e-6 * expect)) { fail("affine-data-not-reproduced", "nodal values sampled from one affine function are not interpolated by that function", extra(expect)); return; }
            }
          // (cartesian only: there both sides receive bit-identical node coordinates, so that even a non-unique Delaunay triangulation - cocircular or collinear nodes - comes out the same)
          if (surf && bounded_values && !k.spherical)
            {
              // the kernel with the documented node list must agree with the feature
              const double dtr = k.spherical ? WorldBuilder::Consts::PI / 180.0 : 1.0;
              try
                {
                  double xk = x*dtr;
                  if (k.spherical) { while (xk > WorldBuilder::Consts::PI) xk -= 2*WorldBuilder::Consts::PI; while (xk <= -WorldBuilder::Consts::PI) xk += 2*WorldBuilder::Consts::PI; }   // the feature hands over longitudes in (-pi,pi]
                  const double kv = surf->local_value(WorldBuilder::Point<2>(xk, y*dtr, k.spherical ? WorldBuilder::CoordinateSystem::spherical : WorldBuilder::CoordinateSystem::cartesian)).interpolated_value;
                  ctx.count(c_kernel);
                  if (!(std::fabs(kv - v) <= 1e-6 * std::max(1.0, kv)))
                    { fail("feature-disagrees-with-surface-built-from-the-documented-nodes", "the depth used by the feature differs from Objects::Surface built from corner defaults overridden by the listed points", JObj().num("x", x).num("y", y).num("recovered_depth", v).num("surface_value", kv).done()); return; }
                }
              catch (const std::exception &) {}
            }
        }
    ctx.nontrivial();
  }

  // ---------- enumeration ----------
  std::vector<Case> cases(bool th)
  {
    std::vector<Case> v;
    const size_t maxk = th ? 3 : 2;
    unsigned rr = 0;
    for (unsigned poly = 0; poly < POLYGONS.size(); ++poly)
      {
        const auto cand = candidates(POLYGONS[poly]);
        // all subsets of at most maxk candidate points with every assignment of values
        std::vector<std::vector<size_t>> subsets = {{}};
        for (size_t i = 0; i < cand.size(); ++i) { subsets.push_back({i}); }
        for (size_t i = 0; i < cand.size(); ++i) for (size_t j = i+1; j < cand.size(); ++j) subsets.push_back({i, j});
        if (maxk >= 3) for (size_t i = 0; i < cand.size(); ++i) for (size_t j = i+1; j < cand.size(); ++j) for (size_t l = j+1; l < cand.size(); ++l) subsets.push_back({i, j, l});
        if (poly == 4) subsets.resize(1 + cand.size() + cand.size() * (cand.size() - 1) / 2);   // at most two additional points, affine data only
        for (auto &sub : subsets)
          {
            if (poly == 4) break;
            uint64_t nassign = 1;
            for (size_t q = 0; q < sub.size(); ++q) nassign *= VALUES.size();
            for (uint64_t a = 0; a < nassign; ++a)
              {
                // three collinear additional points with the corners all at one value would still be fine; nothing is excluded
                Case k;
                k.poly = poly;
                uint64_t r = a;
                for (size_t q = 0; q < sub.size(); ++q) { k.pts.push_back(cand[sub[q]]); k.vals.push_back(VALUES[r % VALUES.size()]); r /= VALUES.size(); }
                // secondary coordinates round-robin (quick) / full (thorough, for subsets up to 2 points)
                const bool full = th && sub.size() <= 2;
                for (unsigned is_max = 0; is_max < 2; ++is_max) for (unsigned sph = 0; sph < 2; ++sph)
                    {
                      if (full)
                        for (unsigned f = 0; f < 3; ++f) { Case c = k; c.is_max = is_max; c.spherical = sph; c.feature = f; c.one_item_per_value = (rr++ % 2); v.push_back(c); }
                      else
                        { Case c = k; c.is_max = is_max; c.spherical = sph; c.feature = rr % 3; c.one_item_per_value = (rr / 3) % 2; c.default_last = (rr / 6) % 4 == 3; ++rr; v.push_back(c); }
                      if (sph)
                        {
                          // the same surface written across the date line and near longitude 360
                          const std::vector<double> shifts = (th && sub.size() <= 1) ? std::vector<double>{179, 355} : std::vector<double>{(rr % 2) ? 179.0 : 355.0};
                          for (double sh : shifts) { Case c = k; c.is_max = is_max; c.spherical = true; c.lon_shift = sh; c.feature = rr % 3; c.one_item_per_value = (rr / 3) % 2; ++rr; v.push_back(c); }
                        }
                    }
                // schema default for the corners (min depth 0): only meaningful for min depth
                if (sub.size() <= 1) { Case c = k; c.is_max = false; c.default_mode = 1; c.feature = rr++ % 3; v.push_back(c); c.spherical = true; v.push_back(c); }
              }
          }
        // affine family: every subset of at most maxk additional points, 4 affine functions
        const double AFF[4][3] = {{1.5e5, 2e4, 0}, {1.5e5, 0, -1.5e4}, {2e5, 1e4, 2e4}, {1e5, -0.5e4, 3e4}};
        for (auto &sub : subsets)
          for (int fn = 0; fn < 4; ++fn)
            for (unsigned is_max = 0; is_max < 2; ++is_max) for (unsigned sph = 0; sph < 2; ++sph)
                {
                  Case k;
                  k.poly = poly; k.affine = true; k.a = AFF[fn][0]; k.b = AFF[fn][1] / (poly == 4 ? 10 : 1); k.c = AFF[fn][2] / (poly == 4 ? 10 : 1); k.is_max = is_max; k.spherical = sph; k.feature = rr++ % 3;
                  bool skip = false;
                  for (size_t q : sub) { if (is_corner(POLYGONS[poly], cand[q])) skip = true; k.pts.push_back(cand[q]); k.vals.push_back(0); }
                  if (skip) continue;   // corners are listed already
                  if (sph) k.lon_shift = (rr % 3 == 0) ? 0 : (rr % 3 == 1) ? 179 : 355;
                  if (poly == 4)
                    {
                      // 10..30 -> 170..190 (across the date line), 325..345, -200..-180
                      if (!sph) { v.push_back(k); continue; }
                      for (double sh : {0.0, 160.0, 315.0, -210.0}) { k.lon_shift = sh; v.push_back(k); }
                      continue;
                    }
                  v.push_back(k);
                }
      }
    // scaled and displaced families: the same polygons 40 times smaller (a 2-unit square is 0.05 degrees / 5 km wide) and 4 times larger, away from the axes;
    // at most one additional value point (two in the thorough tier), every value assignment, min and max depth
    {
      struct Place { bool sph; double scale, x0, y0; };
      const std::vector<Place> places = {{true, 0.025, 10, 20}, {true, 0.025, 179.96, -45}, {false, 0.025, 3e5, -2e5}, {true, 4, 100, -10}, {false, 4, -7e5, 3e5}, {true, 0.0025, -120, 60}};
      for (unsigned poly = 0; poly < 4; ++poly)
        {
          const auto cand = candidates(POLYGONS[poly]);
          std::vector<std::vector<size_t>> subsets;
          for (size_t i = 0; i < cand.size(); ++i) subsets.push_back({i});
          if (th) for (size_t i = 0; i < cand.size(); ++i) for (size_t j = i+1; j < cand.size(); ++j) subsets.push_back({i, j});
          for (auto &sub : subsets)
            {
              uint64_t nassign = 1;
              for (size_t q = 0; q < sub.size(); ++q) nassign *= VALUES.size();
              for (uint64_t a = 0; a < nassign; ++a)
                for (auto &pl : places)
                  {
                    Case k;
                    k.poly = poly; k.spherical = pl.sph; k.scale = pl.scale; k.x0 = pl.x0; k.y0 = pl.y0;
                    uint64_t r = a;
                    for (size_t q = 0; q < sub.size(); ++q) { k.pts.push_back(cand[sub[q]]); k.vals.push_back(VALUES[r % VALUES.size()]); r /= VALUES.size(); }
                    k.is_max = rr % 2; k.feature = (rr / 2) % 3; k.one_item_per_value = (rr / 6) % 2; ++rr;
                    v.push_back(k);
                    if (th) { k.is_max = !k.is_max; v.push_back(k); }
                  }
            }
          // affine data at those places
          const double AFF2[2][3] = {{2e5, 1e4, 2e4}, {1e5, -0.5e4, 3e4}};
          for (size_t i = 0; i < cand.size(); ++i)
            for (int fn = 0; fn < 2; ++fn) for (auto &pl : places)
                {
                  if (is_corner(POLYGONS[poly], cand[i])) continue;
                  Case k;
                  k.poly = poly; k.affine = true; k.a = AFF2[fn][0]; k.b = AFF2[fn][1]; k.c = AFF2[fn][2]; k.is_max = rr % 2; k.feature = (rr / 2) % 3; ++rr;
                  k.spherical = pl.sph; k.scale = pl.scale; k.x0 = pl.x0; k.y0 = pl.y0;
                  k.pts.push_back(cand[i]); k.vals.push_back(0);
                  v.push_back(k);
                }
        }
    }
    return v;
  }

  // ---------- suite maxdefault: a 'max depth' list that leaves polygon corners without a value ----------
  // The documented default of 'max depth' is "no limit" (the largest double). A corner the list does not name keeps it, so the plate has no bottom there,
  // while a listed point has exactly its listed bottom.
  void run_maxdefault(uint64_t idx, Ctx &ctx)
  {
    static const int c_l = Ctx::counter_id("listed_points_checked"), c_c = Ctx::counter_id("unlisted_corners_checked");
    const unsigned f = static_cast<unsigned>(idx % 3); const bool sph = (idx / 3) % 2; const unsigned layout = static_cast<unsigned>(idx / 6) % 4;
    const double s = sph ? 1.0 : 1e5;
    // layouts: one interior point; two interior points; an interior point and a listed corner; three interior points (two values)
    const std::vector<std::vector<std::pair<P2,double>>> L =
    {
      {{{{1,1}}, 1.2e5}},
      {{{{-2,1}}, 0.8e5}, {{{2,-1}}, 2.0e5}},
      {{{{0,2}}, 1.5e5}, {{{4,4}}, 0.9e5}},
      {{{{-1,-2}}, 1.0e5}, {{{1,0}}, 1.0e5}, {{{3,3}}, 2.2e5}},
    };
    const auto &pl = L[layout];
    std::string md = "[";
    for (size_t i = 0; i < pl.size(); ++i) md += std::string(i ? "," : "") + "[" + num(pl[i].second) + ",[" + pt({pl[i].first[0]*s, pl[i].first[1]*s}) + "]]";
    md += "]";
    const std::string feat = std::string("{\"model\":\"") + FEATURES[f] + "\",\"name\":\"A\",\"max depth\":" + md + ",\"coordinates\":" + pts({{-4*s,-4*s},{4*s,-4*s},{4*s,4*s},{-4*s,4*s}}) +
                             ",\"temperature models\":[{\"model\":\"uniform\",\"temperature\":500}]}";
    const std::string text = world(coord(sph), {feat});
    std::unique_ptr<World> w;
    try { w = make_world(text); }
    catch (const std::exception &e) { ctx.violation("harness/world-rejected", JObj().str("what", std::string(e.what()).substr(0, 300)).str("world", text).done()); return; }
    auto tag = [&](double x, double y, double d) { return w->properties(query_point(sph, x*s, y*s, d), d, {{{4,0,0}}})[0]; };
    auto fail = [&](const std::string &sig, const std::string &what, double x, double y, double d, double got)
    { ctx.violation("C11/max-depth-list-without-a-default/" + sig + (sph ? "/spherical" : "/cartesian") + "/layout-" + std::to_string(layout), JObj().str("what", what).str("feature", FEATURES[f]).boolean("spherical", sph).raw("point_lattice_units", jarr(std::vector<double>{x, y})).num("depth", d).num("tag", got).str("world", text).done()); };
    for (auto &q : pl)
      {
        ctx.eval(); ctx.count(c_l);
        const double x = q.first[0], y = q.first[1], v = q.second;
        if (tag(x, y, v - 500) != 0) { fail("listed-point-not-inside-above-its-listed-bottom", "500 m above the bottom listed for this point the plate is not found", x, y, v - 500, tag(x, y, v - 500)); return; }
        if (tag(x, y, v + 500) == 0) { fail("listed-point-inside-below-its-listed-bottom", "500 m below the bottom listed for this point the plate is still found", x, y, v + 500, 0); return; }
      }
    for (auto c : std::vector<P2>{{{-4,-4}},{{4,-4}},{{4,4}},{{-4,4}}})
      {
        bool listed = false;
        for (auto &q : pl) if (q.first[0] == c[0] && q.first[1] == c[1]) listed = true;
        if (listed) continue;
        ctx.eval(); ctx.count(c_c);
        // just inside the corner (the corner itself is on the edge of the polygon)
        const double x = c[0] * 0.999, y = c[1] * 0.999;
        for (double d : {3e5, 1e6, 2.5e6})
          if (tag(x, y, d) != 0) { fail("plate-has-a-bottom-next-to-a-corner-without-a-value", "next to a corner that the list does not name the plate must have no bottom (documented default of max depth)", x, y, d, tag(x, y, d)); return; }
      }
    ctx.nontrivial();
  }
}

int main(int argc, char **argv)
{
  Spec spec;
  spec.property = "C11";
  spec.level = "exploration";
  spec.rule = "for each of four small lattice polygons (square with a corner in the origin, rectangle with an edge on y=0, concave L, square away from the axes): every set of at most 2|3 additional value points from the integer lattice points inside or on the polygon "
              "(corners included) x every assignment of values from a 3-value set, as min depth and as max depth, cartesian and spherical (also written across the date line and near longitude 360), value-less item first or last, feature type and item grouping round-robin (thorough: all three feature types for sets up to 2 points); "
              "plus the affine family (4 affine functions, all nodes listed) over the same point sets and over a large plate (20 x 20 units, also across the date line) with up to two value points close to its corners. Every half-step lattice point inside or on the polygon is probed, and next to each a point in general position (+0.137, +0.059 lattice units). non-trivial: every case that built";
  spec.assumptions = {"the local depth limit is recovered from the public API by bisection on membership (tag) along the vertical, to 1e-7 m",
                      "documented semantics: a value without points sets every polygon corner; a value with points sets those points, replacing a corner's value when the point coincides with the corner; without a value-less item corners keep the schema default",
                      "spherical polygon edges are not probed (not exactly representable); tolerance 1e-6 relative"
                     };
  spec.counters = {"probes_bisected", "listed_points_checked", "unlisted_corners_checked", "corner_overrides_checked", "affine_probes_checked", "kernel_cross_checks", "fan_reference_checks"};
  spec.quick_deadline_s = 240;
  spec.thorough_deadline_s = 1500;
  return driver(argc, argv, spec, [](const std::string &tier)
  {
    static std::vector<Case> cs;
    cs = cases(tier == "thorough");
    std::vector<Suite> s(2);
    s[1].name = "maxdefault"; s[1].n = 24; s[1].run = run_maxdefault;
    s[1].bound = "3 area features x 2 coordinate systems x 4 layouts of a max depth list that names one to three points and no value for the corners: listed bottoms honoured within 500 m, no bottom next to the corners the list does not name (depths up to 2500 km)";
    s[0].name = "surfaces";
    s[0].n = cs.size();
    s[0].run = [](uint64_t i, Ctx &c) { run_case(cs[i], c); if (i % 997 == 13) c.sample(describe(cs[i])); };
    s[0].bound = std::to_string(cs.size()) + " depth surfaces: 4 polygons (+ a large plate for the affine family) x all sets of <= " + (tier == "thorough" ? "3" : "2") + " additional lattice value points x 3 values each x {min depth, max depth} x {cartesian, spherical}, plus 4 affine functions per point set; plus the same polygons at 6 scaled / displaced places (0.0025x, 0.025x and 4x the lattice unit, across the date line, high latitude) with <= " + (tier == "thorough" ? "2" : "1") + " value points; rectangles with one interior value point are compared with the closed-form fan interpolation";
    s[0].describe = [](uint64_t i) { return describe(cs[i]); };
    return s;
  });
}
