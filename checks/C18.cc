// VARIANTS: rel
// C18 - gwb-grid writes the requested mesh and the library's values at its nodes.
// The real gwb-grid main() (source/gwb-grid/main.cc compiled into this harness, renamed) is run in-process for every
// configuration of the alphabet; the full-precision arrays it hands to the VTU writer are captured by a forwarding
// wrapper around vtu11::writeVtu (which still writes the real file, parsed afterwards), and compared with an
// independent description of the requested mesh and with World::properties at every node.
#include "kit.h"
#include "worlds.h"
#include "vtu11/vtu11.hpp"
#include <zlib.h>

namespace c18
{
  struct Captured
  {
    std::string filename, mode;
    std::vector<double> points;
    std::vector<long long> conn, offsets;
    std::vector<int> types;
    std::vector<std::string> names;
    std::vector<size_t> ncomp;
    std::vector<int> assoc;
    std::vector<std::vector<double>> data;
  };
  inline std::vector<Captured> &captured() { static std::vector<Captured> c; return c; }
}
namespace vtu11
{
  template <class Mesh>
  void verif_writeVtu(const std::string &filename, Mesh &mesh, const std::vector<DataSetInfo> &info, const std::vector<DataSetData> &data, const std::string &mode)
  {
    c18::Captured c;
    c.filename = filename;
    c.mode = mode;
    c.points = mesh.points();
    for (auto v : mesh.connectivity()) c.conn.push_back(v);
    for (auto v : mesh.offsets()) c.offsets.push_back(v);
    for (auto v : mesh.types()) c.types.push_back(static_cast<int>(v));
    for (auto &i : info) { c.names.push_back(std::get<0>(i)); c.assoc.push_back(static_cast<int>(std::get<1>(i))); c.ncomp.push_back(std::get<2>(i)); }
    c.data = data;
    c18::captured().push_back(c);
    writeVtu(filename, mesh, info, data, mode);
  }
}
#define writeVtu verif_writeVtu
#define main gwb_grid_main
#include "gwb-grid/main.cc"
#undef main
#undef writeVtu

namespace
{
  using namespace kit;
  using c18::Captured;
  const double TWO_PI = 2.0 * 3.14159265358979323846;

  struct GCfg
  {
    int type = 0;        // 0 cartesian, 1 chunk, 2 annulus, 3 sphere
    unsigned dim = 3, nx = 1, ny = 1, nz = 1, comps = 0, threads = 1;
    int bounds = 0, world = 0;
    int mode = 0;        // 0 plain, 1 --filtered, 2 --by-tag, 3 both
    int format = 0;      // vtu_output_format: 0 ASCII, 1 Base64Inline, 2 Base64Appended, 3 RawBinary, 4 RawBinaryCompressed
    unsigned limit = 0;  // --resolution-limit X (0: option not given); nx, ny, nz are the cell counts in effect, fnx, fny, fnz the ones written to the grid file
    unsigned fnx = 0, fny = 0, fnz = 0;
    int order = 0;       // order of the lines of the grid file: 0 as documented (grid_type first), 1 reversed, 2 grid_type and dim last, 3 bounds first then counts then the rest
    double x0 = 0, x1 = 0, y0 = 0, y1 = 0, z0 = 0, z1 = 0;
  };
  const char *TYPE_NAMES[] = {"cartesian", "chunk", "annulus", "sphere"};
  const char *FORMATS[] = {"ASCII", "Base64Inline", "Base64Appended", "RawBinary", "RawBinaryCompressed"};

  worlds::Opt world_opt(const GCfg &c)
  {
    worlds::Opt o;
    o.spherical = c.type != 0;
    if (c.world == 1) o.variant = 1;
    if (c.world == 3) o.without_layer = true;   // the first feature of the list (tag 0) is a plate, not a mantle layer: --filtered keeps it, --by-tag writes it
    if (c.world == 2 && c.type != 0) { o.shift = 178; o.custom_cs = false; }
    if (c.type == 3 || (c.type == 2 && c.world == 1)) { o.scale = 8; o.variant = 0; }
    return o;
  }
  std::string describe(const GCfg &c)
  {
    return JObj().str("grid_type", TYPE_NAMES[c.type]).integer("dim", c.dim).integer("n_cell_x", c.nx).integer("n_cell_y", c.ny).integer("n_cell_z", c.nz)
           .integer("compositions", c.comps).integer("threads", c.threads).integer("world", c.world).integer("mode", c.mode).str("vtu_output_format", FORMATS[c.format]).integer("grid_file_line_order", c.order).integer("resolution_limit_option", c.limit).integer("n_cell_x_in_file", c.limit ? c.fnx : c.nx).integer("n_cell_y_in_file", c.limit ? c.fny : c.ny).integer("n_cell_z_in_file", c.limit ? c.fnz : c.nz)
           .raw("bounds", "[" + wbgen::num(c.x0) + "," + wbgen::num(c.x1) + "," + wbgen::num(c.y0) + "," + wbgen::num(c.y1) + "," + wbgen::num(c.z0) + "," + wbgen::num(c.z1) + "]").done();
  }
  std::string grid_file(const GCfg &c)
  {
    std::string t = "# grid written by the C18 checker\ngrid_type = " + std::string(TYPE_NAMES[c.type]) + "\ndim = " + std::to_string(c.dim) + "\ncompositions = " + std::to_string(c.comps) + "\nvtu_output_format = " + FORMATS[c.format] + "\n\n";
    t += "x_min = " + wbgen::num(c.x0) + "\nx_max = " + wbgen::num(c.x1) + "\n";
    if (c.dim == 3 || c.type == 2 || c.type == 1) t += "y_min = " + wbgen::num(c.y0) + "\ny_max = " + wbgen::num(c.y1) + "\n";
    t += "z_min = " + wbgen::num(c.z0) + "\nz_max = " + wbgen::num(c.z1) + "\n# cells\nn_cell_x = " + std::to_string(c.limit ? c.fnx : c.nx) + "\n";
    if (c.dim == 3 || c.type == 2 || c.type == 1) t += "n_cell_y = " + std::to_string(c.limit ? c.fny : c.ny) + "\n";
    t += "n_cell_z = " + std::to_string(c.limit ? c.fnz : c.nz) + "\n";
    if (c.order != 0)
      {
        // the same settings in another order (comment and blank lines stay where they are relative to the file start)
        std::vector<std::string> keys, other;
        { std::stringstream ss(t); std::string l; while (std::getline(ss, l)) (l.find(" = ") != std::string::npos && l[0] != '#' ? keys : other).push_back(l); }
        if (c.order == 1) std::reverse(keys.begin(), keys.end());
        else if (c.order == 2) std::rotate(keys.begin(), keys.begin() + 2, keys.end());
        else std::rotate(keys.begin(), keys.begin() + 4, keys.end());
        t.clear();
        for (auto &l : other) t += l + "\n";
        for (auto &l : keys) t += l + "\n";
      }
    return t;
  }

  void set_bounds(GCfg &c)
  {
    const double R = wbgen::R_EARTH;
    if (c.type == 0)
      {
        if (c.dim == 3) { if (c.bounds == 0) { c.x0 = -4.7e5; c.x1 = 6.4e5; c.y0 = -3.9e5; c.y1 = 5.6e5; c.z0 = 4.2e5; c.z1 = 1e6; } else { c.x0 = -1e5; c.x1 = 3.5e5; c.y0 = -2.25e5; c.y1 = 0.75e5; c.z0 = 8.5e5; c.z1 = 1e6; } }
        else { if (c.bounds == 0) { c.x0 = -1e5; c.x1 = 11.5e5; c.z0 = 4.2e5; c.z1 = 1e6; } else { c.x0 = 2e5; c.x1 = 7.1e5; c.z0 = 8.8e5; c.z1 = 1e6; } }
      }
    else if (c.type == 1)
      {
        const double sh = c.world == 2 ? 178 : 0;
        if (c.dim == 3) { if (c.bounds == 0) { c.x0 = -5.5 + sh; c.x1 = 7.25 + sh; c.y0 = -4.5; c.y1 = 5.75; c.z0 = R - 5.5e5; c.z1 = R; } else { c.x0 = -1 + sh; c.x1 = 3 + sh; c.y0 = -2; c.y1 = 1.5; c.z0 = R - 1.3e5; c.z1 = R; } }
        else { c.y0 = -3; c.y1 = 4; if (c.bounds == 0) { c.x0 = -1; c.x1 = 11.5; c.z0 = R - 5.5e5; c.z1 = R; } else { c.x0 = 2; c.x1 = 7.25; c.z0 = R - 1.3e5; c.z1 = R; } }
      }
    else if (c.type == 2) { c.x0 = -25; c.x1 = 25; c.y0 = -25; c.y1 = 25; c.z1 = R; c.z0 = c.bounds == 0 ? R - 2e6 : R - 5e5; }
    else { c.x0 = 0; c.x1 = 0; c.y0 = 0; c.y1 = 0; c.z1 = R; c.z0 = c.bounds == 0 ? R - 6e5 : R - 1.5e5; }
  }

  std::vector<GCfg> configs(bool th)
  {
    std::vector<GCfg> v;
    const std::vector<unsigned> N = th ? std::vector<unsigned>{1, 2, 3, 4, 5} : std::vector<unsigned>{1, 2, 3};
    unsigned rr = 0;   // round-robin over the secondary coordinates so that each appears with every primary tuple class
    auto push = [&](GCfg c)
    {
      // secondary coordinates: compositions, threads, output mode
      const unsigned comps[] = {0, 2, 4}, threads[] = {1, 3, 2}; const int modes[] = {0, 1, 2, 3};
      // output format: ASCII for two thirds of the files, the four binary formats round-robin for the rest; node and cell counts run through all residues mod 3
      c.format = (rr % 3 == 2) ? 1 + static_cast<int>((rr / 3) % 4) : 0;
      if (th)
        for (int m : modes) for (int fmt = 0; fmt < 5; ++fmt) { c.mode = m; c.format = fmt; c.comps = comps[rr % 3]; c.threads = threads[(rr / 3) % 3]; ++rr; set_bounds(c); v.push_back(c); }
      else
        { c.mode = modes[rr % 4]; c.comps = comps[(rr / 4) % 3]; c.threads = threads[(rr / 2) % 3]; ++rr; set_bounds(c); v.push_back(c); }
    };
    for (int b : {0, 1}) for (int w : {0, 1})
        {
          for (unsigned nx : N) for (unsigned ny : N) for (unsigned nz : N) { GCfg c; c.type = 0; c.dim = 3; c.nx = nx; c.ny = ny; c.nz = nz; c.bounds = b; c.world = w; push(c); }
          for (unsigned nx : N) for (unsigned nz : N) { GCfg c; c.type = 0; c.dim = 2; c.nx = nx; c.nz = nz; c.bounds = b; c.world = w; push(c); }
        }
    for (int b : {0, 1}) for (int w : {0, 2})
        {
          for (unsigned nx : N) for (unsigned ny : N) for (unsigned nz : N) { GCfg c; c.type = 1; c.dim = 3; c.nx = nx; c.ny = ny; c.nz = nz; c.bounds = b; c.world = w; push(c); }
          if (w == 0) for (unsigned nx : N) for (unsigned nz : N) { GCfg c; c.type = 1; c.dim = 2; c.nx = nx; c.nz = nz; c.bounds = b; c.world = w; push(c); }
        }
    for (int b : {0, 1}) for (int w : {0, 1}) for (unsigned nz : N) { GCfg c; c.type = 2; c.dim = 2; c.nx = 8; c.ny = 8; c.nz = nz; c.bounds = b; c.world = w; push(c); }
    for (int b : {0, 1}) for (unsigned n : (th ? std::vector<unsigned>{1, 2, 3, 4, 6} : std::vector<unsigned>{1, 2, 3, 5})) for (unsigned nz : N) { GCfg c; c.type = 3; c.dim = 3; c.nx = n; c.ny = n; c.nz = nz; c.bounds = b; c.world = 0; push(c); }
    // finer grids so that many nodes fall inside features (values are then far from trivial)
    for (int w : {0, 1}) { GCfg c; c.type = 0; c.dim = 3; c.nx = 9; c.ny = 7; c.nz = 8; c.world = w; push(c); c.dim = 2; c.nx = 23; c.nz = 11; push(c); }
    { GCfg c; c.type = 1; c.dim = 3; c.nx = 9; c.ny = 7; c.nz = 8; push(c); c.dim = 2; c.nx = 23; c.nz = 11; push(c); c.dim = 3; c.world = 2; push(c); }
    { GCfg c; c.type = 2; c.dim = 2; c.nx = 8; c.ny = 8; c.nz = 9; c.bounds = 1; push(c); c.world = 1; push(c); }
    { GCfg c; c.type = 3; c.dim = 3; c.nx = 7; c.ny = 7; c.nz = 2; c.bounds = 1; push(c); }
    // grids with more than 1024 / 4096 nodes: thread pools that treat small loops specially, and binary arrays that span several 32 KiB blocks
    for (unsigned t : {2u, 3u, 5u, 7u, 11u, 16u})
      { GCfg c; c.type = 0; c.dim = 3; c.nx = 10; c.ny = 10; c.nz = 10; c.comps = 2; c.threads = t; c.mode = (t % 4 == 3) ? 3 : 0; c.format = static_cast<int>(t % 5); set_bounds(c); v.push_back(c); }
    for (int fmt = 0; fmt < 5; ++fmt)
      { GCfg c; c.type = 0; c.dim = 3; c.nx = 16; c.ny = 16; c.nz = 16; c.comps = 1; c.threads = 4; c.format = fmt; set_bounds(c); v.push_back(c); }
    { GCfg c; c.type = 1; c.dim = 3; c.nx = 12; c.ny = 11; c.nz = 9; c.comps = 2; c.threads = 6; c.format = 4; set_bounds(c); v.push_back(c); }
    { GCfg c; c.type = 0; c.dim = 2; c.nx = 70; c.nz = 64; c.comps = 3; c.threads = 7; c.format = 4; set_bounds(c); v.push_back(c); }
    // a world without a mantle layer (tag 0 is the continental plate) under the filter options
    for (unsigned mode : {1u, 2u, 3u})
      {
        { GCfg c; c.type = 0; c.dim = 3; c.nx = 6; c.ny = 5; c.nz = 6; c.comps = 2; c.threads = 2; c.world = 3; c.mode = mode; set_bounds(c); v.push_back(c); }
        { GCfg c; c.type = 0; c.dim = 2; c.nx = 12; c.nz = 8; c.comps = 2; c.threads = 1; c.world = 3; c.mode = mode; set_bounds(c); v.push_back(c); }
        { GCfg c; c.type = 1; c.dim = 3; c.nx = 6; c.ny = 5; c.nz = 5; c.comps = 2; c.threads = 3; c.world = 3; c.mode = mode; set_bounds(c); v.push_back(c); }
      }
    // arrays whose byte size is an exact multiple of the 32 KiB compression block: 4096 nodes (16^3, 64^2) and 512 hexahedra
    for (int fmt : {4, 3, 2})
      {
        { GCfg c; c.type = 0; c.dim = 3; c.nx = 15; c.ny = 15; c.nz = 15; c.comps = 1; c.threads = 4; c.format = fmt; set_bounds(c); v.push_back(c); }
        { GCfg c; c.type = 0; c.dim = 3; c.nx = 8; c.ny = 8; c.nz = 8; c.comps = 2; c.threads = 3; c.format = fmt; set_bounds(c); v.push_back(c); }
        { GCfg c; c.type = 0; c.dim = 2; c.nx = 63; c.nz = 63; c.comps = 2; c.threads = 5; c.format = fmt; set_bounds(c); v.push_back(c); }
      }
    // the settings of the grid file in other orders, and a full ball (inner radius 0)
    for (int order : {1, 2, 3})
      for (int type : {0, 1, 2, 3})
        {
          GCfg c; c.type = type; c.dim = type == 2 ? 2 : 3; c.order = order; c.comps = 2; c.threads = 2; c.nx = type == 2 ? 8 : 3; c.ny = type == 2 ? 8 : 3; c.nz = 3; c.format = order;
          if (type == 3) c.ny = c.nx;
          set_bounds(c); v.push_back(c);
          if (type == 0 || type == 1) { c.dim = 2; set_bounds(c); v.push_back(c); }
        }
    { GCfg c; c.type = 3; c.dim = 3; c.nx = 3; c.ny = 3; c.nz = 4; c.comps = 1; c.threads = 2; set_bounds(c); c.z0 = 0; v.push_back(c); }
    { GCfg c; c.type = 2; c.dim = 2; c.nx = 8; c.ny = 8; c.nz = 3; c.comps = 1; c.threads = 1; set_bounds(c); c.z0 = 0; v.push_back(c); }
    // --resolution-limit X: every cell count of the file is capped at X
    for (unsigned lim : {1u, 2u, 3u, 5u, 100u})
      for (int type : {0, 1, 2, 3})
        {
          GCfg c; c.type = type; c.dim = type == 2 ? 2 : 3; c.limit = lim; c.comps = 2; c.threads = 1 + lim % 3;
          c.fnx = type == 3 ? 4 : 5; c.fny = type == 3 ? 4 : 4; c.fnz = 6;
          if (type == 2) { c.fnx = 8; c.fny = 8; }
          c.nx = std::min(c.fnx, lim); c.ny = std::min(c.fny, lim); c.nz = std::min(c.fnz, lim);
          set_bounds(c); v.push_back(c);
          if (type == 0) { c.dim = 2; set_bounds(c); v.push_back(c); }
        }
    return v;
  }

  // ---------- running the tool ----------
  struct GridRun { int rc = 0; bool threw = false; std::string what; std::vector<Captured> cap; };
  GridRun run_grid(const std::vector<std::string> &args)
  {
    GridRun r;
    c18::captured().clear();
    std::vector<std::string> a = args;
    a.insert(a.begin(), "gwb-grid");
    std::vector<char *> argv;
    for (auto &s : a) argv.push_back(const_cast<char *>(s.c_str()));
    argv.push_back(nullptr);
    // the tool prints progress lines without newline to stdout: keep them away from the checker's own output
    fflush(stdout); std::cout.flush();
    const int saved = dup(1), nul = open("/dev/null", O_WRONLY);
    dup2(nul, 1); close(nul);
    try { r.rc = gwb_grid_main(static_cast<int>(a.size()), argv.data()); }
    catch (const std::exception &e) { r.threw = true; r.what = e.what(); }
    std::cout.flush(); fflush(stdout);
    dup2(saved, 1); close(saved);
    r.cap = c18::captured();
    c18::captured().clear();
    return r;
  }

  struct P3 { double x, y, z; };
  P3 node(const Captured &m, size_t i) { return {m.points[3*i], m.points[3*i+1], m.points[3*i+2]}; }
  std::string jp(const P3 &p) { return "[" + jnum(p.x) + "," + jnum(p.y) + "," + jnum(p.z) + "]"; }

  struct Reporter
  {
    Ctx &ctx; const GCfg &c; const std::string &wbtext; const std::string &gridtext; std::string file;
    void operator()(const std::string &sig, const std::string &what, const std::string &extra = "{}") const
    {
      ctx.violation("C18/" + std::string(TYPE_NAMES[c.type]) + std::to_string(c.dim) + "d/" + sig,
                    JObj().str("what", what).str("output_file", file).raw("config", describe(c)).raw("extra", extra).str("grid_file", gridtext).str("world", wbtext).done());
    }
  };

  // structural sanity shared by every mesh; returns false when indices cannot be trusted
  bool check_structure(const Captured &m, unsigned dim, size_t ncomp_expected, bool may_be_empty, const Reporter &fail)
  {
    const size_t vpc = dim == 2 ? 4 : 8;
    if (m.points.size() % 3 != 0) { fail("mesh/points-not-triples", "points array length is not a multiple of 3"); return false; }
    const size_t np = m.points.size() / 3, nc = m.types.size();
    if (m.conn.size() != nc * vpc || m.offsets.size() != nc) { fail("mesh/array-lengths", "connectivity / offsets / types lengths are inconsistent", JObj().integer("cells", static_cast<long long>(nc)).integer("connectivity", static_cast<long long>(m.conn.size())).integer("offsets", static_cast<long long>(m.offsets.size())).done()); return false; }
    if (!may_be_empty && (np == 0 || nc == 0)) { fail("mesh/empty", "mesh has no nodes or no cells"); return false; }
    for (size_t i = 0; i < nc; ++i)
      {
        if (m.offsets[i] != static_cast<long long>((i+1) * vpc)) { fail("mesh/offsets", "offset of a cell is not the end of its connectivity block", JObj().integer("cell", static_cast<long long>(i)).integer("offset", m.offsets[i]).done()); return false; }
        if (m.types[i] != (dim == 2 ? 9 : 12)) { fail("mesh/cell-type", "cell type is not VTK_QUAD (2-D) / VTK_HEXAHEDRON (3-D)", JObj().integer("cell", static_cast<long long>(i)).integer("type", m.types[i]).done()); return false; }
      }
    std::vector<char> used(np, 0);
    for (size_t i = 0; i < m.conn.size(); ++i)
      {
        if (m.conn[i] < 0 || static_cast<size_t>(m.conn[i]) >= np) { fail("mesh/connectivity-out-of-range", "a cell references a node that does not exist", JObj().integer("entry", static_cast<long long>(i)).integer("index", m.conn[i]).integer("nodes", static_cast<long long>(np)).done()); return false; }
        used[static_cast<size_t>(m.conn[i])] = 1;
      }
    for (size_t i = 0; i < nc; ++i)
      for (size_t a = 0; a < vpc; ++a) for (size_t b = a+1; b < vpc; ++b)
          if (m.conn[i*vpc+a] == m.conn[i*vpc+b]) { fail("mesh/degenerate-cell", "a cell lists the same node twice", JObj().integer("cell", static_cast<long long>(i)).done()); return false; }
    for (size_t i = 0; i < np; ++i) if (!used[i]) { fail("mesh/orphan-node", "a node is referenced by no cell", JObj().integer("node", static_cast<long long>(i)).done()); return false; }
    for (size_t i = 0; i < m.points.size(); ++i) if (!std::isfinite(m.points[i])) { fail("mesh/non-finite-position", "node position is not finite"); return false; }
    // data sets
    const std::vector<std::string> base = {"Depth", "Temperature", "velocity", "Tag"};
    if (m.names.size() != 4 + ncomp_expected || m.data.size() != m.names.size()) { fail("data/number-of-data-sets", "unexpected number of data sets", JObj().integer("found", static_cast<long long>(m.names.size())).integer("expected", static_cast<long long>(4 + ncomp_expected)).done()); return false; }
    for (size_t d = 0; d < m.names.size(); ++d)
      {
        const std::string want = d < 4 ? base[d] : "Composition " + std::to_string(d - 4);
        const size_t comp = d == 2 ? 3 : 1;
        if (m.names[d] != want || m.ncomp[d] != comp || m.assoc[d] != 0 || m.data[d].size() != np * comp)
          { fail("data/data-set-layout", "data set name / components / association / length is not as documented", JObj().integer("data_set", static_cast<long long>(d)).str("name", m.names[d]).integer("length", static_cast<long long>(m.data[d].size())).done()); return false; }
      }
    return true;
  }

  // lattice description of a structured grid: node -> integer tuple, tuple -> expected position
  struct Lattice
  {
    unsigned d;                        // 2 or 3 active axes
    long n[3];                         // number of nodes per axis (axis 1 unused in 2-D: n[1] = 1)
    bool wrap0 = false;                // axis 0 is periodic (annulus)
    std::function<bool(const P3 &, long (&)[3])> index;
    std::function<P3(const long (&)[3])> position;
    double tol;
  };

  void check_lattice_mesh(const Captured &m, const Lattice &L, const Reporter &fail)
  {
    const size_t np = m.points.size() / 3, nc = m.types.size();
    const size_t expect_np = static_cast<size_t>(L.n[0] * L.n[1] * L.n[2]);
    const long cn[3] = {L.wrap0 ? L.n[0] : L.n[0] - 1, L.d == 3 ? L.n[1] - 1 : 1, L.n[2] - 1};
    const size_t expect_nc = static_cast<size_t>(cn[0] * cn[1] * cn[2]);
    if (np != expect_np) { fail("mesh/node-count", "number of nodes differs from the requested lattice", JObj().integer("found", static_cast<long long>(np)).integer("expected", static_cast<long long>(expect_np)).done()); return; }
    if (nc != expect_nc) { fail("mesh/cell-count", "number of cells differs from the requested cell counts", JObj().integer("found", static_cast<long long>(nc)).integer("expected", static_cast<long long>(expect_nc)).done()); return; }
    std::vector<std::array<long,3>> idx(np);
    std::set<std::array<long,3>> seen;
    for (size_t i = 0; i < np; ++i)
      {
        long t[3] = {0, 0, 0};
        const P3 p = node(m, i);
        if (!L.index(p, t) || t[0] < 0 || t[0] >= L.n[0] || t[1] < 0 || t[1] >= L.n[1] || t[2] < 0 || t[2] >= L.n[2])
          { fail("mesh/node-outside-requested-region", "a node does not lie on the requested lattice", JObj().integer("node", static_cast<long long>(i)).raw("position", jp(p)).done()); return; }
        const P3 e = L.position(t);
        if (!(std::fabs(p.x - e.x) <= L.tol && std::fabs(p.y - e.y) <= L.tol && std::fabs(p.z - e.z) <= L.tol))
          { fail("mesh/node-position", "a node is not at its lattice position", JObj().integer("node", static_cast<long long>(i)).raw("position", jp(p)).raw("expected", jp(e)).done()); return; }
        idx[i] = {{t[0], t[1], t[2]}};
        if (!seen.insert(idx[i]).second) { fail("mesh/duplicate-node", "two nodes at the same lattice position", JObj().integer("node", static_cast<long long>(i)).done()); return; }
      }
    // cells
    const size_t vpc = L.d == 2 ? 4 : 8;
    std::set<std::array<long,3>> cells_seen;
    static const int QUAD_EDGES[4][2] = {{0,1},{1,2},{2,3},{3,0}};
    static const int HEX_EDGES[12][2] = {{0,1},{1,2},{2,3},{3,0},{4,5},{5,6},{6,7},{7,4},{0,4},{1,5},{2,6},{3,7}};
    for (size_t c = 0; c < nc; ++c)
      {
        std::array<long,3> lo = {{0, 0, 0}};
        bool ok = true;
        for (int a = 0; a < 3 && ok; ++a)
          {
            std::set<long> vals;
            for (size_t k = 0; k < vpc; ++k) vals.insert(idx[static_cast<size_t>(m.conn[c*vpc+k])][static_cast<size_t>(a)]);
            const bool active = (a != 1 || L.d == 3);
            if (!active) { ok = vals.size() == 1; lo[static_cast<size_t>(a)] = 0; continue; }
            if (vals.size() != 2) { ok = false; break; }
            const long v0 = *vals.begin(), v1 = *vals.rbegin();
            if (v1 == v0 + 1) lo[static_cast<size_t>(a)] = v0;
            else if (a == 0 && L.wrap0 && v0 == 0 && v1 == L.n[0] - 1) lo[static_cast<size_t>(a)] = v1;
            else ok = false;
          }
        if (ok)
          {
            // all corners, each once
            std::set<std::array<long,3>> corners;
            for (size_t k = 0; k < vpc; ++k) corners.insert(idx[static_cast<size_t>(m.conn[c*vpc+k])]);
            ok = corners.size() == vpc;
          }
        if (!ok) { fail("mesh/cell-is-not-a-lattice-cell", "the nodes of a cell are not the corners of one cell of the requested lattice", JObj().integer("cell", static_cast<long long>(c)).done()); return; }
        // VTK node order: listed edges must join lattice neighbours
        const int ne = L.d == 2 ? 4 : 12;
        for (int e = 0; e < ne; ++e)
          {
            const int a = L.d == 2 ? QUAD_EDGES[e][0] : HEX_EDGES[e][0], b = L.d == 2 ? QUAD_EDGES[e][1] : HEX_EDGES[e][1];
            const auto &ta = idx[static_cast<size_t>(m.conn[c*vpc+static_cast<size_t>(a)])], &tb = idx[static_cast<size_t>(m.conn[c*vpc+static_cast<size_t>(b)])];
            int differing = 0;
            for (size_t ax = 0; ax < 3; ++ax) if (ta[ax] != tb[ax]) ++differing;
            if (differing != 1) { fail("mesh/cell-node-order", "the node order of a cell is not a valid VTK quad / hexahedron order (an edge joins non-neighbouring corners)", JObj().integer("cell", static_cast<long long>(c)).integer("edge", e).done()); return; }
          }
        if (!cells_seen.insert(lo).second) { fail("mesh/duplicate-cell", "the same lattice cell appears twice", JObj().integer("cell", static_cast<long long>(c)).done()); return; }
      }
  }

  double solid_angle(const P3 &a, const P3 &b, const P3 &c)
  {
    // Van Oosterom & Strackee, unit vectors
    const double det = a.x*(b.y*c.z - b.z*c.y) - a.y*(b.x*c.z - b.z*c.x) + a.z*(b.x*c.y - b.y*c.x);
    const double den = 1 + (a.x*b.x + a.y*b.y + a.z*b.z) + (b.x*c.x + b.y*c.y + b.z*c.z) + (c.x*a.x + c.y*a.y + c.z*a.z);
    return 2 * std::atan2(det, den);
  }

  void check_sphere_mesh(const Captured &m, const GCfg &c, const Reporter &fail)
  {
    const size_t np = m.points.size() / 3, nc = m.types.size();
    const size_t F = 12ull * c.nx * c.nx, V = F + 2;
    if (nc != F * c.nz) { fail("mesh/cell-count", "number of cells differs from 12 blocks x n_cell_x^2 x n_cell_z", JObj().integer("found", static_cast<long long>(nc)).integer("expected", static_cast<long long>(F * c.nz)).done()); return; }
    if (np != V * (c.nz + 1)) { fail("mesh/node-count", "number of nodes differs from (12 n^2 + 2) x (n_cell_z + 1) of a closed shell mesh", JObj().integer("found", static_cast<long long>(np)).integer("expected", static_cast<long long>(V * (c.nz + 1))).done()); return; }
    const double dr = (c.z1 - c.z0) / c.nz;
    std::vector<long> shell(np);
    std::vector<P3> dir(np);
    std::vector<size_t> per_shell(c.nz + 1, 0);
    std::map<std::array<long long,3>, long> dir_id;
    std::vector<long> did(np);
    for (size_t i = 0; i < np; ++i)
      {
        const P3 p = node(m, i);
        const double r = std::sqrt(p.x*p.x + p.y*p.y + p.z*p.z);
        const long k = std::lround((r - c.z0) / dr);
        if (k < 0 || k > static_cast<long>(c.nz) || std::fabs(r - (c.z0 + k * dr)) > 1e-6)
          { fail("mesh/node-outside-requested-region", "a node is not on one of the requested radial levels", JObj().integer("node", static_cast<long long>(i)).raw("position", jp(p)).num("radius", r).done()); return; }
        shell[i] = k;
        ++per_shell[static_cast<size_t>(k)];
        dir[i] = {p.x / r, p.y / r, p.z / r};
        const std::array<long long,3> q = {{std::llround(dir[i].x * 1e7), std::llround(dir[i].y * 1e7), std::llround(dir[i].z * 1e7)}};
        auto it = dir_id.find(q);
        if (it == dir_id.end()) it = dir_id.emplace(q, static_cast<long>(dir_id.size())).first;
        did[i] = it->second;
      }
    for (size_t k = 0; k <= c.nz; ++k) if (per_shell[k] != V) { fail("mesh/node-count-per-level", "a radial level does not carry 12 n^2 + 2 nodes", JObj().integer("level", static_cast<long long>(k)).integer("found", static_cast<long long>(per_shell[k])).done()); return; }
    // cells: bottom face on level k, top face on level k+1, node t+4 radially above node t; every layer is a closed surface of the sphere
    std::vector<std::map<std::pair<long,long>, int>> edges(c.nz);
    std::vector<std::set<long>> verts(c.nz);
    std::vector<double> area(c.nz, 0.0);
    std::vector<size_t> faces(c.nz, 0);
    for (size_t ci = 0; ci < nc; ++ci)
      {
        const long long *n = &m.conn[ci*8];
        const long k = shell[static_cast<size_t>(n[0])];
        bool ok = k < static_cast<long>(c.nz);
        for (int t = 0; t < 4 && ok; ++t)
          ok = shell[static_cast<size_t>(n[t])] == k && shell[static_cast<size_t>(n[t+4])] == k + 1 && did[static_cast<size_t>(n[t])] == did[static_cast<size_t>(n[t+4])];
        if (!ok) { fail("mesh/cell-is-not-a-radial-prism", "a cell is not a quad on one radial level extruded to the next level", JObj().integer("cell", static_cast<long long>(ci)).done()); return; }
        const size_t kk = static_cast<size_t>(k);
        ++faces[kk];
        for (int t = 0; t < 4; ++t)
          {
            const long a = did[static_cast<size_t>(n[t])], b = did[static_cast<size_t>(n[(t+1)%4])];
            verts[kk].insert(a);
            ++edges[kk][{std::min(a, b), std::max(a, b)}];
          }
        const double w = solid_angle(dir[static_cast<size_t>(n[0])], dir[static_cast<size_t>(n[1])], dir[static_cast<size_t>(n[2])]) + solid_angle(dir[static_cast<size_t>(n[0])], dir[static_cast<size_t>(n[2])], dir[static_cast<size_t>(n[3])]);
        if (!(std::fabs(w) > 1e-9)) { fail("mesh/degenerate-cell", "a cell has no area on the sphere", JObj().integer("cell", static_cast<long long>(ci)).done()); return; }
        area[kk] += std::fabs(w);
      }
    for (size_t k = 0; k < c.nz; ++k)
      {
        for (auto &e : edges[k]) if (e.second != 2) { fail("mesh/shell-not-closed", "an edge of the shell surface is not shared by exactly two cells", JObj().integer("layer", static_cast<long long>(k)).integer("sharing_cells", e.second).done()); return; }
        const long chi = static_cast<long>(verts[k].size()) - static_cast<long>(edges[k].size()) + static_cast<long>(faces[k]);
        if (faces[k] != F || chi != 2) { fail("mesh/shell-topology", "a layer of cells is not a closed sphere-like surface of 12 n^2 cells", JObj().integer("layer", static_cast<long long>(k)).integer("faces", static_cast<long long>(faces[k])).integer("euler_characteristic", chi).done()); return; }
        if (std::fabs(area[k] - 2 * TWO_PI) > 1e-6) { fail("mesh/shell-does-not-cover-the-sphere", "the cells of a layer do not add up to the full solid angle", JObj().integer("layer", static_cast<long long>(k)).num("solid_angle", area[k]).done()); return; }
      }
  }

  // depth and values at every node
  // full ball / full disc (inner radius 0): all nodes of the innermost level coincide in the centre, so the structural oracles do not apply;
  // what remains: finite positions, every node on one of the requested radial levels, the same number of nodes on every level
  void check_radial_levels(const Captured &m, const GCfg &c, const Reporter &fail)
  {
    const size_t np = m.points.size() / 3;
    std::vector<size_t> per(c.nz + 1, 0);
    const double dr = (c.z1 - c.z0) / c.nz;
    for (size_t i = 0; i < np; ++i)
      {
        const P3 p = node(m, i);
        const double r = std::sqrt(p.x*p.x + p.y*p.y + p.z*p.z);
        const long k = std::lround((r - c.z0) / dr);
        if (!std::isfinite(r) || k < 0 || k > static_cast<long>(c.nz) || std::fabs(r - (c.z0 + k*dr)) > 1e-9 * c.z1)
          { fail("mesh/node-not-on-a-requested-radial-level", "a node of a grid with inner radius 0 does not lie on one of the requested radial levels", JObj().integer("node", static_cast<long long>(i)).raw("position", jp(p)).done()); return; }
        ++per[static_cast<size_t>(k)];
      }
    for (size_t k = 1; k < per.size(); ++k)
      if (per[k] != per[0]) { fail("mesh/radial-levels-have-different-node-counts", "the radial levels of a grid with inner radius 0 do not have the same number of nodes", JObj().integer("level", static_cast<long long>(k)).integer("nodes", static_cast<long long>(per[k])).integer("nodes_on_level_0", static_cast<long long>(per[0])).done()); return; }
  }

  void check_values(const Captured &m, const GCfg &c, WorldBuilder::World &native, const Reporter &fail, Ctx &ctx, size_t &inside_nodes, const Captured *main_mesh = nullptr)
  {
    static const int c_vals = Ctx::counter_id("node_values_compared");
    const size_t np = m.points.size() / 3;
    for (size_t i = 0; i < np; ++i)
      {
        const P3 p = node(m, i);
        const double depth = m.data[0][i];
        double want_depth;
        if (c.type == 0) want_depth = c.z1 - (c.dim == 2 ? p.y : p.z);
        else want_depth = c.z1 - std::sqrt(p.x*p.x + p.y*p.y + p.z*p.z);
        if (!(std::fabs(depth - want_depth) <= 1e-6)) { fail("data/depth", "'Depth' is not the distance below the top of the grid", JObj().integer("node", static_cast<long long>(i)).raw("position", jp(p)).num("depth", depth).num("expected", want_depth).done()); return; }
        if (c.dim == 2 && p.z != 0) { fail("mesh/2d-third-coordinate", "third coordinate of a 2-D node is not zero", JObj().integer("node", static_cast<long long>(i)).done()); return; }
        std::vector<double> T, v, tag;
        if (c.dim == 2)
          {
            const std::array<double,2> q = {{p.x, p.y}};
            T = native.properties(q, depth, {{{1,0,0}}}); v = native.properties(q, depth, {{{5,0,0}}}); tag = native.properties(q, depth, {{{4,0,0}}});
          }
        else
          {
            const std::array<double,3> q = {{p.x, p.y, p.z}};
            T = native.properties(q, depth, {{{1,0,0}}}); v = native.properties(q, depth, {{{5,0,0}}}); tag = native.properties(q, depth, {{{4,0,0}}});
          }
        ctx.eval();
        ctx.count(c_vals, 5 + c.comps);
        if (tag[0] >= 0) ++inside_nodes;
        auto bad = [&](const std::string &what, double got, double want)
        { fail("data/" + what, "value stored at a node differs from World::properties at the node's position and depth", JObj().integer("node", static_cast<long long>(i)).raw("position", jp(p)).num("depth", depth).num("stored", got).num("library", want).done()); };
        if (!biteq(m.data[1][i], T[0])) { bad("temperature", m.data[1][i], T[0]); return; }
        for (size_t k = 0; k < 3; ++k) if (!biteq(m.data[2][3*i+k], v[k])) { bad("velocity", m.data[2][3*i+k], v[k]); return; }
        if (!biteq(m.data[3][i], tag[0])) { bad("tag", m.data[3][i], tag[0]); return; }
        for (unsigned k = 0; k < c.comps; ++k)
          {
            const double want = c.dim == 2 ? native.properties(std::array<double,2>{{p.x, p.y}}, depth, {{{2,k,0}}})[0] : native.properties(std::array<double,3>{{p.x, p.y, p.z}}, depth, {{{2,k,0}}})[0];
            if (!biteq(m.data[4+k][i], want)) { bad("composition", m.data[4+k][i], want); return; }
          }
      }
    (void)main_mesh;
  }

  // filtered / by-tag meshes against the main mesh
  void check_filtered(const Captured &main_mesh, const Captured &f, unsigned dim, const std::vector<bool> &include, const Reporter &fail)
  {
    const size_t vpc = dim == 2 ? 4 : 8;
    typedef std::array<double,3> K;
    std::map<K, size_t> main_node;
    for (size_t i = 0; i < main_mesh.points.size() / 3; ++i) main_node[ {{main_mesh.points[3*i], main_mesh.points[3*i+1], main_mesh.points[3*i+2]}}] = i;
    auto cell_key = [&](const Captured &m, size_t c)
    {
      std::vector<double> k;
      for (size_t t = 0; t < vpc; ++t) for (size_t a = 0; a < 3; ++a) k.push_back(m.points[3*static_cast<size_t>(m.conn[c*vpc+t])+a]);
      return k;
    };
    std::multiset<std::vector<double>> expected, found;
    for (size_t c = 0; c < main_mesh.types.size(); ++c)
      {
        int highest = -1;
        for (size_t t = 0; t < vpc; ++t) highest = std::max(highest, static_cast<int>(main_mesh.data[3][static_cast<size_t>(main_mesh.conn[c*vpc+t])]));
        if (highest >= 0 && static_cast<size_t>(highest) < include.size() && include[static_cast<size_t>(highest)]) expected.insert(cell_key(main_mesh, c));
      }
    for (size_t c = 0; c < f.types.size(); ++c) found.insert(cell_key(f, c));
    if (expected != found)
      {
        size_t missing = 0, extra = 0;
        for (auto &k : expected) if (!found.count(k)) ++missing;
        for (auto &k : found) if (!expected.count(k)) ++extra;
        fail(std::string("filter/") + (missing ? "selected-cell-missing" : extra ? "unselected-cell-present" : "cell-multiplicity"),
             "the filtered output does not contain exactly the cells whose highest node tag is selected",
             JObj().integer("expected_cells", static_cast<long long>(expected.size())).integer("found_cells", static_cast<long long>(found.size())).integer("missing", static_cast<long long>(missing)).integer("extra", static_cast<long long>(extra)).done());
        return;
      }
    std::set<K> seen;
    for (size_t i = 0; i < f.points.size() / 3; ++i)
      {
        const K k = {{f.points[3*i], f.points[3*i+1], f.points[3*i+2]}};
        if (!seen.insert(k).second) { fail("filter/duplicate-node", "the filtered output lists a node twice", JObj().integer("node", static_cast<long long>(i)).done()); return; }
        auto it = main_node.find(k);
        if (it == main_node.end()) { fail("filter/node-not-in-main-mesh", "a node of the filtered output does not exist in the main mesh", JObj().integer("node", static_cast<long long>(i)).done()); return; }
        for (size_t d = 0; d < f.data.size(); ++d)
          {
            const size_t comp = f.ncomp[d];
            for (size_t q = 0; q < comp; ++q)
              if (!biteq(f.data[d][i*comp+q], main_mesh.data[d][it->second*comp+q]))
                { fail("filter/node-value-changed/" + f.names[d].substr(0, f.names[d].find(' ')), "a node value in the filtered output differs from the main mesh", JObj().integer("node", static_cast<long long>(i)).str("data_set", f.names[d]).num("filtered", f.data[d][i*comp+q]).num("main", main_mesh.data[d][it->second*comp+q]).done()); return; }
          }
      }
  }

  // ---------- the written file (ASCII and the four binary formats) ----------
  struct XmlArray { std::map<std::string,std::string> attr; std::vector<std::string> tokens; std::string parent, raw; };
  struct Appended { bool present = false; std::string encoding, data; };   // data: everything after the '_' marker
  // minimal well-formedness check (tags balanced and properly nested, attributes name="value") + extraction of DataArray contents
  bool parse_vtu(const std::string &text_in, std::vector<XmlArray> &arrays, std::map<std::string,std::string> &piece, std::map<std::string,std::string> &root_attr, Appended &app, std::string &error)
  {
    // raw appended data may contain any byte: cut it out before the structure is parsed (it ends at the LAST closing tag of its element)
    std::string text = text_in;
    {
      const size_t a = text.find("<AppendedData");
      if (a != std::string::npos)
        {
          const size_t gt = text.find('>', a), us = text.find('_', gt == std::string::npos ? a : gt), end = text.rfind("</AppendedData>");
          if (gt == std::string::npos || us == std::string::npos || end == std::string::npos || end < us) { error = "malformed AppendedData element"; return false; }
          for (size_t q = gt + 1; q < us; ++q) if (!isspace(static_cast<unsigned char>(text[q]))) { error = "text before the _ marker of AppendedData"; return false; }
          app.present = true;
          app.data = text.substr(us + 1, end - us - 1);
          const std::string tag = text.substr(a, gt - a);
          const size_t e = tag.find("encoding=\"");
          if (e != std::string::npos) app.encoding = tag.substr(e + 10, tag.find('"', e + 10) - e - 10);
          text = text.substr(0, gt + 1) + text.substr(end);
        }
    }
    size_t p = 0;
    std::vector<std::string> stack;
    auto skip_ws = [&]() { while (p < text.size() && isspace(static_cast<unsigned char>(text[p]))) ++p; };
    skip_ws();
    if (text.compare(p, 5, "<?xml") == 0) { const size_t e = text.find("?>", p); if (e == std::string::npos) { error = "unterminated XML declaration"; return false; } p = e + 2; }
    else { error = "no XML declaration"; return false; }
    bool root_closed = false;
    while (true)
      {
        const size_t lt = text.find('<', p);
        const std::string chunk = text.substr(p, (lt == std::string::npos ? text.size() : lt) - p);
        if (!stack.empty() && stack.back() == "DataArray") { arrays.back().raw += chunk; std::istringstream b(chunk); std::string t; while (b >> t) arrays.back().tokens.push_back(t); }
        else for (char ch : chunk) if (!isspace(static_cast<unsigned char>(ch))) { error = "text outside a DataArray element"; return false; }
        if (lt == std::string::npos) break;
        if (root_closed) { error = "content after the root element"; return false; }
        const size_t gt = text.find('>', lt);
        if (gt == std::string::npos) { error = "unterminated tag"; return false; }
        std::string tag = text.substr(lt + 1, gt - lt - 1);
        p = gt + 1;
        if (tag.empty()) { error = "empty tag"; return false; }
        if (tag[0] == '/')
          {
            const std::string name = tag.substr(1);
            if (stack.empty() || stack.back() != name) { error = "closing tag </" + name + "> does not match"; return false; }
            stack.pop_back();
            if (stack.empty()) root_closed = true;
            continue;
          }
        const bool selfclose = tag.back() == '/';
        if (selfclose) tag.pop_back();
        size_t q = 0;
        while (q < tag.size() && !isspace(static_cast<unsigned char>(tag[q]))) ++q;
        const std::string name = tag.substr(0, q);
        for (char ch : name) if (!isalnum(static_cast<unsigned char>(ch)) && ch != '_') { error = "bad element name"; return false; }
        std::map<std::string,std::string> attr;
        while (true)
          {
            while (q < tag.size() && isspace(static_cast<unsigned char>(tag[q]))) ++q;
            if (q >= tag.size()) break;
            const size_t eq = tag.find('=', q);
            if (eq == std::string::npos || eq + 1 >= tag.size() || tag[eq+1] != '"') { error = "malformed attribute in <" + name + ">"; return false; }
            const size_t endq = tag.find('"', eq + 2);
            if (endq == std::string::npos) { error = "unterminated attribute value"; return false; }
            const std::string an = tag.substr(q, eq - q), av = tag.substr(eq + 2, endq - eq - 2);
            if (an.empty() || attr.count(an) || av.find('<') != std::string::npos || av.find('&') != std::string::npos) { error = "bad or duplicate attribute '" + an + "'"; return false; }
            attr[an] = av;
            q = endq + 1;
          }
        if (stack.empty() && name != "VTKFile") { error = "root element is not VTKFile"; return false; }
        if (stack.empty()) root_attr = attr;
        if (name == "Piece") piece = attr;
        if (name == "DataArray") { XmlArray a; a.attr = attr; a.parent = stack.empty() ? "" : stack.back(); arrays.push_back(a); }
        if (!selfclose) stack.push_back(name);
      }
    if (!stack.empty() || !root_closed) { error = "unclosed element"; return false; }
    return true;
  }

  bool b64_decode(const std::string &in, std::string &out)
  {
    static int T[256]; static bool init = false;
    if (!init) { for (int i = 0; i < 256; ++i) T[i] = -1; const char *A = "ABCDEFGHIJKLMNOPQRSTUVWXYZabcdefghijklmnopqrstuvwxyz0123456789+/"; for (int i = 0; i < 64; ++i) T[static_cast<unsigned char>(A[i])] = i; init = true; }
    if (in.size() % 4 != 0) return false;
    out.clear();
    for (size_t i = 0; i < in.size(); i += 4)
      {
        int v[4]; int pad = 0;
        for (int k = 0; k < 4; ++k)
          {
            const unsigned char ch = static_cast<unsigned char>(in[i+static_cast<size_t>(k)]);
            if (ch == '=') { v[k] = 0; ++pad; if (i + 4 != in.size() || k < 2) return false; }
            else { if (T[ch] < 0 || pad) return false; v[k] = T[ch]; }
          }
        const unsigned n = static_cast<unsigned>(v[0] << 18 | v[1] << 12 | v[2] << 6 | v[3]);
        out += static_cast<char>((n >> 16) & 255);
        if (pad < 2) out += static_cast<char>((n >> 8) & 255);
        if (pad < 1) out += static_cast<char>(n & 255);
      }
    return true;
  }
  uint64_t rd64(const std::string &b, size_t at) { uint64_t v = 0; std::memcpy(&v, b.data() + at, 8); return v; }

  // the raw bytes of one DataArray, read the way a VTK reader would (format / offset attributes, header_type UInt64)
  bool array_bytes(const XmlArray &a, const Appended &app, const std::map<std::string,std::string> &root, std::string &bytes, std::string &error)
  {
    const std::string format = a.attr.count("format") ? a.attr.at("format") : "";
    const bool compressed = root.count("compressor") > 0;
    if (root.count("header_type") == 0 || root.at("header_type") != "UInt64") { error = "header_type is not UInt64"; return false; }
    if (format == "binary")
      {
        // inline base64: an 8 byte length (encoded on its own: 12 characters) followed by the encoded data
        std::string t;
        for (char ch : a.raw) if (!isspace(static_cast<unsigned char>(ch))) t += ch;
        std::string h;
        if (t.size() < 12 || !b64_decode(t.substr(0, 12), h) || h.size() != 8) { error = "inline binary array without a valid length header"; return false; }
        const uint64_t n = rd64(h, 0);
        if (!b64_decode(t.substr(12), bytes) || bytes.size() != n) { error = "inline binary array: decoded length differs from its header"; return false; }
        return true;
      }
    if (format != "appended") { error = "unknown DataArray format '" + format + "'"; return false; }
    if (!app.present || a.attr.count("offset") == 0) { error = "appended array without AppendedData / offset"; return false; }
    const size_t off = static_cast<size_t>(strtoull(a.attr.at("offset").c_str(), nullptr, 10));
    if (app.encoding == "base64")
      {
        if (off + 12 > app.data.size()) { error = "offset beyond the appended data"; return false; }
        std::string h;
        if (!b64_decode(app.data.substr(off, 12), h) || h.size() < 8) { error = "appended base64 block without a valid header at its offset"; return false; }
        const uint64_t n = rd64(h, 0);
        const size_t enc = ((n + 8 + 2) / 3) * 4;
        std::string all;
        if (off + enc > app.data.size() || !b64_decode(app.data.substr(off, enc), all) || all.size() != n + 8) { error = "appended base64 block: cannot decode the announced number of bytes at the announced offset"; return false; }
        bytes = all.substr(8);
        return true;
      }
    if (app.encoding != "raw") { error = "unknown AppendedData encoding '" + app.encoding + "'"; return false; }
    if (!compressed)
      {
        if (off + 8 > app.data.size()) { error = "offset beyond the appended data"; return false; }
        const uint64_t n = rd64(app.data, off);
        if (off + 8 + n > app.data.size()) { error = "appended raw block longer than the file"; return false; }
        bytes = app.data.substr(off + 8, n);
        return true;
      }
    // vtkZLibDataCompressor: [#blocks][block size][last block size][compressed size per block] then the blocks
    if (off + 24 > app.data.size()) { error = "offset beyond the appended data"; return false; }
    const uint64_t nb = rd64(app.data, off), bs = rd64(app.data, off + 8), last = rd64(app.data, off + 16);
    if (nb > (1u << 20) || off + 24 + 8 * nb > app.data.size()) { error = "implausible block count in a compressed block header"; return false; }
    size_t at = off + 24 + 8 * nb;
    bytes.clear();
    for (uint64_t b = 0; b < nb; ++b)
      {
        const uint64_t cs = rd64(app.data, off + 24 + 8 * b);
        const uint64_t want = (b + 1 == nb && last != 0) ? last : bs;   // (a partial size of 0 announces that the last block is a full one: the convention of the VTK readers)
        if (at + cs > app.data.size()) { error = "compressed block longer than the file"; return false; }
        std::string blk(want, '\0');
        uLongf got = static_cast<uLongf>(want);
        if (uncompress(reinterpret_cast<Bytef *>(&blk[0]), &got, reinterpret_cast<const Bytef *>(app.data.data() + at), static_cast<uLong>(cs)) != Z_OK || got != want) { error = "zlib block does not inflate to the announced size"; return false; }
        bytes += blk;
        at += cs;
      }
    return true;
  }

  void check_file(const Captured &m, const std::string &path, const Reporter &fail, Ctx &ctx)
  {
    static const int c_tok = Ctx::counter_id("file_tokens_compared"), c_bin = Ctx::counter_id("binary_file_values_compared");
    std::ifstream f(path, std::ios::binary);
    if (!f) { fail("file/missing", "the output file was not written"); return; }
    std::stringstream ss; ss << f.rdbuf();
    const std::string text = ss.str();
    std::vector<XmlArray> arrays;
    std::map<std::string,std::string> piece, root;
    Appended app;
    std::string error;
    if (!parse_vtu(text, arrays, piece, root, app, error)) { fail("file/not-well-formed", "the VTU file is not well-formed XML: " + error); return; }
    const size_t np = m.points.size() / 3, nc = m.types.size();
    if (piece["NumberOfPoints"] != std::to_string(np) || piece["NumberOfCells"] != std::to_string(nc))
      { fail("file/piece-counts", "NumberOfPoints / NumberOfCells of the Piece element differ from the mesh", JObj().str("NumberOfPoints", piece["NumberOfPoints"]).str("NumberOfCells", piece["NumberOfCells"]).done()); return; }
    const bool ascii = m.mode == "ASCII";
    auto render = [](double v) { char b[64]; snprintf(b, sizeof b, "%.6g", v); return std::string(b); };
    std::set<std::string> seen_names;
    for (auto &a : arrays)
      {
        // what this array must hold: doubles, 64-bit integers or 8-bit cell types
        const std::vector<double> *dd = nullptr; const std::vector<long long> *ii = nullptr; const std::vector<int> *tt = nullptr;
        const std::string name = a.attr.count("Name") ? a.attr["Name"] : "";
        std::string label = name;
        if (a.parent == "Points") { dd = &m.points; label = "Points"; if (a.attr["NumberOfComponents"] != "3") { fail("file/points-components", "Points array does not declare 3 components"); return; } }
        else if (a.parent == "Cells" && name == "connectivity") ii = &m.conn;
        else if (a.parent == "Cells" && name == "offsets") ii = &m.offsets;
        else if (a.parent == "Cells" && name == "types") tt = &m.types;
        else if (a.parent == "PointData")
          {
            size_t d = 0;
            while (d < m.names.size() && m.names[d] != name) ++d;
            if (d == m.names.size()) { fail("file/unknown-data-array", "the file contains a data array that was not requested: " + name); return; }
            dd = &m.data[d];
            if ((m.ncomp[d] > 1) != (a.attr.count("NumberOfComponents") == 1) || (m.ncomp[d] > 1 && a.attr["NumberOfComponents"] != std::to_string(m.ncomp[d])))
              { fail("file/components", "NumberOfComponents of a data array is wrong: " + name); return; }
          }
        else { fail("file/unexpected-array", "unexpected DataArray '" + name + "' under " + a.parent); return; }
        const std::string want_type = dd ? "Float64" : ii ? "Int64" : "Int8";
        if (a.attr["type"] != want_type) { fail("file/array-type", "DataArray '" + label + "' declares type " + a.attr["type"] + " instead of " + want_type); return; }
        seen_names.insert(a.parent + "/" + label);
        const std::string lab = label.substr(0, label.find(' '));
        if (ascii)
          {
            if (a.attr["format"] != "ascii") { fail("file/format", "ASCII output requested but a data array has format " + a.attr["format"]); return; }
            std::vector<std::string> want;
            if (dd) for (double v : *dd) want.push_back(render(v));
            if (ii) for (auto v : *ii) want.push_back(std::to_string(v));
            if (tt) for (auto v : *tt) want.push_back(std::to_string(v));
            ctx.count(c_tok, want.size());
            if (a.tokens != want)
              {
                size_t k = 0;
                while (k < want.size() && k < a.tokens.size() && want[k] == a.tokens[k]) ++k;
                fail("file/array-content/" + lab, "the numbers written to the file are not the rendering of the arrays handed to the writer",
                     JObj().str("array", label).integer("tokens_in_file", static_cast<long long>(a.tokens.size())).integer("expected_tokens", static_cast<long long>(want.size())).integer("first_difference", static_cast<long long>(k)).done());
                return;
              }
          }
        else
          {
            if (a.attr["format"] == "ascii") { fail("file/format", std::string("binary output (") + m.mode + ") requested but a data array is ascii"); return; }
            std::string bytes, err;
            if (!array_bytes(a, app, root, bytes, err)) { fail("file/binary-array-unreadable/" + lab, "a reader following the format / offset / header attributes cannot recover the array: " + err, JObj().str("array", label).str("format", m.mode).done()); return; }
            std::string want;
            if (dd) want.assign(reinterpret_cast<const char *>(dd->data()), dd->size() * 8);
            if (ii) want.assign(reinterpret_cast<const char *>(ii->data()), ii->size() * 8);
            if (tt) for (int v : *tt) want += static_cast<char>(v);
            ctx.count(c_bin, dd ? dd->size() : ii ? ii->size() : tt->size());
            if (bytes != want)
              { fail("file/binary-array-content/" + lab, "the bytes recovered from the file are not the array handed to the writer", JObj().str("array", label).str("format", m.mode).integer("bytes_in_file", static_cast<long long>(bytes.size())).integer("expected_bytes", static_cast<long long>(want.size())).done()); return; }
          }
      }
    if (seen_names.size() != 4 + m.names.size()) { fail("file/missing-array", "the file lacks one of Points / connectivity / offsets / types / the requested point data arrays", JObj().integer("arrays_found", static_cast<long long>(seen_names.size())).done()); return; }
  }

  // ---------- one configuration ----------
  void run_case(const std::vector<GCfg> &cfgs, uint64_t idx, Ctx &ctx)
  {
    static const int c_nodes = Ctx::counter_id("nodes_checked"), c_cells = Ctx::counter_id("cells_checked"), c_inside = Ctx::counter_id("nodes_inside_features"), c_filt = Ctx::counter_id("filtered_meshes_checked"), c_fcells = Ctx::counter_id("filtered_cells");
    const GCfg &c = cfgs[idx];
    const worlds::Opt o = world_opt(c);
    const std::string wbtext = worlds::rich(o);
    const std::string cwd = G().rundir + "/cwd" + std::to_string(G().shard_id);
    (void)!system(("rm -rf " + cwd + " && mkdir -p " + cwd).c_str());
    if (chdir(cwd.c_str()) != 0) { perror("chdir"); _exit(3); }
    const std::string wb = cwd + "/case.wb", gridp = cwd + "/case.grid";
    { std::ofstream f(wb); f << wbtext; }
    const std::string gridtext = grid_file(c);
    { std::ofstream f(gridp); f << gridtext; }
    std::vector<std::string> args;
    // options before, between and after the file names would all be legal; the documented form puts them first
    if (c.threads != 1 || idx % 2 == 0) { args.push_back("-j"); args.push_back(std::to_string(c.threads)); }
    if (c.mode & 1) args.push_back("--filtered");
    if (c.mode & 2) args.push_back("--by-tag");
    if (c.limit) { args.push_back("--resolution-limit"); args.push_back(std::to_string(c.limit)); }
    args.push_back(wb); args.push_back(gridp);
    Reporter fail{ctx, c, wbtext, gridtext, ""};
    const GridRun r = run_grid(args);
    if (chdir("/verif") != 0) _exit(3);
    if (r.threw || r.rc != 0) { fail("run/valid-grid-file-refused", "gwb-grid did not finish on a valid grid file: " + (r.threw ? r.what.substr(0, 400) : "exit status " + std::to_string(r.rc))); return; }
    WorldBuilder::World native(wb);
    // which files are expected
    std::vector<std::pair<std::string, std::vector<bool>>> expected_files;   // name, include-tag rule (empty: main mesh)
    expected_files.push_back({"case.vtu", {}});
    if (c.mode & 1)
      {
        std::vector<bool> inc(native.feature_tags.size(), true);
        for (size_t t = 0; t < inc.size(); ++t) if (native.feature_tags[t] == "mantle layer") inc[t] = false;
        expected_files.push_back({"case.filtered.vtu", inc});
      }
    if (c.mode & 2)
      for (size_t t = 0; t < native.feature_tags.size(); ++t)
        {
          if (native.feature_tags[t] == "mantle layer") continue;
          std::vector<bool> inc(native.feature_tags.size(), false);
          inc[t] = true;
          expected_files.push_back({"case." + std::to_string(t) + ".vtu", inc});
        }
    if (r.cap.size() != expected_files.size())
      { fail("run/number-of-output-files", "unexpected number of output files", JObj().integer("written", static_cast<long long>(r.cap.size())).integer("expected", static_cast<long long>(expected_files.size())).done()); return; }
    for (size_t k = 0; k < expected_files.size(); ++k)
      if (r.cap[k].filename != expected_files[k].first) { fail("run/output-file-name", "unexpected output file name " + r.cap[k].filename + " (expected " + expected_files[k].first + ")"); return; }
    const Captured &m = r.cap[0];
    fail.file = m.filename;
    if (!check_structure(m, c.dim, c.comps, false, fail)) return;
    ctx.count(c_nodes, m.points.size() / 3);
    ctx.count(c_cells, m.types.size());
    // requested mesh
    const int before = ctx.nviol + static_cast<int>(ctx.replay_violations.size());
    if (c.type == 0)
      {
        Lattice L;
        L.d = c.dim; L.n[0] = c.nx + 1; L.n[1] = c.dim == 3 ? c.ny + 1 : 1; L.n[2] = c.nz + 1;
        const double dx = (c.x1 - c.x0) / c.nx, dy = c.dim == 3 ? (c.y1 - c.y0) / c.ny : 1, dz = (c.z1 - c.z0) / c.nz;
        L.tol = 1e-9 * std::max(std::fabs(c.x1 - c.x0), std::fabs(c.z1));
        const GCfg cc = c;
        L.index = [cc, dx, dy, dz](const P3 &p, long (&t)[3]) { t[0] = std::lround((p.x - cc.x0) / dx); t[1] = cc.dim == 3 ? std::lround((p.y - cc.y0) / dy) : 0; t[2] = std::lround(((cc.dim == 3 ? p.z : p.y) - cc.z0) / dz); return true; };
        L.position = [cc, dx, dy, dz](const long (&t)[3]) { return cc.dim == 3 ? P3{cc.x0 + t[0]*dx, cc.y0 + t[1]*dy, cc.z0 + t[2]*dz} : P3{cc.x0 + t[0]*dx, cc.z0 + t[2]*dz, 0.0}; };
        check_lattice_mesh(m, L, fail);
      }
    else if (c.type == 1)
      {
        Lattice L;
        L.d = c.dim; L.n[0] = c.nx + 1; L.n[1] = c.dim == 3 ? c.ny + 1 : 1; L.n[2] = c.nz + 1;
        const double d2r = TWO_PI / 360.0;
        const double l0 = c.x0 * d2r, dl = (c.x1 - c.x0) * d2r / c.nx, b0 = c.y0 * d2r, db = c.dim == 3 ? (c.y1 - c.y0) * d2r / c.ny : 1, dr = (c.z1 - c.z0) / c.nz;
        L.tol = 1e-9 * c.z1;
        const GCfg cc = c;
        L.index = [cc, l0, dl, b0, db, dr](const P3 &p, long (&t)[3])
        {
          double r, lon, lat = 0;
          if (cc.dim == 3) { r = std::sqrt(p.x*p.x + p.y*p.y + p.z*p.z); lon = std::atan2(p.y, p.x); lat = std::asin(p.z / r); }
          else { r = std::sqrt(p.x*p.x + p.y*p.y); lon = std::atan2(p.y, p.x); }
          while (lon < l0 - 0.5 * dl) lon += TWO_PI;
          while (lon > l0 + (cc.nx + 0.5) * dl + 1e-9 && lon - TWO_PI >= l0 - 0.5 * dl) lon -= TWO_PI;
          t[0] = std::lround((lon - l0) / dl); t[1] = cc.dim == 3 ? std::lround((lat - b0) / db) : 0; t[2] = std::lround((r - cc.z0) / dr);
          return true;
        };
        L.position = [cc, l0, dl, b0, db, dr](const long (&t)[3])
        {
          const double lon = l0 + t[0]*dl, lat = b0 + t[1]*db, r = cc.z0 + t[2]*dr;
          return cc.dim == 3 ? P3{r*std::cos(lat)*std::cos(lon), r*std::cos(lat)*std::sin(lon), r*std::sin(lat)} : P3{r*std::cos(lon), r*std::sin(lon), 0.0};
        };
        check_lattice_mesh(m, L, fail);
      }
    else if (c.type == 2)
      {
        const size_t np = m.points.size() / 3;
        if (np % (c.nz + 1) != 0) { fail("mesh/node-count", "number of nodes is not a multiple of the number of radial levels"); return; }
        if (c.z0 == 0) { check_radial_levels(m, c, fail); goto mesh_done; }
        const long nt = static_cast<long>(np / (c.nz + 1));
        const double dr = (c.z1 - c.z0) / c.nz;
        // cells as square as the radial spacing allows at the outer radius
        if (std::fabs(static_cast<double>(nt) - TWO_PI * c.z1 / dr) > 1.0 || nt < 3) { fail("mesh/annulus-tangential-count", "the number of cells around the annulus does not match the radial spacing", JObj().integer("around", nt).num("circumference_over_dr", TWO_PI * c.z1 / dr).done()); return; }
        Lattice L;
        L.d = 2; L.n[0] = nt; L.n[1] = 1; L.n[2] = c.nz + 1; L.wrap0 = true;
        L.tol = 1e-9 * c.z1;
        const GCfg cc = c;
        L.index = [cc, nt, dr](const P3 &p, long (&t)[3])
        {
          const double r = std::sqrt(p.x*p.x + p.y*p.y);
          double th = std::atan2(p.y, p.x);
          if (th < -0.5 * TWO_PI / nt) th += TWO_PI;
          t[0] = std::lround(th / (TWO_PI / nt)) % nt; t[1] = 0; t[2] = std::lround((r - cc.z0) / dr);
          return true;
        };
        L.position = [cc, nt, dr](const long (&t)[3]) { const double th = TWO_PI * t[0] / nt, r = cc.z0 + t[2]*dr; return P3{r*std::cos(th), r*std::sin(th), 0.0}; };
        check_lattice_mesh(m, L, fail);
      }
    else if (c.z0 == 0) check_radial_levels(m, c, fail);
    else check_sphere_mesh(m, c, fail);
mesh_done:
    if (ctx.nviol + static_cast<int>(ctx.replay_violations.size()) != before) return;
    size_t inside = 0;
    check_values(m, c, native, fail, ctx, inside);
    ctx.count(c_inside, inside);
    if (inside > 0) ctx.nontrivial();
    check_file(m, cwd + "/" + m.filename, fail, ctx);
    for (size_t k = 1; k < r.cap.size(); ++k)
      {
        fail.file = r.cap[k].filename;
        if (!check_structure(r.cap[k], c.dim, c.comps, true, fail)) continue;
        ctx.count(c_filt);
        ctx.count(c_fcells, r.cap[k].types.size());
        check_filtered(m, r.cap[k], c.dim, expected_files[k].second, fail);
        check_file(r.cap[k], cwd + "/" + r.cap[k].filename, fail, ctx);
      }
    if (idx % 60 == 5) ctx.sample(JObj().raw("config", describe(c)).integer("nodes", static_cast<long long>(m.points.size() / 3)).integer("cells", static_cast<long long>(m.types.size())).integer("nodes_inside_features", static_cast<long long>(inside)).integer("files", static_cast<long long>(r.cap.size())).done());
  }
}

int main(int argc, char **argv)
{
  Spec spec;
  spec.property = "C18";
  spec.level = "exploration";
  spec.rule = "full product of grid type x dim x cell counts (n_cell_x, n_cell_y, n_cell_z each in 1..3|5) x 2 bound sets x 2 worlds, with compositions {0,2,4}, threads {1,2,3} and output mode "
              "{plain, --filtered, --by-tag, both} and output format assigned round-robin (quick) or all four modes x all five formats per tuple (thorough), plus finer grids and grids with 1331 / 4913 / 4615 nodes (thread counts 2..16, all five formats; arrays spanning several compression blocks, and arrays of exactly one or several whole blocks: 4096 nodes, 512 hexahedra) the option --resolution-limit {1,2,3,5,100} on every grid type, the settings of the grid file in three other orders, a full ball and a full disc (inner radius 0); one in-process run of the real gwb-grid main() per "
              "configuration. non-trivial: at least one node lies inside a feature (tag >= 0)";
  spec.assumptions = {"the arrays are captured at the call of vtu11::writeVtu (full precision); the written file is parsed back: ASCII files are compared with the %.6g rendering of the arrays, Base64Inline / Base64Appended / RawBinary / RawBinaryCompressed files are decoded the way a VTK reader does (format, offset and header attributes, zlib blocks) and compared byte for byte",
                      "requested mesh: cartesian and chunk grids must be exactly the (n+1)-point lattice between the bounds (chunk: longitude, latitude, radius mapped to cartesian), cells the lattice cells in valid VTK node order; "
                      "annulus: closed ring lattice whose tangential count matches the radial spacing; sphere: per radial level a closed surface of 12 n^2 quads (every edge shared by two cells, Euler characteristic 2, total solid angle 4 pi) extruded radially",
                      "tag rule of --filtered / --by-tag: a cell is kept iff the highest tag among its nodes is selected (--filtered: every tag except 'mantle layer'; --by-tag N: tag N), as implemented and described by the tool's help text",
                      "node values are compared bit-for-bit with single-property World::properties calls on a native world built from the same file"
                     };
  spec.counters = {"nodes_checked", "cells_checked", "nodes_inside_features", "node_values_compared", "filtered_meshes_checked", "filtered_cells", "file_tokens_compared", "binary_file_values_compared"};
  spec.quick_deadline_s = 240;
  spec.thorough_deadline_s = 1200;
  return driver(argc, argv, spec, [](const std::string &tier)
  {
    static std::vector<GCfg> cfgs;
    cfgs = configs(tier == "thorough");
    std::vector<Suite> s(1);
    s[0].name = "grids";
    s[0].n = cfgs.size();
    s[0].run = [](uint64_t i, Ctx &c) { run_case(cfgs, i, c); };
    s[0].bound = std::to_string(cfgs.size()) + " grid files: {cartesian 2-D/3-D, chunk 2-D/3-D (one across the +-180 meridian), annulus, sphere} x cell counts 1.." + (tier == "thorough" ? "5" : "3") + " per axis x 2 bound sets x 2 worlds";
    s[0].describe = [](uint64_t i) { return describe(cfgs[i]); };
    return s;
  });
}
