// VARIANTS: rel
// C02 - features paint in file order; only covering features matter; operations compose.
// All ordered feature lists (with repetition) up to a bound x all mode assignments, compared with a
// reference fold written from the documentation.
#include "kit.h"
#include "wbgen.h"
using namespace kit;
using namespace wbgen;
using WorldBuilder::World;

namespace
{
  const int NT = 6;   // feature templates
  const char *TYPE[NT] = {"continental plate", "oceanic plate", "mantle layer", "plume", "subducting plate", "fault"};
  // modes: which models a feature carries and with which operation
  // RDOZ / ADDZ: as RDO / ADD, and the composition model lists one more composition with an explicit fraction of 0
  // ('replace defined only' then overwrites that composition with 0, 'add' leaves it as it is)
  // CHAIN: two models of each kind inside one feature: [replace, then add 50 K] and [replace the listed compositions, then add 0.125 to one more]
  enum Mode { REPLACE, RDO, ADD, SUB, NOMODELS, TONLY, RDOZ, ADDZ, CHAIN, NMODES };
  const char *MODEN[NMODES] = {"replace", "replace defined only", "add", "subtract", "no models", "temperature model only", "replace defined only + a composition listed with fraction 0", "add + a composition listed with fraction 0", "two chained models per kind (replace, then add)"};
  // per template: temperature value, listed compositions + fractions, grains composition
  const double TVAL[NT] = {400, 500, 600, 700, 800, 900};
  const std::vector<unsigned> COMPS[NT] = {{0}, {1}, {0,1}, {1}, {0}, {1}};
  const std::vector<double> FRACS[NT] = {{1.0}, {0.5}, {0.25,0.75}, {1.0}, {0.125}, {2.0}};
  const unsigned ZCOMP[NT] = {1, 0, 2, 0, 1, 0};   // the composition listed with fraction 0 in the RDOZ / ADDZ modes
  std::vector<unsigned> comps_of(int t, int m) { std::vector<unsigned> c = COMPS[t]; if (m == RDOZ || m == ADDZ) c.push_back(ZCOMP[t]); return c; }
  std::vector<double> fracs_of(int t, int m) { std::vector<double> f = FRACS[t]; if (m == RDOZ || m == ADDZ) f.push_back(0.0); return f; }
  bool is_add(int m) { return m == ADD || m == ADDZ; }
  const unsigned GCOMP[NT] = {0, 1, 0, 1, 0, 1};
  // exact proper rotations (quarter turns)
  const double ROT[NT][9] =
  {
    {0,-1,0, 1,0,0, 0,0,1}, {1,0,0, 0,0,-1, 0,1,0}, {0,0,1, 0,1,0, -1,0,0},
    {-1,0,0, 0,-1,0, 0,0,1}, {0,1,0, -1,0,0, 0,0,1}, {1,0,0, 0,-1,0, 0,0,-1}
  };
  const double GSIZE[NT] = {0.5, -1, 0.25, 2.0, -1, 0.75};

  std::string feature(int t, int m, bool sph, const std::string &name)
  {
    const double s = sph ? 1.0 : 1e5;
    auto sq = [&](double x0, double x1, double y0, double y1)
    { return pts({{x0*s,y0*s},{x1*s,y0*s},{x1*s,y1*s},{x0*s,y1*s}}); };
    const std::string op = (m == RDO || m == RDOZ) ? "replace defined only" : is_add(m) ? "add" : m == SUB ? "subtract" : "replace";
    const std::string top = is_add(m) ? "add" : m == SUB ? "subtract" : "replace";
    std::string models;
    if (m != NOMODELS)
      {
        models += ",\"temperature models\":[{\"model\":\"uniform\",\"temperature\":" + num(TVAL[t]) + ",\"operation\":\"" + top + "\"}" + (m == CHAIN ? ",{\"model\":\"uniform\",\"temperature\":50,\"operation\":\"add\"}" : "") + "]";
        if (m != TONLY)
          {
            models += ",\"composition models\":[{\"model\":\"uniform\",\"compositions\":" + ints(comps_of(t, m)) + ",\"fractions\":" + nums(fracs_of(t, m)) + ",\"operation\":\"" + op + "\"}" + (m == CHAIN ? ",{\"model\":\"uniform\",\"compositions\":[" + std::to_string(ZCOMP[t]) + "],\"fractions\":[0.125],\"operation\":\"add\"}" : "") + "]";
            std::string r = "[[";
            for (int i = 0; i < 3; ++i) r += std::string(i ? "," : "") + "[" + num(ROT[t][3*i]) + "," + num(ROT[t][3*i+1]) + "," + num(ROT[t][3*i+2]) + "]";
            models += ",\"grains models\":[{\"model\":\"uniform\",\"compositions\":[" + std::to_string(GCOMP[t]) + "],\"rotation matrices\":" + r + "]],\"grain sizes\":[" + num(GSIZE[t]) + "]}]";
          }
      }
    std::string f = "{\"model\":\"" + std::string(TYPE[t]) + "\",\"name\":" + jstr(name);
    switch (t)
      {
        case 0: f += ",\"max depth\":2e5,\"coordinates\":" + sq(0,2,0,4); break;
        case 1: f += ",\"max depth\":1e5,\"coordinates\":" + sq(1,3,0,4); break;
        case 2: f += ",\"min depth\":1e5,\"max depth\":3e5,\"coordinates\":" + sq(0,4,1,3); break;
        case 3: f += ",\"min depth\":0,\"max depth\":2.2e5,\"coordinates\":[" + pt({2*s,2*s}) + "," + pt({2*s,2*s}) + "],\"cross section depths\":[5e4,2e5],\"semi-major axis\":[" + num(1.2*s) + "," + num(1.2*s) + "],\"eccentricity\":[0,0],\"rotation angles\":[0,0]"; break;
        case 4: f += ",\"coordinates\":[" + pt({1*s,-1*s}) + "," + pt({1*s,5*s}) + "],\"dip point\":" + pt({9*s,2*s}) + ",\"segments\":[{\"length\":3e5,\"thickness\":[1e5],\"angle\":[45]}]"; break;
        case 5: f += ",\"coordinates\":[" + pt({-1*s,2*s}) + "," + pt({5*s,2*s}) + "],\"dip point\":" + pt({2*s,9*s}) + ",\"segments\":[{\"length\":2e5,\"thickness\":[1e5],\"angle\":[90]}]"; break;
      }
    return f + models + "}";
  }

  struct Pt { P3 p; double depth; };
  std::vector<Pt> points(bool sph)
  {
    const double s = sph ? 1.0 : 1e5;
    std::vector<Pt> v;
    for (double x : {0.5, 1.5, 2.5, 3.5}) for (double y : {0.5, 1.5, 2.5, 3.5}) for (double d : {5e4, 1.5e5, 2.5e5})
          v.push_back({query_point(sph, x*s, y*s, d), d});
    v.push_back({query_point(sph, 7*s, 7*s, 1e5), 1e5});   // outside everything
    return v;
  }
  const Request REQ = {{{1,0,0}},{{2,0,0}},{{2,1,0}},{{2,2,0}},{{3,0,2}},{{3,1,2}},{{4,0,0}}};
  const size_t NOUT = 1+3+20+20+1;

  struct Tables
  {
    bool ready = false;
    std::vector<Pt> pts;
    std::vector<std::array<bool,NT>> member;    // [point][template]
    std::vector<double> background_T;
  };
  Tables &tables(bool sph)
  {
    static Tables T[2];
    Tables &t = T[sph];
    if (t.ready) return t;
    t.pts = points(sph);
    t.member.resize(t.pts.size());
    for (int k = 0; k < NT; ++k)
      {
        auto w = make_world(world(coord(sph), {feature(k, NOMODELS, sph, "f")}), 1, "m");
        for (size_t i = 0; i < t.pts.size(); ++i)
          t.member[i][k] = w->properties(t.pts[i].p, t.pts[i].depth, {{{4,0,0}}})[0] != -1;
      }
    auto w = make_world(world(coord(sph), {}), 1, "m");
    for (auto &p : t.pts) t.background_T.push_back(w->temperature(p.p, p.depth));
    t.ready = true;
    return t;
  }

  // decode a case: n features, each (template, mode)
  struct Case { bool sph; std::vector<int> t, m; };

  void run_case(const Case &c, uint64_t idx, Ctx &ctx)
  {
    static const int c_cov = Ctx::counter_id("point_feature_coverings"), c_pts = Ctx::counter_id("points_compared"), c_multi = Ctx::counter_id("points_covered_by_2_or_more");
    static const int c_member0 = Ctx::counter_id("coverings_by_continental_plate");
    Tables &T = tables(c.sph);
    std::vector<std::string> feats;
    for (size_t i = 0; i < c.t.size(); ++i) feats.push_back(feature(c.t[i], c.m[i], c.sph, "f" + std::to_string(i)));
    const std::string text = world(coord(c.sph), feats);
    auto w = make_world(text);
    bool nontrivial = false;
    std::string cdesc;
    for (size_t i = 0; i < c.t.size(); ++i) cdesc += std::string(i ? " ; " : "") + TYPE[c.t[i]] + " [" + MODEN[c.m[i]] + "]";
    for (size_t ip = 0; ip < T.pts.size(); ++ip)
      {
        // ---- reference fold ----
        std::vector<double> ref(NOUT, 0.0);
        ref[0] = T.background_T[ip];
        ref[NOUT-1] = -1;
        std::string lasttag = "";
        int ncover = 0;
        bool grains_via_line_feature = false;
        for (size_t i = 0; i < c.t.size(); ++i)
          {
            const int t = c.t[i], m = c.m[i];
            if (!T.member[ip][t]) continue;
            ++ncover;
            ctx.count(c_cov);
            ctx.count(c_member0 + t);
            lasttag = TYPE[t];
            if (t >= 4) grains_via_line_feature = true;
            if (m == NOMODELS) continue;
            ref[0] = is_add(m) ? ref[0] + TVAL[t] : m == SUB ? ref[0] - TVAL[t] : TVAL[t];
            if (m == CHAIN) ref[0] += 50;
            if (m == TONLY) continue;
            for (unsigned comp = 0; comp < 3; ++comp)
              {
                bool listed = false;
                const std::vector<unsigned> cl = comps_of(t, m);
                const std::vector<double> fl = fracs_of(t, m);
                for (size_t k = 0; k < cl.size(); ++k)
                  if (cl[k] == comp)
                    {
                      listed = true;
                      const double fr = fl[k];
                      ref[1+comp] = is_add(m) ? ref[1+comp] + fr : m == SUB ? ref[1+comp] - fr : fr;
                    }
                if (!listed && (m == REPLACE || m == CHAIN)) ref[1+comp] = 0.0;
                if (m == CHAIN && comp == ZCOMP[t]) ref[1+comp] += 0.125;
              }
            // grains: request slots 4..23 (composition 0, 2 grains), 24..43 (composition 1, 2 grains)
            const size_t base = 4 + 20*GCOMP[t];
            const double size = GSIZE[t] < 0 ? 0.5 : GSIZE[t];
            ref[base] = ref[base+1] = size;
            for (int g = 0; g < 2; ++g) for (int k = 0; k < 9; ++k) ref[base+2+9*g+k] = ROT[t][k];
          }
        const std::vector<double> out = w->properties(T.pts[ip].p, T.pts[ip].depth, REQ);
        ctx.eval();
        ctx.count(c_pts);
        if (ncover >= 2) { ctx.count(c_multi); nontrivial = true; }
        auto fail = [&](const std::string &sig, const std::string &what, size_t slot)
        {
          ctx.violation(sig, JObj().str("what", what).str("features", cdesc).boolean("spherical", c.sph).raw("point", jarr(T.pts[ip].p)).num("depth", T.pts[ip].depth)
                        .integer("slot", static_cast<long long>(slot)).raw("request", jreq(REQ)).raw("expected", jarr(ref)).raw("observed", jarr(out)).str("world", text).done());
        };
        if (out.size() != NOUT) { fail("C02/size", "wrong output size", 0); continue; }
        // which feature types cover this point, in file order (for the signature)
        std::string cover, line_cover;
        for (size_t i = 0; i < c.t.size(); ++i)
          if (T.member[ip][c.t[i]])
            {
              cover += std::string(cover.empty() ? "" : "+") + TYPE[c.t[i]];
              if (c.t[i] >= 4 && line_cover.find(TYPE[c.t[i]]) == std::string::npos) line_cover += std::string(line_cover.empty() ? "" : "+") + TYPE[c.t[i]];
            }
        if (cover.empty()) cover = "none";
        if (!biteq(out[0], ref[0])) fail("C02/temperature/covering=" + cover, "temperature differs from the reference fold", 0);
        for (size_t k = 1; k <= 3; ++k) if (!biteq(out[k], ref[k])) { fail("C02/composition/covering=" + cover, "composition differs from the reference fold", k); break; }
        {
          // grains: compare per grain (size + 3x3 matrix); classify the one known pattern precisely
          size_t first_bad = 0;
          bool any_bad = false, all_bad_are_zero_to_identity = true;
          for (size_t blk = 0; blk < 2; ++blk) for (size_t g = 0; g < 2; ++g)
              {
                const size_t b = 4 + 20*blk;
                bool bad = false;
                auto cmp = [&](size_t k) { const bool ok = grains_via_line_feature ? std::fabs(out[k] - ref[k]) <= 1e-12 : (out[k] == ref[k]); if (!ok && !any_bad) first_bad = k; if (!ok) { bad = true; any_bad = true; } };
                cmp(b + g);
                for (size_t k = 0; k < 9; ++k) cmp(b + 2 + 9*g + k);
                if (bad)
                  {
                    bool zero_ref = true, ident_out = true;
                    for (size_t k = 0; k < 9; ++k)
                      {
                        if (ref[b+2+9*g+k] != 0.0) zero_ref = false;
                        if (std::fabs(out[b+2+9*g+k] - (k % 4 == 0 ? 1.0 : 0.0)) > 1e-12) ident_out = false;
                      }
                    if (!(zero_ref && ident_out && out[b+g] == ref[b+g] && !line_cover.empty())) all_bad_are_zero_to_identity = false;
                  }
              }
          if (any_bad)
            {
              if (all_bad_are_zero_to_identity)
                fail("C02/grains/undefined-zero-matrices-become-identity-under/" + line_cover,
                     "a slab/fault covering the point has no grains model for this composition, yet the all-zero (undefined) rotation matrices came back as identity matrices", first_bad);
              else
                fail("C02/grains/covering=" + cover, "grains differ from the reference fold", first_bad);
            }
        }
        // the same values must come back when every property is asked for on its own (any grouping, any entry point)
        {
          size_t slot = 0;
          for (size_t a = 0; a < REQ.size(); ++a)
            {
              const std::vector<double> alone = w->properties(T.pts[ip].p, T.pts[ip].depth, {REQ[a]});
              ctx.eval();
              if (alone.size() + slot > out.size() || std::memcmp(alone.data(), &out[slot], alone.size()*sizeof(double)) != 0)
                {
                  const char *kind = REQ[a][0] == 1 ? "temperature" : REQ[a][0] == 2 ? "composition" : REQ[a][0] == 3 ? "grains" : "tag";
                  ctx.violation(std::string("C02/standalone-differs-from-batched/") + kind + "/covering=" + cover,
                                JObj().str("what", "the stand-alone query of one property differs from its block in the batched query").str("features", cdesc)
                                .raw("point", jarr(T.pts[ip].p)).num("depth", T.pts[ip].depth).raw("standalone", jarr(alone)).raw("batched", jarr(out)).str("world", text).done());
                }
              slot += alone.size();
            }
        }
        const double tag = out[NOUT-1];
        if (lasttag.empty() ? tag != -1 : (tag < 0 || tag >= static_cast<double>(w->feature_tags.size()) || w->feature_tags[static_cast<size_t>(tag)] != lasttag))
          fail("C02/tag/covering=" + cover, "tag is not that of the last covering feature (expected '" + lasttag + "')", NOUT-1);
      }
    if (nontrivial) ctx.nontrivial();
    if (idx % 1499 == 11) ctx.sample(JObj().str("features_in_file_order", cdesc).boolean("spherical", c.sph).integer("points", static_cast<long long>(T.pts.size())).done());
  }

  // suites: "n1", "n2" full; "n3dev" deviation-bounded modes; "n3full"; "n4dev"
  Case decode_full(unsigned n, uint64_t idx, bool sph, unsigned nmodes = NMODES)
  {
    Case c; c.sph = sph;
    for (unsigned i = 0; i < n; ++i) { c.t.push_back(static_cast<int>(idx % NT)); idx /= NT; }
    for (unsigned i = 0; i < n; ++i) { c.m.push_back(static_cast<int>(idx % nmodes)); idx /= nmodes; }
    return c;
  }
  uint64_t ipow(uint64_t b, unsigned e) { uint64_t r = 1; while (e--) r *= b; return r; }
}

int main(int argc, char **argv)
{
  Spec spec;
  spec.property = "C02";
  spec.level = "exploration";
  spec.rule = "every ordered list (with repetition) of n features drawn from 6 templates (one per feature type, partly overlapping footprints) x every assignment of a mode "
              "(replace / replace defined only / add / subtract / no models / temperature only / replace defined only resp. add with one more composition listed at fraction 0 / two chained models per kind) within the stated bound; one world per tuple, compared at 49 points with a reference fold "
              "(membership per feature taken from its single-feature world); non-trivial: at least one point covered by >= 2 features; tuples distinct by construction";
  spec.assumptions = {"uniform models only, so the reference fold is bit-exact (grains painted through slabs/faults compared to 1e-12 because of the quaternion round trip)",
                      "feature membership is taken from the implementation's single-feature world on purpose (geometry is C04/C06)"
                     };
  spec.counters = {"point_feature_coverings", "points_compared", "points_covered_by_2_or_more", "coverings_by_continental_plate", "coverings_by_oceanic_plate",
                   "coverings_by_mantle_layer", "coverings_by_plume", "coverings_by_subducting_plate", "coverings_by_fault"};
  spec.quick_deadline_s = 300; spec.thorough_deadline_s = 1500;
  return driver(argc, argv, spec, [](const std::string &tier)
  {
    const bool th = tier == "thorough";
    std::vector<Suite> s;
    for (int sph = 0; sph <= (th ? 1 : 0); ++sph)
      for (unsigned n = 1; n <= 2; ++n)
        {
          Suite a; a.name = std::string(sph ? "sph_" : "") + "n" + std::to_string(n);
          a.n = ipow(NT, n) * ipow(NMODES, n);
          a.run = [n, sph](uint64_t i, Ctx &c) { run_case(decode_full(n, i, sph), i, c); };
          a.bound = "all ordered lists of " + std::to_string(n) + " features x all mode assignments (full product), " + (sph ? "spherical" : "cartesian");
          s.push_back(a);
        }
    if (th)
      {
        Suite a; a.name = "n3";
        a.n = ipow(NT, 3) * ipow(6, 3);
        a.run = [](uint64_t i, Ctx &c) { run_case(decode_full(3, i, false, 6), i, c); };
        a.bound = "all ordered lists of 3 features x all assignments of the first six modes (full product), cartesian";
        s.push_back(a);
        auto devs3 = std::make_shared<std::vector<std::vector<unsigned>>>(deviations(std::vector<uint64_t>(3, NMODES), 2));
        Suite b; b.name = "n3dev2";
        b.n = ipow(NT, 3) * devs3->size();
        b.run = [devs3](uint64_t i, Ctx &c)
        {
          Case cs; cs.sph = false;
          uint64_t j = i;
          for (unsigned q = 0; q < 3; ++q) { cs.t.push_back(static_cast<int>(j % NT)); j /= NT; }
          for (unsigned q = 0; q < 3; ++q) cs.m.push_back(static_cast<int>((*devs3)[j][q]));
          run_case(cs, i, c);
        };
        b.bound = "all ordered lists of 3 features x all assignments of the nine modes deviating from all-replace in <= 2 positions";
        s.push_back(b);
      }
    // deviation-bounded: n = 3 (quick) / n = 4 (thorough) with at most 1 / 2 modes deviating from 'replace'
    {
      const unsigned n = th ? 4 : 3, k = th ? 2 : 1;
      auto devs = std::make_shared<std::vector<std::vector<unsigned>>>(deviations(std::vector<uint64_t>(n, NMODES), k));
      Suite a; a.name = "n" + std::to_string(n) + "dev" + std::to_string(k);
      a.n = ipow(NT, n) * devs->size();
      a.run = [n, devs](uint64_t i, Ctx &c)
      {
        Case cs; cs.sph = false;
        uint64_t j = i;
        for (unsigned q = 0; q < n; ++q) { cs.t.push_back(static_cast<int>(j % NT)); j /= NT; }
        for (unsigned q = 0; q < n; ++q) cs.m.push_back(static_cast<int>((*devs)[j][q]));
        run_case(cs, i, c);
      };
      a.bound = "all ordered lists of " + std::to_string(n) + " features x all mode assignments deviating from all-replace in <= " + std::to_string(k) + " positions";
      s.push_back(a);
    }
    return s;
  });
}
