// VARIANTS: rel
// C03 - outside every feature the background state is returned; forced surface temperature.
#include "kit.h"
#include "wbgen.h"
using namespace kit;
using namespace wbgen;

namespace
{
  const std::vector<double> TP = {1, 1600, 2500.5}, ALPHA = {0, 3.5e-5, 1e-4}, CP = {1250, 1, 1e4}, GRAV = {9.81, 0, 1, 20};
  const std::vector<double> TSURF = {-1 /*off*/, 0, 293.15, 500};
  // thorough: finer constant lattice
  const std::vector<double> TP2 = {1, 273.15, 1600, 1900, 2500.5, 1e4}, ALPHA2 = {0, 1e-6, 2e-5, 3.5e-5, 1e-4, 1e-3}, CP2 = {1250, 1, 750, 1e4, 1e6}, GRAV2 = {9.81, 0, 1, 3.7, 10, 20, 274};

  const std::vector<Request> REQS =
  {
    {{{1,0,0}}},
    {{{1,0,0}},{{2,0,0}},{{4,0,0}},{{5,0,0}},{{3,0,2}}},
    {{{2,0,0}},{{1,0,0}},{{3,0,2}},{{5,0,0}},{{4,0,0}}},
    {{{4,0,0}},{{5,0,0}},{{3,1,1}},{{2,1,0}},{{1,0,0}}},
    {{{1,0,0}},{{2,0,0}},{{1,0,0}}},
    {{{3,0,3}},{{1,0,0}},{{5,0,0}},{{1,0,0}}},
  };
  const std::vector<double> DEPTHS = {0, -0.0, 0.5, 1e3, 1e5, 2.89e6, -1000};

  std::string features_for(unsigned kind, bool sph, std::vector<std::string> &out)
  {
    const double s = sph ? 1.0 : 1e5;  // lattice unit: 1 degree or 100 km
    auto sq = [&](double x0, double x1, double y0, double y1)
    { return pts({{x0*s,y0*s},{x1*s,y0*s},{x1*s,y1*s},{x0*s,y1*s}}); };
    const std::string models = "\"temperature models\":[{\"model\":\"uniform\",\"temperature\":777}],"
                               "\"composition models\":[{\"model\":\"uniform\",\"compositions\":[0,1],\"fractions\":[0.25,0.75]}],"
                               "\"velocity models\":[{\"model\":\"uniform raw\",\"velocity\":[1,2,3]}],"
                               "\"grains models\":[{\"model\":\"uniform\",\"compositions\":[0,1],\"Euler angles z-x-z\":[[10,20,30],[40,50,60]],\"grain sizes\":[0.5,-1]}]";
    if (kind == 0) return "empty";
    if (kind == 1)
      {
        out.push_back("{\"model\":\"continental plate\",\"name\":\"far\",\"coordinates\":" + sq(50, 60, 50, 60) + "," + models + "}");
        return "far-away continental plate";
      }
    if (kind == 2)
      {
        out.push_back("{\"model\":\"oceanic plate\",\"name\":\"half\",\"coordinates\":" + sq(0, 10, -10, 10) + "," + models + "}");
        return "oceanic plate covering x>=0";
      }
    // stack of every feature type over x >= 0.5
    out.push_back("{\"model\":\"mantle layer\",\"name\":\"ml\",\"coordinates\":" + sq(0.5, 10, -10, 10) + "," + models + "}");
    out.push_back("{\"model\":\"continental plate\",\"name\":\"cp\",\"max depth\":2e5,\"coordinates\":" + sq(0.5, 10, -10, 10) + "," + models + "}");
    out.push_back("{\"model\":\"plume\",\"name\":\"pl\",\"coordinates\":[" + pt({3*s, 2*s}) + "," + pt({3*s, 2*s}) + "],\"cross section depths\":[0,1e5],"
                  "\"semi-major axis\":[" + num(1.5*(sph?1.0:1e5)) + "," + num(1.5*(sph?1.0:1e5)) + "],\"eccentricity\":[0,0],\"rotation angles\":[0,0],"
                  "\"min depth\":0,\"max depth\":3e5,\"temperature models\":[{\"model\":\"uniform\",\"temperature\":888}],"
                  "\"composition models\":[{\"model\":\"uniform\",\"compositions\":[1]}]}");
    const std::string seg = "\"segments\":[{\"length\":3e5,\"thickness\":[5e4],\"angle\":[45]}],"
                            "\"temperature models\":[{\"model\":\"uniform\",\"temperature\":555}],"
                            "\"composition models\":[{\"model\":\"uniform\",\"compositions\":[0]}]";
    out.push_back("{\"model\":\"subducting plate\",\"name\":\"sl\",\"coordinates\":[" + pt({2*s,-5*s}) + "," + pt({2*s,5*s}) + "],\"dip point\":" + pt({9*s,0}) + "," + seg + "}");
    out.push_back("{\"model\":\"fault\",\"name\":\"fa\",\"coordinates\":[" + pt({1*s,-5*s}) + "," + pt({1*s,5*s}) + "],\"dip point\":" + pt({9*s,0}) + "," + seg + "}");
    return "stack of mantle layer, continental plate, plume, slab, fault over x>=0.5";
  }

  void run(const std::vector<double> &tp, const std::vector<double> &al, const std::vector<double> &cp, const std::vector<double> &gr, uint64_t idx, Ctx &ctx)
  {
    static const int c_forced = Ctx::counter_id("forced_surface_checks"), c_bg = Ctx::counter_id("background_checks"), c_inside = Ctx::counter_id("forced_inside_feature_checks");
    const Radix rx({tp.size(), al.size(), cp.size(), gr.size(), 2, 4, TSURF.size()});
    const auto d = rx.decode(idx);
    const double Tp = tp[d[0]], alpha = al[d[1]], c_p = cp[d[2]], g = gr[d[3]];
    const bool sph = d[4] == 1;
    const unsigned fkind = d[5];
    const double tsurf = TSURF[d[6]];
    const bool force = d[6] != 0;
    // Start from a non-initial process state: before the first world of this process is built, another world with
    // different constants and the other coordinate system is built and queried (anything cached per process or
    // shared between worlds would now carry that world's values). A single-case replay does the same.
    static bool decoy_done = false;
    if (!decoy_done)
      {
        decoy_done = true;
        auto decoy = make_world(world(coord(true) + ",\"gravity model\":{\"model\":\"uniform\",\"magnitude\":5.5},\"potential mantle temperature\":1234,"
                                      "\"thermal expansion coefficient\":7e-5,\"specific heat\":900,\"force surface temperature\":true,\"surface temperature\":111", {}), 1, "decoy");
        (void)decoy->properties(wbgen::sph(10, 20, R_EARTH - 1e5), 1e5, REQS[1]);
        (void)decoy->properties(wbgen::sph(10, 20, R_EARTH), 0, REQS[2]);
      }
    std::vector<std::string> feats;
    const std::string fdesc = features_for(fkind, sph, feats);
    std::string members = coord(sph) + ",\"gravity model\":{\"model\":\"uniform\",\"magnitude\":" + num(g) + "}"
                          + ",\"potential mantle temperature\":" + num(Tp) + ",\"thermal expansion coefficient\":" + num(alpha)
                          + ",\"specific heat\":" + num(c_p);
    if (force) members += ",\"force surface temperature\":true,\"surface temperature\":" + num(tsurf);
    const std::string text = world(members, feats);
    auto w = make_world(text);
    const double s = sph ? 1.0 : 1e5;
    const std::vector<double> XS = {-3, -1, 1, 3}, YS = {-2, 2};
    bool any_bg = false;
    std::vector<double> depths = DEPTHS;
    depths.push_back(R_EARTH);     // spherical: the centre of the planet (cartesian point (0,0,0))
    for (double x : XS) for (double y : YS) for (double depth : depths) for (size_t ir = 0; ir < REQS.size(); ++ir)
            {
              const bool centre = sph && depth == R_EARTH;      // natural coordinates (r=0, lon=0, lat=0)
              if (depth == R_EARTH && !sph) continue;
              if (centre && fkind == 2) continue;                // lon 0 is the edge of the half-covering plate: nothing claimed
              const bool inside_possible = !centre && (fkind >= 2 && x > 0);
              const bool at_surface = (depth == 0);
              if (inside_possible && !(force && at_surface)) continue;   // nothing claimed there
              const Request &req = REQS[ir];
              const P3 p = centre ? P3{{0, 0, 0}} : query_point(sph, x*s, y*s, depth);
              const std::vector<double> out = w->properties(p, depth, req);
              ctx.eval();
              auto fail = [&](const std::string &sig, const std::string &what, size_t slot, double expect, double got)
              {
                ctx.violation(sig, JObj().str("what", what).str("features", fdesc).boolean("spherical", sph).raw("point", jarr(p)).num("depth", depth)
                              .raw("request", jreq(req)).integer("slot", static_cast<long long>(slot)).num("expected", expect).num("observed", got)
                              .raw("output", jarr(out)).str("world", text).done());
              };
              if (out.size() != w->properties_output_size(req))
                {
                  if (!(req.size() == 1 && out.size() == 1))
                    { fail("C03/output-size", "wrong number of values", 0, w->properties_output_size(req), static_cast<double>(out.size())); continue; }
                }
              size_t slot = 0;
              for (size_t ip = 0; ip < req.size(); ++ip)
                {
                  const unsigned kind = req[ip][0];
                  if (kind == 1)
                    {
                      if (force && at_surface)
                        {
                          ctx.count(c_forced);
                          if (inside_possible) ctx.count(c_inside);
                          if (!biteq(out[slot], tsurf) && !(out[slot] == tsurf))
                            fail(std::string("C03/forced-surface-temperature/") + (inside_possible ? "inside-feature" : "outside") + (req.size() == 1 ? "/single" : "/batched"),
                                 "temperature at depth 0 is not the forced surface temperature", slot, tsurf, out[slot]);
                        }
                      else if (!inside_possible)
                        {
                          const long double arg = static_cast<long double>(alpha) * g * depth / c_p;
                          const long double ref = static_cast<long double>(Tp) * expl(arg);
                          ctx.count(c_bg);
                          any_bg = true;
                          const double refd = static_cast<double>(ref);
                          // exp() of a large argument carries a relative error of |arg| ulp
                          const double tol = (1e-13 + 4e-16 * std::fabs(static_cast<double>(arg))) * std::fabs(refd);
                          if (std::isinf(refd) ? !(out[slot] == refd) : !(std::fabs(out[slot] - refd) <= tol))
                            fail("C03/background-temperature", "background adiabat mismatch", slot, static_cast<double>(ref), out[slot]);
                        }
                      slot += 1;
                    }
                  else
                    {
                      const size_t n = kind == 3 ? 10*req[ip][2] : (kind == 5 ? 3 : 1);
                      if (!inside_possible)
                        for (size_t k = 0; k < n; ++k)
                          {
                            const double expect = kind == 4 ? -1.0 : 0.0;
                            ctx.count(c_bg);
                            if (!(out[slot+k] == expect))
                              fail(std::string("C03/background-") + (kind == 2 ? "composition" : kind == 3 ? "grains" : kind == 4 ? "tag" : "velocity"),
                                   "background value mismatch", slot+k, expect, out[slot+k]);
                          }
                      slot += n;
                    }
                }
            }
    if (any_bg) ctx.nontrivial();
    if (idx % 500 == 7)
      ctx.sample(JObj().num("Tp", Tp).num("alpha", alpha).num("cp", c_p).num("g", g).boolean("spherical", sph).str("features", fdesc).num("forced_surface_T", force ? tsurf : NAN).done());
  }
  // ---------------- depth limits: inside the footprint but above the (local) top or below the (local) bottom ----------------
  // Feature kinds: 0 continental plate, 1 oceanic plate, 2 mantle layer (top and bottom each absent / constant / a surface given by
  // values at points), 3 plume, 4 subducting plate, 5 fault (min / max depth each absent or constant; max depth shallower than the
  // geometric reach). A point above the local top or below the local bottom is in no feature: background state.
  const char *LKIND[] = {"continental plate", "oceanic plate", "mantle layer", "plume", "subducting plate", "fault"};
  const char *LMODE[] = {"absent", "constant", "values-at-points"};
  void run_limits(uint64_t idx, Ctx &ctx)
  {
    static const int c_out = Ctx::counter_id("outside_depth_limit_probes"), c_in = Ctx::counter_id("inside_sanity_probes"), c_bg = Ctx::counter_id("background_checks");
    const Radix rx({6, 3, 3, 2, 2});
    const auto d = rx.decode(idx);
    const unsigned fk = static_cast<unsigned>(d[0]), mn = static_cast<unsigned>(d[1]), mx = static_cast<unsigned>(d[2]);
    const bool sph = d[3] == 1, second_feature = d[4] == 1;
    if (fk >= 3 && (mn == 2 || mx == 2)) return;     // plume / slab / fault take plain numbers only
    const double s = sph ? 1.0 : 1e5;
    const double Tp = 1600, alpha = 3.5e-5, c_p = 1250, g = 9.81;
    const P2 Q = {{1.0, 0.5}};                        // the interior point that carries the deviating surface value
    const double top_default = 1e5, top_q = 3e5, bot_default = 5e5, bot_q = 3.8e5;
    const std::string models = "\"temperature models\":[{\"model\":\"uniform\",\"temperature\":777}],"
                               "\"composition models\":[{\"model\":\"uniform\",\"compositions\":[0,1],\"fractions\":[0.25,0.75]}],"
                               "\"velocity models\":[{\"model\":\"uniform raw\",\"velocity\":[1,2,3]}],"
                               "\"grains models\":[{\"model\":\"uniform\",\"compositions\":[0,1],\"Euler angles z-x-z\":[[10,20,30],[40,50,60]],\"grain sizes\":[0.5,-1]}]";
    auto sq = [&](double x0, double x1, double y0, double y1) { return pts({{x0*s,y0*s},{x1*s,y0*s},{x1*s,y1*s},{x0*s,y1*s}}); };
    std::string f = std::string("{\"model\":\"") + LKIND[fk] + "\",\"name\":\"f\",";
    const double m_const = fk >= 3 ? 5e4 : top_default, M_const = fk >= 3 ? 1.5e5 : bot_default;
    if (mn == 1) f += "\"min depth\":" + num(m_const) + ",";
    if (mn == 2) f += "\"min depth\":[[" + num(top_default) + "],[" + num(top_q) + ",[" + pt({Q[0]*s, Q[1]*s}) + "]]],";
    if (mx == 1) f += "\"max depth\":" + num(M_const) + ",";
    // (both surfaces given at points: the bottom lists its value at another point than the top, so that the two triangulations differ)
    const P2 QB = mn == 2 ? P2{{-2.0, -3.0}} : Q;
    if (mx == 2) f += "\"max depth\":[[" + num(bot_default) + "],[" + num(bot_q) + ",[" + pt({QB[0]*s, QB[1]*s}) + "]]],";
    const double deg_per_m = 180.0 / (PI * R_EARTH);
    if (fk <= 2) f += "\"coordinates\":" + sq(-5, 5, -5, 5) + "," + models + "}";
    else if (fk == 3)
      f += "\"coordinates\":[" + pt({Q[0]*s, Q[1]*s}) + "," + pt({Q[0]*s, Q[1]*s}) + "],\"cross section depths\":[1e5,4e5],\"semi-major axis\":[" + num(1.5*s) + "," + num(1.5*s) + "],"
           "\"eccentricity\":[0,0],\"rotation angles\":[0,0]," + models + "}";
    else
      f += "\"coordinates\":[" + pt({0, -5*s}) + "," + pt({0, 5*s}) + "],\"dip point\":" + pt({9*s, 0}) + ",\"segments\":[{\"length\":4e5,\"thickness\":[5e4],\"angle\":[45]}]," + models + "}";
    std::vector<std::string> feats;
    // optional second feature far away horizontally (feature loop state must not leak into the answer)
    if (second_feature) feats.push_back("{\"model\":\"oceanic plate\",\"name\":\"far\",\"max depth\":9e5,\"coordinates\":" + sq(20, 30, 20, 30) + "," + models + "}");
    feats.push_back(f);
    const std::string text = world(coord(sph) + ",\"gravity model\":{\"model\":\"uniform\",\"magnitude\":" + num(g) + "},\"potential mantle temperature\":" + num(Tp) +
                                   ",\"thermal expansion coefficient\":" + num(alpha) + ",\"specific heat\":" + num(c_p), feats);
    auto w = make_world(text);
    double my_tag = -2;
    for (size_t i = 0; i < w->feature_tags.size(); ++i) if (w->feature_tags[i] == LKIND[fk]) my_tag = static_cast<double>(i);
    struct Loc { double x, y, top, bot; const char *name; bool use_top = true, use_bot = true; };   // lattice units; local top / bottom of the feature there (NAN: no limit)
    std::vector<Loc> locs;
    const double margin = 2e4;
    if (fk <= 2)
      {
        const double t_def = mn == 0 ? NAN : top_default, b_def = mx == 0 ? NAN : bot_default;
        if (mn == 2 && mx == 2)
          {
            // near Q the top is top_q and the bottom close to its default (Q is 4.6 units from QB: the bottom there is within 10 km of the default ... use a wide margin by probing 60 km beyond)
            // (the other surface is only known to lie between its default and its listed value there: it is used for the sanity probes, not judged)
            locs.push_back({QB[0] + 0.01, QB[1] + 0.01, top_q, bot_q, "at the value point of the bottom surface", false, true});
            locs.push_back({Q[0] + 0.01, Q[1] + 0.01, top_q, bot_q, "at the value point of the top surface", true, false});
          }
        else
          locs.push_back({Q[0] + 0.01, Q[1] + 0.01, mn == 2 ? top_q : t_def, mx == 2 ? bot_q : b_def, "at the listed value point"});
        locs.push_back({-4.9, -3.0, t_def, b_def, "near the polygon edge"});
        locs.push_back({3.0, 4.9, t_def, b_def, "near another polygon edge"});
      }
    else if (fk == 3)
      locs.push_back({Q[0] + 0.2, Q[1] - 0.1, mn == 0 ? 0.0 : m_const, mx == 0 ? NAN : M_const, "near the plume axis"});
    auto expect_background = [&](const P3 &p, double depth, const std::string &where, const std::string &side)
    {
      ctx.count(c_out);
      for (const Request &req : REQS)
        {
          const std::vector<double> out = w->properties(p, depth, req);
          ctx.eval();
          size_t slot = 0;
          for (size_t ip = 0; ip < req.size(); ++ip)
            {
              const unsigned kind = req[ip][0];
              const size_t n = kind == 3 ? 10*req[ip][2] : (kind == 5 ? 3 : 1);
              for (size_t k = 0; k < n; ++k)
                {
                  double expect = kind == 4 ? -1.0 : 0.0;
                  bool ok;
                  if (kind == 1)
                    {
                      expect = static_cast<double>(static_cast<long double>(Tp) * expl(static_cast<long double>(alpha) * g * depth / c_p));
                      ok = std::fabs(out[slot+k] - expect) <= 1e-13 * expect;
                    }
                  else ok = out[slot+k] == expect;
                  ctx.count(c_bg);
                  if (!ok)
                    {
                      ctx.violation(std::string("C03/depth-limit/") + LKIND[fk] + "/" + side + "/min-depth=" + LMODE[mn] + "/max-depth=" + LMODE[mx] +
                                    "/" + (kind == 1 ? "temperature" : kind == 2 ? "composition" : kind == 3 ? "grains" : kind == 4 ? "tag" : "velocity"),
                                    JObj().str("what", "a point inside the footprint but " + side + " of the feature does not get the background state").str("where", where)
                                    .boolean("spherical", sph).raw("point", jarr(p)).num("depth", depth).raw("request", jreq(req)).integer("slot", static_cast<long long>(slot+k))
                                    .num("expected", expect).num("observed", out[slot+k]).raw("output", jarr(out)).str("world", text).done());
                      return;
                    }
                }
              slot += n;
            }
        }
    };
    auto tag_at = [&](const P3 &p, double depth) { return w->properties(p, depth, {{{4,0,0}}})[0]; };
    bool meaningful = false;
    for (const Loc &l : locs)
      {
        const P3 dummy = {{0,0,0}}; (void)dummy;
        // sanity: just inside the limits the feature is found (otherwise the outside probes would say nothing)
        const double t = std::isnan(l.top) ? 0.0 : l.top, b = std::isnan(l.bot) ? (fk == 3 ? 4e5 : 8e5) : l.bot;
        const double din = fk == 3 ? std::max(t + margin, 1.2e5) : t + margin, din2 = b - margin;
        const bool in1 = tag_at(query_point(sph, l.x*s, l.y*s, din), din) == my_tag, in2 = tag_at(query_point(sph, l.x*s, l.y*s, din2), din2) == my_tag;
        ctx.count(c_in, 2);
        if (!in1 || !in2)
          {
            ctx.violation(std::string("C03/depth-limit/") + LKIND[fk] + "/inside-the-limits-not-found/min-depth=" + LMODE[mn] + "/max-depth=" + LMODE[mx],
                          JObj().str("what", "a point 20 km inside the local depth limits of the feature is not tagged with it").str("where", l.name).boolean("spherical", sph)
                          .num("x", l.x*s).num("y", l.y*s).num("depth_below_top", din).boolean("found_below_top", in1).num("depth_above_bottom", din2).boolean("found_above_bottom", in2).str("world", text).done());
            continue;
          }
        if (l.use_top && !std::isnan(l.top) && l.top > 0)
          for (double dd : {l.top - margin, l.top - 4*margin, 0.0})
            if (dd >= 0) { expect_background(query_point(sph, l.x*s, l.y*s, dd), dd, l.name, "above the top"); meaningful = true; }
        if (l.use_bot && !std::isnan(l.bot))
          for (double dd : {l.bot + margin, l.bot + 4*margin, l.bot + 3e5})
            { expect_background(query_point(sph, l.x*s, l.y*s, dd), dd, l.name, "below the bottom"); meaningful = true; }
      }
    if (fk >= 4)
      {
        // probes on the line 20 km (slab) / 10 km (fault) from the dipping plane, which is geometrically inside the body down to 2.8e5 m;
        // with a min depth m the whole geometry starts at depth m
        const double off = fk == 4 ? 2e4 : 1e4, m = mn == 0 ? 0.0 : m_const, M = mx == 0 ? NAN : M_const;
        auto on_line = [&](double depth) { const double xm = (depth - m) - off*std::sqrt(2.0); return sph ? xm*deg_per_m : xm/1e5; };   // lattice units
        for (double y : {-2.0, 1.5})
          {
            const double dtop = m + 4e4, dbot = std::isnan(M) ? 2.2e5 : M - 1e4;
            const bool in1 = tag_at(query_point(sph, on_line(dtop)*s, y*s, dtop), dtop) == my_tag, in2 = tag_at(query_point(sph, on_line(dbot)*s, y*s, dbot), dbot) == my_tag;
            ctx.count(c_in, 2);
            if (!in1 || !in2)
              {
                ctx.violation(std::string("C03/depth-limit/") + LKIND[fk] + "/inside-the-limits-not-found/min-depth=" + LMODE[mn] + "/max-depth=" + LMODE[mx],
                              JObj().str("what", "a point inside the dipping body and inside its depth limits is not tagged with the feature").boolean("spherical", sph).num("y", y*s)
                              .num("depth_near_top", dtop).boolean("found_near_top", in1).num("depth_near_bottom", dbot).boolean("found_near_bottom", in2).str("world", text).done());
                continue;
              }
            if (!std::isnan(M))
              for (double dd : {M + 1e4, M + 4e4, M + 1e5})
                { expect_background(query_point(sph, on_line(dd)*s, y*s, dd), dd, "on the line inside the dipping body", "below the bottom"); meaningful = true; }
            if (m > 0)
              for (double dd : {m - 1e4, m - 4e4, 0.0})
                for (double xo : {0.0, 0.2, 0.5})
                  { expect_background(query_point(sph, (sph ? xo : xo)*s*(sph ? 1.0 : 1.0), y*s, dd), dd, "above the starting depth, near the trench", "above the top"); meaningful = true; }
          }
      }
    if (meaningful) ctx.nontrivial();
    if (idx % 37 == 3) ctx.sample(JObj().str("feature", LKIND[fk]).str("min depth", LMODE[mn]).str("max depth", LMODE[mx]).boolean("spherical", sph).boolean("second_feature", second_feature).done());
  }
}

int main(int argc, char **argv)
{
  Spec spec;
  spec.property = "C03";
  spec.level = "exploration";
  spec.rule = "full product of global constants (Tp, alpha, cp, |g|) x coordinate system x feature list kind x forced-surface setting; one world per tuple, "
              "each queried on a 4x2 lattice x 7 depths x 6 request lists; a case is non-trivial when at least one background (outside-feature) value was compared "
              "against the closed form; tuples are distinct by construction. limits suite: full product of feature type x top mode x bottom mode x coordinate system x alone/second, "
              "probes inside the horizontal footprint but beyond the local depth limits must return the background state";
  spec.assumptions = {"'outside every feature' is decided geometrically by the harness: all features live at x >= 0 (or >= 0.5 lattice units), background points have x < 0",
                      "closed form evaluated in long double, compared with relative tolerance 1e-13; exact equality for zeros, tag and forced temperature"
                     };
  spec.counters = {"forced_surface_checks", "background_checks", "forced_inside_feature_checks", "outside_depth_limit_probes", "inside_sanity_probes"};
  return driver(argc, argv, spec, [](const std::string &tier)
  {
    std::vector<Suite> s(2);
    s[1].name = "limits";
    s[1].n = 6*3*3*2*2;
    s[1].run = run_limits;
    s[1].bound = "{continental plate, oceanic plate, mantle layer} x top {absent, constant, values at points} x bottom {absent, constant, values at points}, {plume, subducting plate, fault} x min depth {absent, constant} x "
                 "max depth {absent, constant, shallower than the geometric reach} x {cartesian, spherical} x {alone, after a far-away feature}: probes inside the footprint 20/80 km above the local top and "
                 "20/80/300 km below the local bottom (on a line inside the dipping body for slab and fault) must return the background state for 6 request lists; probes 20 km inside the limits must be tagged (sanity)";
    const bool th = tier == "thorough";
    const auto &tp = th ? TP2 : TP; const auto &al = th ? ALPHA2 : ALPHA; const auto &cp = th ? CP2 : CP; const auto &gr = th ? GRAV2 : GRAV;
    s[0].name = "background";
    s[0].n = tp.size()*al.size()*cp.size()*gr.size()*2*4*TSURF.size();
    s[0].run = [&tp,&al,&cp,&gr](uint64_t i, Ctx &c) { run(tp, al, cp, gr, i, c); };
    s[0].bound = "Tp x alpha x cp x |g| (" + std::to_string(tp.size()) + "x" + std::to_string(al.size()) + "x" + std::to_string(cp.size()) + "x" + std::to_string(gr.size()) +
                 ") x {cartesian,spherical} x {no feature, far feature, half-covering oceanic plate, half-covering stack of all feature types} x force surface T {off,0,293.15,500}; full product";
    return s;
  });
}
