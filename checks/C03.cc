// VARIANTS: rel
// C03 - outside every feature the background state is returned; forced surface temperature.
#include "kit.h"
#include "wbgen.h"
using namespace kit;
using namespace wbgen;

namespace
{
  const std::vector<double> TP = {1, 1600, 2500.5}, ALPHA = {0, 3.5e-5, 1e-4}, CP = {1250, 1, 1e4}, GRAV = {9.81, 0, 1, 20};
  const std::vector<double> TSURF = {-1 /*off*/, 0, 293.15, 500};
  // thorough: finer constant lattice
  const std::vector<double> TP2 = {1, 273.15, 1600, 1900, 2500.5, 1e4}, ALPHA2 = {0, 1e-6, 2e-5, 3.5e-5, 1e-4, 1e-3}, CP2 = {1250, 1, 750, 1e4, 1e6}, GRAV2 = {9.81, 0, 1, 3.7, 10, 20, 274};

  const std::vector<Request> REQS =
  {
    {{{1,0,0}}},
    {{{1,0,0}},{{2,0,0}},{{4,0,0}},{{5,0,0}},{{3,0,2}}},
    {{{2,0,0}},{{1,0,0}},{{3,0,2}},{{5,0,0}},{{4,0,0}}},
    {{{4,0,0}},{{5,0,0}},{{3,1,1}},{{2,1,0}},{{1,0,0}}},
    {{{1,0,0}},{{2,0,0}},{{1,0,0}}},
    {{{3,0,3}},{{1,0,0}},{{5,0,0}},{{1,0,0}}},
  };
  const std::vector<double> DEPTHS = {0, -0.0, 0.5, 1e3, 1e5, 2.89e6, -1000};

  std::string features_for(unsigned kind, bool sph, std::vector<std::string> &out)
  {
    const double s = sph ? 1.0 : 1e5;  // lattice unit: 1 degree or 100 km
    auto sq = [&](double x0, double x1, double y0, double y1)
    { return pts({{x0*s,y0*s},{x1*s,y0*s},{x1*s,y1*s},{x0*s,y1*s}}); };
    const std::string models = "\"temperature models\":[{\"model\":\"uniform\",\"temperature\":777}],"
                               "\"composition models\":[{\"model\":\"uniform\",\"compositions\":[0,1],\"fractions\":[0.25,0.75]}],"
                               "\"velocity models\":[{\"model\":\"uniform raw\",\"velocity\":[1,2,3]}],"
                               "\"grains models\":[{\"model\":\"uniform\",\"compositions\":[0,1],\"Euler angles z-x-z\":[[10,20,30],[40,50,60]],\"grain sizes\":[0.5,-1]}]";
    if (kind == 0) return "empty";
    if (kind == 1)
      {
        out.push_back("{\"model\":\"continental plate\",\"name\":\"far\",\"coordinates\":" + sq(50, 60, 50, 60) + "," + models + "}");
        return "far-away continental plate";
      }
    if (kind == 2)
      {
        out.push_back("{\"model\":\"oceanic plate\",\"name\":\"half\",\"coordinates\":" + sq(0, 10, -10, 10) + "," + models + "}");
        return "oceanic plate covering x>=0";
      }
    // stack of every feature type over x >= 0.5
    out.push_back("{\"model\":\"mantle layer\",\"name\":\"ml\",\"coordinates\":" + sq(0.5, 10, -10, 10) + "," + models + "}");
    out.push_back("{\"model\":\"continental plate\",\"name\":\"cp\",\"max depth\":2e5,\"coordinates\":" + sq(0.5, 10, -10, 10) + "," + models + "}");
    out.push_back("{\"model\":\"plume\",\"name\":\"pl\",\"coordinates\":[" + pt({3*s, 2*s}) + "," + pt({3*s, 2*s}) + "],\"cross section depths\":[0,1e5],"
                  "\"semi-major axis\":[" + num(1.5*(sph?1.0:1e5)) + "," + num(1.5*(sph?1.0:1e5)) + "],\"eccentricity\":[0,0],\"rotation angles\":[0,0],"
                  "\"min depth\":0,\"max depth\":3e5,\"temperature models\":[{\"model\":\"uniform\",\"temperature\":888}],"
                  "\"composition models\":[{\"model\":\"uniform\",\"compositions\":[1]}]}");
    const std::string seg = "\"segments\":[{\"length\":3e5,\"thickness\":[5e4],\"angle\":[45]}],"
                            "\"temperature models\":[{\"model\":\"uniform\",\"temperature\":555}],"
                            "\"composition models\":[{\"model\":\"uniform\",\"compositions\":[0]}]";
    out.push_back("{\"model\":\"subducting plate\",\"name\":\"sl\",\"coordinates\":[" + pt({2*s,-5*s}) + "," + pt({2*s,5*s}) + "],\"dip point\":" + pt({9*s,0}) + "," + seg + "}");
    out.push_back("{\"model\":\"fault\",\"name\":\"fa\",\"coordinates\":[" + pt({1*s,-5*s}) + "," + pt({1*s,5*s}) + "],\"dip point\":" + pt({9*s,0}) + "," + seg + "}");
    return "stack of mantle layer, continental plate, plume, slab, fault over x>=0.5";
  }

  void run(const std::vector<double> &tp, const std::vector<double> &al, const std::vector<double> &cp, const std::vector<double> &gr, uint64_t idx, Ctx &ctx)
  {
    static const int c_forced = Ctx::counter_id("forced_surface_checks"), c_bg = Ctx::counter_id("background_checks"), c_inside = Ctx::counter_id("forced_inside_feature_checks");
    const Radix rx({tp.size(), al.size(), cp.size(), gr.size(), 2, 4, TSURF.size()});
    const auto d = rx.decode(idx);
    const double Tp = tp[d[0]], alpha = al[d[1]], c_p = cp[d[2]], g = gr[d[3]];
    const bool sph = d[4] == 1;
    const unsigned fkind = d[5];
    const double tsurf = TSURF[d[6]];
    const bool force = d[6] != 0;
    // Start from a non-initial process state: before the first world of this process is built, another world with
    // different constants and the other coordinate system is built and queried (anything cached per process or
    // shared between worlds would now carry that world's values). A single-case replay does the same.
    static bool decoy_done = false;
    if (!decoy_done)
      {
        decoy_done = true;
        auto decoy = make_world(world(coord(true) + ",\"gravity model\":{\"model\":\"uniform\",\"magnitude\":5.5},\"potential mantle temperature\":1234,"
                                      "\"thermal expansion coefficient\":7e-5,\"specific heat\":900,\"force surface temperature\":true,\"surface temperature\":111", {}), 1, "decoy");
        (void)decoy->properties(wbgen::sph(10, 20, R_EARTH - 1e5), 1e5, REQS[1]);
        (void)decoy->properties(wbgen::sph(10, 20, R_EARTH), 0, REQS[2]);
      }
    std::vector<std::string> feats;
    const std::string fdesc = features_for(fkind, sph, feats);
    std::string members = coord(sph) + ",\"gravity model\":{\"model\":\"uniform\",\"magnitude\":" + num(g) + "}"
                          + ",\"potential mantle temperature\":" + num(Tp) + ",\"thermal expansion coefficient\":" + num(alpha)
                          + ",\"specific heat\":" + num(c_p);
    if (force) members += ",\"force surface temperature\":true,\"surface temperature\":" + num(tsurf);
    const std::string text = world(members, feats);
    auto w = make_world(text);
    const double s = sph ? 1.0 : 1e5;
    const std::vector<double> XS = {-3, -1, 1, 3}, YS = {-2, 2};
    bool any_bg = false;
    std::vector<double> depths = DEPTHS;
    depths.push_back(R_EARTH);     // spherical: the centre of the planet (cartesian point (0,0,0))
    for (double x : XS) for (double y : YS) for (double depth : depths) for (size_t ir = 0; ir < REQS.size(); ++ir)
            {
              const bool centre = sph && depth == R_EARTH;      // natural coordinates (r=0, lon=0, lat=0)
              if (depth == R_EARTH && !sph) continue;
              if (centre && fkind == 2) continue;                // lon 0 is the edge of the half-covering plate: nothing claimed
              const bool inside_possible = !centre && (fkind >= 2 && x > 0);
              const bool at_surface = (depth == 0);
              if (inside_possible && !(force && at_surface)) continue;   // nothing claimed there
              const Request &req = REQS[ir];
              const P3 p = centre ? P3{{0, 0, 0}} : query_point(sph, x*s, y*s, depth);
              const std::vector<double> out = w->properties(p, depth, req);
              ctx.eval();
              auto fail = [&](const std::string &sig, const std::string &what, size_t slot, double expect, double got)
              {
                ctx.violation(sig, JObj().str("what", what).str("features", fdesc).boolean("spherical", sph).raw("point", jarr(p)).num("depth", depth)
                              .raw("request", jreq(req)).integer("slot", static_cast<long long>(slot)).num("expected", expect).num("observed", got)
                              .raw("output", jarr(out)).str("world", text).done());
              };
              if (out.size() != w->properties_output_size(req))
                {
                  if (!(req.size() == 1 && out.size() == 1))
                    { fail("C03/output-size", "wrong number of values", 0, w->properties_output_size(req), static_cast<double>(out.size())); continue; }
                }
              size_t slot = 0;
              for (size_t ip = 0; ip < req.size(); ++ip)
                {
                  const unsigned kind = req[ip][0];
                  if (kind == 1)
                    {
                      if (force && at_surface)
                        {
                          ctx.count(c_forced);
                          if (inside_possible) ctx.count(c_inside);
                          if (!biteq(out[slot], tsurf) && !(out[slot] == tsurf))
                            fail(std::string("C03/forced-surface-temperature/") + (inside_possible ? "inside-feature" : "outside") + (req.size() == 1 ? "/single" : "/batched"),
                                 "temperature at depth 0 is not the forced surface temperature", slot, tsurf, out[slot]);
                        }
                      else if (!inside_possible)
                        {
                          const long double arg = static_cast<long double>(alpha) * g * depth / c_p;
                          const long double ref = static_cast<long double>(Tp) * expl(arg);
                          ctx.count(c_bg);
                          any_bg = true;
                          const double refd = static_cast<double>(ref);
                          // exp() of a large argument carries a relative error of |arg| ulp
                          const double tol = (1e-13 + 4e-16 * std::fabs(static_cast<double>(arg))) * std::fabs(refd);
                          if (std::isinf(refd) ? !(out[slot] == refd) : !(std::fabs(out[slot] - refd) <= tol))
                            fail("C03/background-temperature", "background adiabat mismatch", slot, static_cast<double>(ref), out[slot]);
                        }
                      slot += 1;
                    }
                  else
                    {
                      const size_t n = kind == 3 ? 10*req[ip][2] : (kind == 5 ? 3 : 1);
                      if (!inside_possible)
                        for (size_t k = 0; k < n; ++k)
                          {
                            const double expect = kind == 4 ? -1.0 : 0.0;
                            ctx.count(c_bg);
                            if (!(out[slot+k] == expect))
                              fail(std::string("C03/background-") + (kind == 2 ? "composition" : kind == 3 ? "grains" : kind == 4 ? "tag" : "velocity"),
                                   "background value mismatch", slot+k, expect, out[slot+k]);
                          }
                      slot += n;
                    }
                }
            }
    if (any_bg) ctx.nontrivial();
    if (idx % 500 == 7)
      ctx.sample(JObj().num("Tp", Tp).num("alpha", alpha).num("cp", c_p).num("g", g).boolean("spherical", sph).str("features", fdesc).num("forced_surface_T", force ? tsurf : NAN).done());
  }
}

int main(int argc, char **argv)
{
  Spec spec;
  spec.property = "C03";
  spec.level = "exploration";
  spec.rule = "full product of global constants (Tp, alpha, cp, |g|) x coordinate system x feature list kind x forced-surface setting; one world per tuple, "
              "each queried on a 4x2 lattice x 7 depths x 6 request lists; a case is non-trivial when at least one background (outside-feature) value was compared "
              "against the closed form; tuples are distinct by construction";
  spec.assumptions = {"'outside every feature' is decided geometrically by the harness: all features live at x >= 0 (or >= 0.5 lattice units), background points have x < 0",
                      "closed form evaluated in long double, compared with relative tolerance 1e-13; exact equality for zeros, tag and forced temperature"
                     };
  spec.counters = {"forced_surface_checks", "background_checks", "forced_inside_feature_checks"};
  return driver(argc, argv, spec, [](const std::string &tier)
  {
    std::vector<Suite> s(1);
    const bool th = tier == "thorough";
    const auto &tp = th ? TP2 : TP; const auto &al = th ? ALPHA2 : ALPHA; const auto &cp = th ? CP2 : CP; const auto &gr = th ? GRAV2 : GRAV;
    s[0].name = "background";
    s[0].n = tp.size()*al.size()*cp.size()*gr.size()*2*4*TSURF.size();
    s[0].run = [&tp,&al,&cp,&gr](uint64_t i, Ctx &c) { run(tp, al, cp, gr, i, c); };
    s[0].bound = "Tp x alpha x cp x |g| (" + std::to_string(tp.size()) + "x" + std::to_string(al.size()) + "x" + std::to_string(cp.size()) + "x" + std::to_string(gr.size()) +
                 ") x {cartesian,spherical} x {no feature, far feature, half-covering oceanic plate, half-covering stack of all feature types} x force surface T {off,0,293.15,500}; full product";
    return s;
  });
}
