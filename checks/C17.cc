// VARIANTS: rel
// C17 - gwb-dat prints exactly the library's values under its column headers.
// The real tool binaries built from the staged tree are run as subprocesses: the release-like build for the
// value tables (cells compared as strings with the library's values printed through the same default ostream
// formatting by this harness, which links the same libwb.a), the ASan+UBSan build (with libstdc++ assertions)
// for every comment / option / malformed line of the alphabet.
#include "kit.h"
#include "worlds.h"
#include "world_builder/utilities.h"
using namespace kit;
using namespace wbgen;
using WorldBuilder::World;

namespace
{
  const std::string REL_TOOL = "/verif/build/rel/bin/gwb-dat", SAN_TOOL = "/verif/build/san/bin/gwb-dat";

  struct ToolRun { int code = 0; std::string out, err, how; };   // how: ok | exit<n> | abort | segv | fpe | timeout | signal<n>

  std::string slurp(const std::string &p)
  {
    std::ifstream f(p, std::ios::binary);
    std::stringstream ss; ss << f.rdbuf();
    return ss.str();
  }
  ToolRun run_tool(const std::string &tool, const std::string &wb, const std::string &dat, const std::string &tag)
  {
    const std::string base = G().rundir + "/" + tag + std::to_string(G().shard_id);
    const std::string cmd = "ASAN_OPTIONS=detect_leaks=0 UBSAN_OPTIONS=print_stacktrace=0 timeout -s KILL 100 " + tool + " " + wb + " " + dat + " > " + base + ".out 2> " + base + ".err";
    const int st = system(cmd.c_str());
    ToolRun r;
    r.code = WIFEXITED(st) ? WEXITSTATUS(st) : -1;
    r.out = slurp(base + ".out");
    r.err = slurp(base + ".err");
    if (r.code == 0) r.how = "ok";
    else if (r.code == 134) r.how = "abort";
    else if (r.code == 139) r.how = "segv";
    else if (r.code == 136) r.how = "fpe";
    else if (r.code == 137) r.how = "timeout";
    else if (r.code > 128) r.how = "signal" + std::to_string(r.code - 128);
    else r.how = "exit" + std::to_string(r.code);
    return r;
  }
  bool undefined_behaviour(const ToolRun &r)
  {
    return r.how == "segv" || r.how == "fpe" || r.how == "timeout" || r.how.compare(0, 6, "signal") == 0
           || r.err.find("AddressSanitizer") != std::string::npos || r.err.find("runtime error:") != std::string::npos
           || r.err.find("Assertion '") != std::string::npos;
  }
  // a refusal: the tool ended abnormally with a message of its own (uncaught WorldBuilder exception -> terminate)
  bool reported(const ToolRun &r)
  {
    return !undefined_behaviour(r) && r.code != 0 && (r.err.find("what():") != std::string::npos || r.err.size() + r.out.size() > 0);
  }

  std::vector<std::string> split(const std::string &s)
  {
    std::istringstream b(s);
    return std::vector<std::string>((std::istream_iterator<std::string>(b)), std::istream_iterator<std::string>());
  }
  std::string fmt(double v) { std::ostringstream o; o << v; return o.str(); }
  std::string tok(double v)
  {
    // input tokens: shortest of a few styles that round-trips exactly, so that integers, decimals and exponents all occur
    char b[40];
    for (const char *f : {"%.0f", "%.1f", "%.3f", "%g", "%.10g", "%.17g"})
      {
        snprintf(b, sizeof b, f, v);
        if (strtod(b, nullptr) == v && strlen(b) < 14) return b;
      }
    snprintf(b, sizeof b, "%.17g", v);
    return b;
  }

  struct Config
  {
    unsigned world = 0, dim = 3, comps = 0, gcomps = 0, ngrains = 0;
    bool convert = false, comma = false;
    unsigned layout = 0;   // how option lines, comments and blank lines are arranged around the rows
  };
  worlds::Opt opt_of(unsigned w)
  {
    worlds::Opt o;
    o.spherical = (w == 1 || w == 4);
    o.random_models = (w == 2);
    o.variant = (w == 3) ? 1 : 0;
    o.force_surface = (w == 4);
    if (w == 5) { o.custom_cs = true; o.cs0 = {{3.5, 2.5}}; o.cs1 = {{-4.5, -3.5}}; }   // reversed section
    return o;
  }
  std::string describe(const Config &c)
  {
    return JObj().integer("world", c.world).integer("dim", c.dim).integer("compositions", c.comps).integer("grain_compositions", c.gcomps)
           .integer("number_of_grains", c.ngrains).boolean("convert_spherical", c.convert).boolean("comma_separated", c.comma).integer("layout", c.layout).done();
  }

  struct Row { std::vector<std::string> tokens; P3 p3; P2 p2; double depth; };

  std::vector<Row> rows_for(const Config &c, bool spherical)
  {
    std::vector<Row> rows;
    if (c.dim == 3)
      for (auto &q : worlds::lattice(spherical))
        {
          Row r;
          r.depth = q.depth;
          if (c.convert)
            {
              // radius, longitude, latitude in degrees: the tool converts with the library's convention,
              // whatever the coordinate system of the world is
              if (spherical) r.tokens = {tok(R_EARTH - q.depth), tok(q.x), tok(q.y), tok(q.depth)};
              else
                {
                  // cartesian world: describe the lattice point by radius, longitude and latitude
                  const P3 p = query_point(false, q.x, q.y, q.depth);
                  const long double R = sqrtl(static_cast<long double>(p[0])*p[0] + static_cast<long double>(p[1])*p[1] + static_cast<long double>(p[2])*p[2]);
                  char b[3][40];
                  snprintf(b[0], 40, "%.17g", static_cast<double>(R));
                  snprintf(b[1], 40, "%.17g", static_cast<double>(atan2l(p[1], p[0]) * 180.0L / 3.14159265358979323846264338327950288L));
                  snprintf(b[2], 40, "%.17g", static_cast<double>(asinl(p[2] / R) * 180.0L / 3.14159265358979323846264338327950288L));
                  r.tokens = {b[0], b[1], b[2], tok(q.depth)};
                }
              const std::array<double,3> sp = {{strtod(r.tokens[0].c_str(), nullptr), strtod(r.tokens[1].c_str(), nullptr) * (WorldBuilder::Consts::PI/180.), strtod(r.tokens[2].c_str(), nullptr) * (WorldBuilder::Consts::PI/180.)}};
              r.p3 = WorldBuilder::Utilities::spherical_to_cartesian_coordinates(sp).get_array();
            }
          else
            {
              const P3 p = query_point(spherical, q.x, q.y, q.depth);
              r.tokens = {tok(p[0]), tok(p[1]), tok(p[2]), tok(q.depth)};
              r.p3 = {{strtod(r.tokens[0].c_str(), nullptr), strtod(r.tokens[1].c_str(), nullptr), strtod(r.tokens[2].c_str(), nullptr)}};
            }
          rows.push_back(r);
        }
    else
      for (auto &q : worlds::lattice2(spherical))
        {
          Row r;
          r.depth = q.depth;
          r.tokens = {tok(q.x), tok(q.z), tok(q.depth)};
          r.p2 = {{strtod(r.tokens[0].c_str(), nullptr), strtod(r.tokens[1].c_str(), nullptr)}};
          rows.push_back(r);
        }
    // pairs of rows whose entries, written one after the other without a separator, give the same string (a cache keyed that way mixes them up)
    if (c.dim == 3)
      {
        std::vector<std::array<std::string,4>> extra;
        if (c.convert) extra = {{{tok(R_EARTH - 5e4), "0.5", "1.5", "50000"}}, {{tok(R_EARTH - 5e4), "0.51", ".5", "50000"}}, {{tok(R_EARTH - 5e4), "0.5", "1.5", "50000"}}, {{"6321000", "-2", "20", "50000"}}, {{"6321000", "-22", "0", "50000"}}};
        else if (!spherical) extra = {{{"50000", "150000", "950000", "50000"}}, {{"500001", "50000", "950000", "50000"}}, {{"50000", "150000", "950000", "50000"}}, {{"-2", "50000", "990000", "10000"}}, {{"-25", "0000", "990000", "10000"}}};
        for (auto &e : extra)
          {
            Row r; r.tokens = {e[0], e[1], e[2], e[3]}; r.depth = strtod(e[3].c_str(), nullptr);
            if (c.convert)
              {
                const std::array<double,3> sp = {{strtod(e[0].c_str(), nullptr), strtod(e[1].c_str(), nullptr) * (WorldBuilder::Consts::PI/180.), strtod(e[2].c_str(), nullptr) * (WorldBuilder::Consts::PI/180.)}};
                r.p3 = WorldBuilder::Utilities::spherical_to_cartesian_coordinates(sp).get_array();
              }
            else r.p3 = {{strtod(e[0].c_str(), nullptr), strtod(e[1].c_str(), nullptr), strtod(e[2].c_str(), nullptr)}};
            rows.push_back(r);
          }
      }
    return rows;
  }

  std::vector<std::string> option_lines(const Config &c)
  {
    std::vector<std::string> o;
    o.push_back("# dim = " + std::to_string(c.dim));
    o.push_back("# compositions = " + std::to_string(c.comps));
    o.push_back("# grain compositions = " + std::to_string(c.gcomps));
    o.push_back("# number of grains = " + std::to_string(c.ngrains));
    if (c.convert) o.push_back("# convert spherical = true");
    else if (c.layout % 2 == 1) o.push_back("# convert spherical = false");
    return o;
  }

  // the data file: option lines, comments and blank lines arranged according to the layout, then / between the rows
  std::string data_file(const Config &c, const std::vector<Row> &rows, const std::vector<std::string> &extra_lines = {}, int extra_pos = -1)
  {
    std::vector<std::string> opts = option_lines(c);
    std::vector<std::string> lines;
    auto rowline = [&](const Row &r)
    {
      std::string l;
      for (size_t i = 0; i < r.tokens.size(); ++i) l += (i ? (c.comma ? ", " : " ") : "") + r.tokens[i];
      return l;
    };
    const unsigned lay = c.layout % 9;
    // layouts 6 and 7: the option lines are indented (blanks / a tab in front of the #): lines are split into words, so they are option lines all the same
    if (lay == 6) for (auto &o : opts) o = "   " + o;
    if (lay == 7) for (auto &o : opts) o = "\t" + o;
    // layout 8: a remark behind the value (only the first four words of an option line count)
    if (lay == 8) for (auto &o : opts) o += " # and a remark = 9 behind it";
    if (lay == 1) std::reverse(opts.begin(), opts.end());
    if (lay == 2) std::rotate(opts.begin(), opts.begin() + 2, opts.end());
    if (lay == 3)
      {
        // defaults first, overridden later: the last setting of an option is the one in force
        lines.push_back("# dim = 3");
        lines.push_back("# compositions = 7");
        lines.push_back("# number of grains = 3");
      }
    lines.push_back("# This is a comment in the data");
    lines.push_back("# file. ");
    size_t next_opt = 0;
    if (lay != 4 && lay != 5)
      for (; next_opt < opts.size(); ++next_opt) lines.push_back(opts[next_opt]);
    lines.push_back("# x y z d T and some more words = 5 that mean nothing");
    for (size_t i = 0; i < rows.size(); ++i)
      {
        if (static_cast<int>(i) == extra_pos) for (auto &e : extra_lines) lines.push_back(e);
        if (i % 7 == 3) lines.push_back("");
        if (i % 11 == 5) lines.push_back("   \t ");
        if (i % 13 == 6) lines.push_back("# comment between rows");
        // layouts 4 and 5: option lines scattered between / after the rows
        if (lay == 4 && i % 5 == 2 && next_opt < opts.size()) lines.push_back(opts[next_opt++]);
        lines.push_back(rowline(rows[i]));
      }
    if (extra_pos >= static_cast<int>(rows.size())) for (auto &e : extra_lines) lines.push_back(e);
    for (; next_opt < opts.size(); ++next_opt) lines.push_back(opts[next_opt]);
    std::string t;
    for (size_t i = 0; i < lines.size(); ++i) t += lines[i] + "\n";
    if (lay == 5 && !t.empty()) t.pop_back();    // no newline at the end of the file
    return t;
  }

  std::string write_dat(const std::string &text, const std::string &tag = "d")
  {
    const std::string path = G().rundir + "/" + tag + std::to_string(G().shard_id) + ".dat";
    FILE *f = fopen(path.c_str(), "wb");
    fwrite(text.data(), 1, text.size(), f);
    fclose(f);
    return path;
  }

  // expected cell values by column name, from the library
  struct Expect
  {
    Request req;
    std::vector<size_t> start;
    std::vector<double> out;
    unsigned dim;
    size_t slot_of(const std::string &name, bool &is_echo, size_t &echo_idx) const
    {
      is_echo = false;
      static const std::vector<std::string> e3 = {"x","y","z","d"}, e2 = {"x","z","d"};
      const auto &e = dim == 3 ? e3 : e2;
      for (size_t i = 0; i < e.size(); ++i) if (name == e[i]) { is_echo = true; echo_idx = i; return 0; }
      size_t ri = 0;
      auto find = [&](unsigned kind, unsigned a) -> size_t
      {
        for (ri = 0; ri < req.size(); ++ri) if (req[ri][0] == kind && (kind != 2 && kind != 3 ? true : req[ri][1] == a)) return start[ri];
        return SIZE_MAX;
      };
      if (name == "T") return find(1, 0);
      if (name == "vx") { const size_t s = find(5, 0); return s; }
      if (name == "vy") { const size_t s = find(5, 0); return (dim == 3 && s != SIZE_MAX) ? s + 1 : SIZE_MAX; }
      if (name == "vz") { const size_t s = find(5, 0); return s == SIZE_MAX ? s : s + (dim == 3 ? 2 : 1); }
      if (name == "tag") return find(4, 0);
      unsigned a = 0, g = 0, i = 0, j = 0;
      char tail = 0;
      if (sscanf(name.c_str(), "c%u%c", &a, &tail) == 1) return find(2, a);
      if (sscanf(name.c_str(), "gs%u-%u%c", &a, &g, &tail) == 2)
        {
          const size_t s = find(3, a);
          return (s == SIZE_MAX || g >= req[ri][2]) ? SIZE_MAX : s + g;
        }
      if (sscanf(name.c_str(), "gm%u-%u[%u:%u]", &a, &g, &i, &j) == 4 && i < 3 && j < 3)
        {
          const size_t s = find(3, a);
          return (s == SIZE_MAX || g >= req[ri][2]) ? SIZE_MAX : s + req[ri][2] + 9*g + 3*i + j;
        }
      return SIZE_MAX;
    }
  };
  std::string column_class(const std::string &n)
  {
    if (n == "T") return "temperature";
    if (n[0] == 'v') return "velocity";
    if (n == "tag") return "tag";
    if (n.compare(0, 2, "gs") == 0) return "grain-size";
    if (n.compare(0, 2, "gm") == 0) return "grain-matrix";
    if (n[0] == 'c') return "composition";
    return "echo";
  }

  Request request_of(const Config &c)
  {
    Request r;
    r.push_back({{1,0,0}});
    r.push_back({{5,0,0}});
    for (unsigned k = 0; k < c.comps; ++k) r.push_back({{2,k,0}});
    for (unsigned k = 0; k < c.gcomps; ++k) r.push_back({{3,k,c.ngrains}});
    r.push_back({{4,0,0}});
    return r;
  }

  // compares one table printed by the tool with the library. Returns false when the table could not be parsed at all.
  void compare_table(const Config &c, const std::string &wbtext, const std::string &wbfile, const std::string &dat, const std::vector<Row> &rows, const ToolRun &tr, Ctx &ctx)
  {
    static const int c_cells = Ctx::counter_id("cells_compared"), c_rows = Ctx::counter_id("rows_compared"), c_distinct = Ctx::counter_id("columns_with_distinct_values");
    const std::string dims = c.dim == 3 ? "3d" : "2d";
    auto fail = [&](const std::string &sig, const std::string &what, const std::string &extra = "{}")
    {
      ctx.violation(sig, JObj().str("what", what).raw("config", describe(c)).raw("extra", extra).str("data_file", dat.substr(0, 1500)).str("stdout_head", tr.out.substr(0, 1200))
                    .str("stderr_head", tr.err.substr(0, 600)).str("exit", tr.how).str("world", wbtext).done());
    };
    if (tr.how != "ok") { fail("C17/" + dims + "/valid-file-not-processed/" + tr.how, "the tool did not exit normally on a valid data file"); return; }
    std::vector<std::string> lines;
    { std::stringstream ss(tr.out); std::string l; while (std::getline(ss, l)) lines.push_back(l); }
    if (lines.empty() || lines[0].empty() || lines[0][0] != '#') { fail("C17/" + dims + "/no-header-line", "first output line is not a header"); return; }
    std::vector<std::string> header = split(lines[0]);
    header.erase(header.begin());
    if (lines.size() - 1 != rows.size())
      { fail("C17/" + dims + "/row-count", "number of table rows differs from the number of data rows", JObj().integer("rows_in", static_cast<long long>(rows.size())).integer("rows_out", static_cast<long long>(lines.size()-1)).done()); return; }
    // the library's answers, through a native world built the way the tool builds it (seed 1); same queries in the same order
    World native(wbfile, false, "", 1, false);
    Expect ex;
    ex.req = request_of(c);
    ex.dim = c.dim;
    { size_t s = 0; for (auto &q : ex.req) { ex.start.push_back(s); s += native.properties_output_size({q}); } }
    // every requested value must have a column (checked when every header name is understood; unknown names are reported below)
    {
      size_t total = 0;
      for (auto &q : ex.req) total += native.properties_output_size({q});
      std::vector<bool> covered(total, false);
      bool unknown = false;
      for (auto &nm : header)
        {
          bool is_echo = false; size_t ei = 0;
          const size_t slot = ex.slot_of(nm, is_echo, ei);
          if (is_echo) continue;
          if (slot == SIZE_MAX || slot >= total) unknown = true; else covered[slot] = true;
        }
      // the 2-D table prints the two in-plane velocity components only
      if (c.dim == 2) for (size_t qi = 0; qi < ex.req.size(); ++qi) if (ex.req[qi][0] == 5 && ex.start[qi] + 2 < total) covered[ex.start[qi] + 2] = true;
      if (!unknown)
        for (size_t slot = 0; slot < total; ++slot)
          if (!covered[slot])
            {
              size_t qi = 0;
              while (qi + 1 < ex.req.size() && ex.start[qi+1] <= slot) ++qi;
              const unsigned kind = ex.req[qi][0];
              fail("C17/" + dims + "/requested-value-has-no-column/" + (kind == 1 ? "temperature" : kind == 2 ? "composition" : kind == 3 ? "grains" : kind == 4 ? "tag" : "velocity") +
                   (kind == 3 && c.gcomps > c.comps ? "/more-grain-compositions-than-compositions" : ""),
                   "the table has no column for a value the data file asks for", JObj().integer("output_slot", static_cast<long long>(slot)).integer("request_entry", static_cast<long long>(qi)).str("header", lines[0]).done());
              break;
            }
    }
    std::vector<std::set<std::string>> seen(header.size());
    bool header_reported = false;
    for (size_t ir = 0; ir < rows.size(); ++ir)
      {
        const Row &r = rows[ir];
        ex.out = c.dim == 3 ? native.properties(r.p3, r.depth, ex.req) : native.properties(r.p2, r.depth, ex.req);
        std::vector<std::string> cells = split(lines[ir+1]);
        std::vector<std::string> names = header;
        if (cells.size() != names.size())
          {
            // which header column has no value? try dropping each single column such that all echo columns still line up
            std::string dropped;
            if (cells.size() + 1 == names.size())
              for (size_t k = 0; k < names.size() && dropped.empty(); ++k)
                {
                  bool is_echo; size_t ei;
                  if (ex.slot_of(names[k], is_echo, ei) == SIZE_MAX && !is_echo) { dropped = names[k]; names.erase(names.begin() + static_cast<long>(k)); }
                }
            if (!header_reported)
              {
                header_reported = true;
                if (!dropped.empty()) fail("C17/" + dims + "/header-names-a-column-that-has-no-values/" + dropped, "the header line has one more column than every row; no value is printed for this column");
                else fail("C17/" + dims + "/row-and-header-lengths-differ", "row has a different number of cells than the header", JObj().integer("header", static_cast<long long>(header.size())).integer("row", static_cast<long long>(cells.size())).done());
              }
            if (dropped.empty()) return;
          }
        ctx.count(c_rows);
        for (size_t k = 0; k < names.size(); ++k)
          {
            bool is_echo = false; size_t ei = 0;
            const size_t slot = ex.slot_of(names[k], is_echo, ei);
            ctx.count(c_cells);
            ctx.eval();
            if (k < seen.size()) seen[k].insert(cells[k]);
            if (is_echo)
              {
                if (cells[k] != r.tokens[ei]) fail("C17/" + dims + "/echo-column/" + names[k], "input coordinate / depth not repeated as given", JObj().integer("row", static_cast<long long>(ir)).str("expected", r.tokens[ei]).str("printed", cells[k]).done());
                continue;
              }
            if (slot == SIZE_MAX || slot >= ex.out.size())
              { fail("C17/" + dims + "/unknown-column/" + column_class(names[k]), "header names a column the request does not contain: " + names[k]); continue; }
            const std::string want = fmt(ex.out[slot]);
            if (cells[k] == want) continue;
            // name what was printed instead, if it is another slot of the same answer
            std::string kind = "wrong-value";
            if (slot > 0 && cells[k] == fmt(ex.out[slot-1])) kind = "value-of-the-previous-output-slot";
            else if (slot + 1 < ex.out.size() && cells[k] == fmt(ex.out[slot+1])) kind = "value-of-the-next-output-slot";
            fail("C17/" + dims + "/" + kind + "/" + column_class(names[k]), "cell under column '" + names[k] + "' is not the library's value",
                 JObj().integer("row", static_cast<long long>(ir)).str("column", names[k]).str("expected", want).str("printed", cells[k]).raw("library_output", jarr(ex.out)).raw("request", jreq(ex.req)).done());
          }
      }
    size_t distinct = 0;
    for (auto &s : seen) if (s.size() > 1) ++distinct;
    ctx.count(c_distinct, distinct);
    if (distinct >= 5) ctx.nontrivial();
  }

  // ---------- suite 1: value tables ----------
  std::vector<Config> table_configs(bool thorough)
  {
    std::vector<Config> v;
    const std::vector<unsigned> worlds_q = {0, 1, 2}, worlds_t = {0, 1, 2, 3, 4, 5};
    const std::vector<unsigned> comps_q = {0, 1, 4}, comps_t = {0, 1, 2, 4, 6};
    const std::vector<unsigned> ng_q = {1, 2}, ng_t = {0, 1, 2, 3};
    for (unsigned w : thorough ? worlds_t : worlds_q)
      for (unsigned dim : {2u, 3u})
        for (unsigned comps : thorough ? comps_t : comps_q)
          for (unsigned gc : {0u, 1u, 2u})
            for (unsigned ng : thorough ? ng_t : ng_q)
              for (unsigned conv : {0u, 1u})
                for (unsigned comma : {0u, 1u})
                  {
                    if (gc == 0 && ng != (thorough ? ng_t : ng_q)[0]) continue;
                    if (conv && dim == 2) continue;
                    Config c;
                    c.world = w; c.dim = dim; c.comps = comps; c.gcomps = gc; c.ngrains = (gc == 0 && !thorough) ? 0 : ng; c.convert = conv; c.comma = comma;
                    c.layout = static_cast<unsigned>(v.size()) % 9;
                    v.push_back(c);
                  }
    if (thorough)
      // every arrangement of the option lines for one configuration per dimension
      for (unsigned dim : {2u, 3u}) for (unsigned lay = 0; lay < 9; ++lay) for (unsigned w : {0u, 1u})
            {
              Config c; c.world = w; c.dim = dim; c.comps = 3; c.gcomps = 2; c.ngrains = 2; c.layout = lay; c.comma = lay % 2;
              v.push_back(c);
            }
    return v;
  }

  void run_table(const std::vector<Config> &cfgs, uint64_t idx, Ctx &ctx)
  {
    const Config &c = cfgs[idx];
    const worlds::Opt o = opt_of(c.world);
    const std::string wbtext = worlds::rich(o);
    const std::string wb = write_world_file(wbtext);
    const auto rows = rows_for(c, o.spherical);
    const std::string dat = data_file(c, rows);
    const std::string datp = write_dat(dat);
    const ToolRun tr = run_tool(REL_TOOL, wb, datp, "t");
    compare_table(c, wbtext, wb, dat, rows, tr, ctx);
    if (idx % 40 == 3) ctx.sample(JObj().raw("config", describe(c)).integer("rows", static_cast<long long>(rows.size())).str("header", tr.out.substr(0, tr.out.find('\n'))).done());
  }

  // ---------- suite 2: comment, option and malformed lines (sanitizer build of the tool) ----------
  struct Special { std::string line; char expect; std::string what; };   // expect: 'I' ignored (table unchanged), 'R' must be reported, 'E' either ignored or reported
  std::vector<Special> specials(unsigned dim)
  {
    std::vector<Special> s;
    // every token-prefix of every option line, and the bare '#': lines with a '#' that are not a complete option are comments
    const std::vector<std::string> opts = {"# dim = 3", "# compositions = 2", "# grain compositions = 1", "# number of grains = 2", "# convert spherical = false"};
    s.push_back({"#", 'I', "a line consisting of # alone"});
    for (auto &o : opts)
      {
        const auto t = split(o);
        for (size_t n = 2; n < t.size(); ++n)
          {
            std::string l;
            for (size_t i = 0; i < n; ++i) l += (i ? " " : "") + t[i];
            s.push_back({l, n + 1 == t.size() ? 'E' : 'I', "comment that is a proper prefix of an option line"});
          }
      }
    for (size_t n = 1; n <= 8; ++n)
      {
        std::string l = "#";
        for (size_t i = 0; i < n; ++i) l += " w" + std::to_string(i);
        s.push_back({l, 'I', "comment of " + std::to_string(n) + " words"});
      }
    s.push_back({"# random text here", 'I', "documented example of an ignored line"});
    s.push_back({"# dimension = 2", 'I', "comment that resembles an option"});
    s.push_back({"# number of compositions = 2", 'I', "comment that resembles an option"});
    s.push_back({"# grain = 2", 'I', "comment that resembles an option"});
    s.push_back({"# convert spherical = maybe", 'E', "option with an undocumented value"});
    if (dim == 2) s.push_back({"# convert spherical = true", 'R', "convert spherical is only available in 3-D: a 2-D file asking for it is refused"});
    // malformed rows
    const std::vector<std::string> good = dim == 3 ? std::vector<std::string>{"1e5", "2e5", "9e5", "1e5"} : std::vector<std::string>{"1e5", "9e5", "1e5"};
    auto join = [](const std::vector<std::string> &t) { std::string l; for (size_t i = 0; i < t.size(); ++i) l += (i ? " " : "") + t[i]; return l; };
    for (size_t n = 1; n < good.size(); ++n) s.push_back({join(std::vector<std::string>(good.begin(), good.begin() + static_cast<long>(n))), 'R', "row with too few columns"});
    { auto t = good; t.push_back("7"); s.push_back({join(t), 'R', "row with too many columns"}); t.push_back("8"); s.push_back({join(t), 'R', "row with too many columns"}); }
    for (size_t k = 0; k < good.size(); ++k)
      for (const char *bad : {"abc", "1e5x", "1.2.3", "--1", "1e", "0x", "1;2", "0x10", "inf", "-Infinity", "nan", "NAN(1)", "1e999", "0X1p3"})   // (hexadecimal, infinite, not-a-number and overflowing spellings are not numbers of a table row either)
        {
          auto t = good; t[k] = bad;
          s.push_back({join(t), 'R', "row with a non-numeric token"});
        }
    { auto t = good; t.back() += "#"; s.push_back({join(t), 'R', "row with trailing garbage"}); }
    // comma separated rows with an empty field: the right count of numbers remains, but they are not in the columns they were written in
    // (an empty field after the last number - a trailing separator - shifts nothing and is not part of this family)
    for (size_t k = 0; k < good.size(); ++k)
      for (const char *sep : {", ", ",", " , "})
        {
          std::vector<std::string> t = good;
          t.insert(t.begin() + static_cast<long>(k), k % 2 ? " " : "");
          std::string l;
          for (size_t i = 0; i < t.size(); ++i) l += (i ? sep : "") + t[i];
          s.push_back({l, 'R', "comma separated row with an empty field"});
        }
    { auto t = good; t.push_back("# trailing comment"); s.push_back({join(t), 'R', "row followed by text"}); }
    s.push_back({"#dim = 2", 'R', "option line without a blank after # is not an option or comment line but a malformed row"});
    // options the tool documents as refused
    s.push_back({"# dim = x", 'R', "dimension that is not a number"});
    s.push_back({"# compositions = many", 'R', "composition count that is not a number"});
    s.push_back({"# number of grains = 1.5", 'R', "grain count that is not an integer"});
    if (dim == 2) s.push_back({"# convert spherical = true", 'R', "convert spherical is only allowed in 3D"});
    return s;
  }

  void run_special(unsigned nspecial2, uint64_t idx, Ctx &ctx)
  {
    static const int c_ign = Ctx::counter_id("lines_ignored_as_comment"), c_rep = Ctx::counter_id("lines_reported"), c_runs = Ctx::counter_id("sanitizer_tool_runs");
    // idx -> (dim, special, position)
    const unsigned dim = idx < nspecial2 * 3ull ? 2 : 3;
    const uint64_t local = dim == 2 ? idx : idx - nspecial2 * 3ull;
    const auto sp = specials(dim);
    const Special &s = sp[local / 3];
    const unsigned pos = static_cast<unsigned>(local % 3);
    Config c;
    c.world = dim == 2 ? 0 : 1; c.dim = dim; c.comps = 2; c.gcomps = 1; c.ngrains = 1; c.layout = pos == 1 ? 4 : 0;
    const worlds::Opt o = opt_of(c.world);
    const std::string wbtext = worlds::rich(o);
    const std::string wb = write_world_file(wbtext);
    auto rows = rows_for(c, o.spherical);
    rows.resize(12);
    static std::map<unsigned, std::string> reference;   // per process: the table without the special line
    if (!reference.count(dim * 10 + c.layout))
      {
        const ToolRun r0 = run_tool(SAN_TOOL, wb, write_dat(data_file(c, rows)), "s");
        ctx.count(c_runs);
        if (r0.how != "ok" || undefined_behaviour(r0))
          {
            ctx.violation("C17/" + std::to_string(dim) + "d/sanitizer-build/valid-file-not-processed", JObj().str("exit", r0.how).str("stderr", r0.err.substr(0, 1500)).raw("config", describe(c)).done());
            return;
          }
        reference[dim * 10 + c.layout] = r0.out;
      }
    const int at = pos == 0 ? 0 : pos == 1 ? 6 : static_cast<int>(rows.size());
    const std::string dat = data_file(c, rows, {s.line}, at);
    const ToolRun r = run_tool(SAN_TOOL, wb, write_dat(dat), "s");
    ctx.count(c_runs);
    ctx.eval();
    ctx.nontrivial();
    const std::string dims = std::to_string(dim) + "d";
    auto fail = [&](const std::string &sig, const std::string &what)
    {
      ctx.violation(sig, JObj().str("what", what).str("line", s.line).str("line_kind", s.what).integer("inserted_before_row", at).str("exit", r.how).str("stderr_head", r.err.substr(0, 1800))
                    .str("stdout_head", r.out.substr(0, 600)).str("data_file", dat).raw("config", describe(c)).str("world", wbtext).done());
    };
    const std::string cls = s.expect == 'R' ? "malformed-line" : "comment-line";
    if (undefined_behaviour(r))
      {
        std::string tag = crash_tag(r.err);
        if (tag.empty() && r.err.find("Assertion '") != std::string::npos) tag = "/libstdcxx-assertion";
        // the interesting part of the signature is which family of line does it
        const size_t ntok = split(s.line).size();
        const std::string fam = s.expect == 'R' ? "malformed-line" : (s.line == "#" ? "hash-alone" : (s.what.find("prefix") != std::string::npos ? "option-prefix-comment" : "comment-of-" + std::to_string(ntok - 1) + "-words"));
        fail("C17/" + dims + "/undefined-behaviour-on-" + fam + "/" + r.how + tag, "the tool ran into undefined behaviour (sanitizer report, libstdc++ assertion or fatal signal)");
        return;
      }
    const bool unchanged = r.how == "ok" && r.out == reference[dim * 10 + c.layout];
    if (s.expect == 'I' || s.expect == 'E')
      {
        if (unchanged) { ctx.count(c_ign); return; }
        if (s.expect == 'E' && reported(r)) { ctx.count(c_rep); return; }
        fail("C17/" + dims + "/" + cls + "/comment-not-ignored", "a comment line changed the table or ended the run");
      }
    else
      {
        if (reported(r)) { ctx.count(c_rep); return; }
        fail("C17/" + dims + "/" + cls + "/not-reported/" + sanitize(s.what), r.how == "ok" ? "a malformed line was accepted: the tool exited normally" : "the tool ended without a message");
      }
  }
}

int main(int argc, char **argv)
{
  Spec spec;
  spec.property = "C17";
  spec.level = "exploration";
  spec.rule = "suite tables: full product of worlds x dim x compositions x grain compositions x grains x convert spherical x separator (with nine arrangements of option / comment / blank lines, two of them with indented option lines, one with remarks behind the values "
              "assigned round-robin, all six for selected configurations in the thorough tier); one run of the real gwb-dat binary per tuple on 240 (3-D) / 54 (2-D) rows; every cell is matched "
              "by header name with the library's value printed through the same ostream formatting. suite lines: every comment / option-prefix / malformed line of the alphabet inserted before "
              "the first row, between rows and after the last row, run in the ASan+UBSan build of the tool with libstdc++ assertions. non-trivial: at least five columns take more than one value over the rows";
  spec.assumptions = {"expected strings are produced by this harness from World::properties of the same libwb.a with default ostream formatting (the tool's own formatting), so comparison is exact",
                      "convert spherical: the harness converts (R, lon, lat) with the library's spherical_to_cartesian_coordinates; the convention itself is C19's subject",
                      "a malformed line counts as reported when the tool ends with a non-zero status and prints a message (uncaught WorldBuilder exception); a sanitizer report, libstdc++ assertion or fatal signal other than abort is undefined behaviour"
                     };
  spec.counters = {"cells_compared", "rows_compared", "columns_with_distinct_values", "lines_ignored_as_comment", "lines_reported", "sanitizer_tool_runs"};
  spec.quick_deadline_s = 240;
  spec.thorough_deadline_s = 1200;
  return driver(argc, argv, spec, [](const std::string &tier)
  {
    const bool th = tier == "thorough";
    static std::vector<Config> cfgs;
    cfgs = table_configs(th);
    std::vector<Suite> s(2);
    s[0].name = "tables";
    s[0].n = cfgs.size();
    s[0].run = [](uint64_t i, Ctx &c) { run_table(cfgs, i, c); };
    s[0].bound = std::to_string(cfgs.size()) + " configurations: worlds " + (th ? "6" : "3") + " (cartesian, spherical, random models" + (th ? ", other constants, forced surface T, reversed section" : "") + ") x dim {2,3} x compositions "
                 + (th ? "{0,1,2,4,6}" : "{0,1,4}") + " x grain compositions {0,1,2} x grains " + (th ? "{0,1,2,3}" : "{1,2}") + " x convert spherical (3-D, spherical and cartesian worlds) x {blank, comma} separated";
    const unsigned n2 = static_cast<unsigned>(specials(2).size()), n3 = static_cast<unsigned>(specials(3).size());
    s[1].name = "lines";
    s[1].n = (n2 + n3) * 3ull;
    s[1].run = [n2](uint64_t i, Ctx &c) { run_special(n2, i, c); };
    s[1].bound = std::to_string(n2) + " (2-D) + " + std::to_string(n3) + " (3-D) special lines (bare #, every token-prefix of every option line, comments of 1..8 words, look-alike options, rows with too few / too many columns, "
                 "a non-numeric token of 14 kinds (incl. hexadecimal, inf, nan, overflow) at every position, trailing garbage, refused option values) x 3 insertion positions; sanitizer build of the tool";
    s[1].watchdog_s = 300;
    return s;
  });
}
