// VARIANTS: rel
// C19 - geometric kernels agree with their brute-force definitions (direct kernel calls).
#include "kit.h"
#include "wbgen.h"
#include "georef.h"
#include "world_builder/kd_tree.h"
#include "world_builder/objects/bezier_curve.h"
#include "world_builder/utilities.h"
#include "world_builder/coordinate_systems/interface.h"
using namespace kit;
using namespace wbgen;
using georef::IP;
using WorldBuilder::Point;
using WorldBuilder::CoordinateSystem;

namespace
{
  // ---------- kd-tree ----------
  struct KdCase { std::vector<int> pts; };   // lattice point ids in insertion order
  std::shared_ptr<std::vector<KdCase>> kd_cases(int L, size_t max_subset, size_t max_perm)
  {
    auto out = std::make_shared<std::vector<KdCase>>();
    const int N = L*L;
    std::vector<int> cur;
    std::function<void(int)> subsets = [&](int start)
    {
      if (!cur.empty())
        {
          if (cur.size() <= max_perm)
            {
              std::vector<int> p = cur;
              std::sort(p.begin(), p.end());
              do out->push_back({p}); while (std::next_permutation(p.begin(), p.end()));
            }
          else
            {
              out->push_back({cur});
              std::vector<int> r(cur.rbegin(), cur.rend());
              out->push_back({r});
            }
        }
      if (cur.size() == max_subset) return;
      for (int i = start; i < N; ++i) { cur.push_back(i); subsets(i+1); cur.pop_back(); }
    };
    subsets(0);
    return out;
  }
  void run_kd(int L, const std::shared_ptr<std::vector<KdCase>> &cases, uint64_t idx, Ctx &ctx)
  {
    static const int c_q = Ctx::counter_id("kd_queries"), c_ties = Ctx::counter_id("kd_queries_with_ties");
    const KdCase &c = (*cases)[idx];
    // the same point sets at several scales of the lattice unit (kilometres, sixteenths, radians-per-degree): distances below and above 1
    for (const double scale : {1.0, 0.0625, 1e3, 0.017453292519943295})
    {
    std::vector<WorldBuilder::KDTree::Node> nodes;
    for (size_t i = 0; i < c.pts.size(); ++i) nodes.emplace_back(i, scale * static_cast<double>(c.pts[i] / L), scale * static_cast<double>(c.pts[i] % L));
    WorldBuilder::KDTree::KDTree tree(nodes);
    tree.create_tree(0, nodes.size()-1, false);
    // the tree must still hold exactly the given points
    {
      std::vector<std::pair<double,double>> a, b;
      for (auto &n : nodes) a.emplace_back(n.x, n.y);
      for (auto &n : tree.get_nodes()) b.emplace_back(n.x, n.y);
      std::sort(a.begin(), a.end()); std::sort(b.begin(), b.end());
      if (a != b) ctx.violation("C19/kdtree/build-loses-points", JObj().raw("points", jarr(c.pts)).done());
    }
    for (int qx = -1; qx <= 2*(L-1)+1; ++qx) for (int qy = -1; qy <= 2*(L-1)+1; ++qy)
        {
          const double x = scale*0.5*qx, y = scale*0.5*qy;
          const double eps = 1e-12 * scale;
          double best = 1e300; int nbest = 0;
          for (auto &n : nodes)
            {
              const double d = std::sqrt((n.x-x)*(n.x-x) + (n.y-y)*(n.y-y));
              if (d < best - eps) { best = d; nbest = 1; }
              else if (std::fabs(d - best) <= eps) ++nbest;
            }
          ctx.eval();
          ctx.count(c_q);
          if (nbest > 1) ctx.count(c_ties);
          const Point<2> q(x, y, CoordinateSystem::cartesian);
          const auto r = tree.find_closest_point(q);
          const auto rs = tree.find_closest_points(q);
          auto dist_of = [&](size_t index)
          {
            if (index >= tree.get_nodes().size()) return -1.0;
            const auto &n = tree.get_nodes()[index];
            return std::sqrt((n.x-x)*(n.x-x) + (n.y-y)*(n.y-y));
          };
          if (std::fabs(r.distance - best) > eps || std::fabs(dist_of(r.index) - best) > eps)
            ctx.violation("C19/kdtree/find_closest_point", JObj().raw("points_in_insertion_order", jarr(c.pts)).integer("lattice", L).num("scale_of_the_lattice_unit", scale).raw("query", jarr(std::vector<double>{x, y}))
                          .num("brute_force_min", best).num("reported_distance", r.distance).num("distance_of_reported_node", dist_of(r.index)).done());
          if (std::fabs(rs.min_distance - best) > eps || std::fabs(dist_of(rs.min_index) - best) > eps)
            ctx.violation("C19/kdtree/find_closest_points", JObj().raw("points_in_insertion_order", jarr(c.pts)).integer("lattice", L).num("scale_of_the_lattice_unit", scale).raw("query", jarr(std::vector<double>{x, y}))
                          .num("brute_force_min", best).num("reported_distance", rs.min_distance).num("distance_of_reported_node", dist_of(rs.min_index)).done());
        }
    }
    if (c.pts.size() >= 2) ctx.nontrivial();
    if (idx % 997 == 1) ctx.sample(JObj().str("kernel", "kd-tree").raw("lattice_point_ids_in_insertion_order", jarr(c.pts)).done());
  }

  // the polygon kernel in spherical coordinates: polygons of 10-degree lattice cells written with longitudes inside (-180,180], straddling +180,
  // beyond +180 and below -180; the query longitude is always the one in (-180,180] (as the library hands it over). Queries sit on odd quarter
  // steps (never on an edge: degrees times pi/180 is not exact)
  void run_poly_sph(const std::vector<IP> &poly, int L, int flavour, uint64_t idx, Ctx &ctx)
  {
    static const int c_q = Ctx::counter_id("polygon_queries_spherical");
    const double lon0 = flavour == 0 ? -20 : flavour == 1 ? 165 : flavour == 2 ? 190 : -215, lat0 = -10, unit = 10, d2r = PI / 180;
    std::vector<Point<2>> pl;
    for (auto &p : poly) pl.emplace_back((lon0 + unit*static_cast<double>(p[0]))*d2r, (lat0 + unit*static_cast<double>(p[1]))*d2r, CoordinateSystem::spherical);
    std::vector<IP> sp;
    for (auto &p : poly) sp.push_back({{4*p[0], 4*p[1]}});
    bool in = false, out = false;
    for (int64_t ix = -3; ix <= 4*(L-1)+3; ix += 2) for (int64_t iy = -3; iy <= 4*(L-1)+3; iy += 2)
        {
          const bool expect = georef::in_closed_polygon(sp, {{ix, iy}});
          bool boundary = false;   // (odd quarter steps still hit diagonal edges)
          for (size_t i = 0; i < sp.size(); ++i) if (georef::on_segment(sp[i], sp[(i+1)%sp.size()], {{ix, iy}})) boundary = true;
          if (boundary) continue;
          double lon = lon0 + unit*0.25*static_cast<double>(ix);
          while (lon > 180) lon -= 360;
          while (lon <= -180) lon += 360;
          const Point<2> q(lon*d2r, (lat0 + unit*0.25*static_cast<double>(iy))*d2r, CoordinateSystem::spherical);
          const bool got = WorldBuilder::Utilities::polygon_contains_point(pl, q);
          ctx.eval(); ctx.count(c_q);
          (expect ? in : out) = true;
          if (got != expect)
            {
              std::string ps = "[";
              for (size_t i = 0; i < poly.size(); ++i) ps += (i ? "," : "") + std::string("[") + num(lon0 + unit*static_cast<double>(poly[i][0])) + "," + num(lat0 + unit*static_cast<double>(poly[i][1])) + "]";
              const char *FL[] = {"longitudes-within-(-180,180]", "polygon-straddles-+180", "polygon-written-beyond-+180", "polygon-written-below--180"};
              ctx.violation(std::string("C19/polygon-spherical/") + FL[flavour] + (expect ? "/interior-point" : "/exterior-point"),
                            JObj().raw("polygon_lon_lat_degrees", ps + "]").raw("query_lon_lat_degrees", jarr(std::vector<double>{lon, lat0 + unit*0.25*static_cast<double>(iy)})).boolean("expected", expect).boolean("observed", got).done());
            }
        }
    if (in && out) ctx.nontrivial();
    (void)idx;
  }

  // ---------- polygon kernel ----------
  void run_poly(const std::shared_ptr<std::vector<std::vector<IP>>> &P, int L, uint64_t idx, Ctx &ctx)
  {
    static const int c_q = Ctx::counter_id("polygon_queries"), c_b = Ctx::counter_id("polygon_boundary_queries");
    const std::vector<IP> &poly = (*P)[idx % P->size()];
    const int variant = static_cast<int>(idx / P->size());   // 0: unit 1; 1: unit 1e5 + offset; 2: unit 1/1024, negative offset; 3..6: spherical, see run_poly_sph
    if (variant >= 3) { run_poly_sph(poly, L, variant - 3, idx, ctx); return; }
    const double unit = variant == 0 ? 1.0 : variant == 1 ? 1e5 : 1.0/1024, off = variant == 0 ? 0.0 : variant == 1 ? 7e5 : -3.0;
    std::vector<Point<2>> pl;
    for (auto &p : poly) pl.emplace_back(off + unit*static_cast<double>(p[0]), off + unit*static_cast<double>(p[1]), CoordinateSystem::cartesian);
    std::vector<IP> sp;
    for (auto &p : poly) sp.push_back({{2*p[0], 2*p[1]}});
    bool in = false, out = false;
    for (int64_t ix = -1; ix <= 2*(L-1)+1; ++ix) for (int64_t iy = -1; iy <= 2*(L-1)+1; ++iy)
        {
          const bool expect = georef::in_closed_polygon(sp, {{ix, iy}});
          bool boundary = false;
          for (size_t i = 0; i < sp.size(); ++i) if (georef::on_segment(sp[i], sp[(i+1)%sp.size()], {{ix, iy}})) boundary = true;
          const Point<2> q(off + unit*0.5*static_cast<double>(ix), off + unit*0.5*static_cast<double>(iy), CoordinateSystem::cartesian);
          const bool got = WorldBuilder::Utilities::polygon_contains_point(pl, q);
          ctx.eval(); ctx.count(c_q); if (boundary) ctx.count(c_b);
          (expect ? in : out) = true;
          if (got != expect)
            {
              std::string ps = "[";
              for (size_t i = 0; i < poly.size(); ++i) ps += (i ? "," : "") + std::string("[") + std::to_string(poly[i][0]) + "," + std::to_string(poly[i][1]) + "]";
              ctx.violation(std::string("C19/polygon/") + (boundary ? "boundary-point" : expect ? "interior-point" : "exterior-point"),
                            JObj().raw("polygon_lattice", ps + "]").num("unit", unit).num("offset", off).raw("query_half_steps", jarr(std::vector<double>{static_cast<double>(ix), static_cast<double>(iy)}))
                            .boolean("expected", expect).boolean("observed", got).done());
            }
        }
    if (in && out) ctx.nontrivial();
    if (idx % 2003 == 1) ctx.sample(JObj().str("kernel", "polygon_contains_point").integer("vertices", static_cast<long long>(poly.size())).num("unit", unit).done());
  }

  // ---------- Bezier ----------
  std::shared_ptr<std::vector<std::vector<IP>>> polylines(int L, size_t nmax)
  {
    auto out = std::make_shared<std::vector<std::vector<IP>>>();
    std::vector<IP> pts;
    for (int x = 0; x < L; ++x) for (int y = 0; y < L; ++y) pts.push_back({{x, y}});
    std::vector<IP> cur;
    std::function<void()> rec = [&]()
    {
      if (cur.size() >= 2) out->push_back(cur);
      if (cur.size() == nmax) return;
      for (auto &p : pts)
        {
          if (!cur.empty() && p == cur.back()) continue;
          if (cur.size() >= 2)
            {
              const IP &a = cur[cur.size()-2], &b = cur.back();
              const int64_t ux = b[0]-a[0], uy = b[1]-a[1], vx = p[0]-b[0], vy = p[1]-b[1];
              const int64_t dot = ux*vx + uy*vy;
              // bend <= 60 degrees  <=>  cos >= 1/2
              if (dot <= 0 || 4*dot*dot < (ux*ux+uy*uy)*(vx*vx+vy*vy)) continue;
            }
          cur.push_back(p);
          rec();
          cur.pop_back();
        }
    };
    rec();
    return out;
  }
  // judges the kernel's answer for every query against dense sampling + refinement
  void bezier_judge(const WorldBuilder::Objects::BezierCurve &curve, const std::vector<Point<2>> &pts, const std::string &ps, const std::string &shape, const double unit,
                    const std::vector<std::array<double,2>> &queries, Ctx &ctx)
  {
    static const int c_q = Ctx::counter_id("bezier_queries_with_interior_foot"), c_end = Ctx::counter_id("bezier_queries_foot_at_curve_end");
    const size_t nseg = pts.size()-1;
    // samples
    const int NS = 1500;
    std::vector<std::array<double,2>> samp(nseg*(NS+1));
    for (size_t i = 0; i < nseg; ++i) for (int k = 0; k <= NS; ++k)
        {
          const Point<2> p = curve(i, static_cast<double>(k)/NS);
          samp[i*(NS+1)+static_cast<size_t>(k)] = {{p[0], p[1]}};
        }
    for (const auto &qq : queries)
        {
          const double x = qq[0], y = qq[1];
          double best = 1e300; size_t bi = 0;
          for (size_t s = 0; s < samp.size(); ++s)
            {
              const double d = (samp[s][0]-x)*(samp[s][0]-x) + (samp[s][1]-y)*(samp[s][1]-y);
              if (d < best) { best = d; bi = s; }
            }
          const size_t seg = bi / (NS+1); const int k = static_cast<int>(bi % (NS+1));
          // foot at (or next to) a curve end: the property does not speak about it
          if ((seg == 0 && k <= 1) || (seg == nseg-1 && k >= NS-1)) { ctx.count(c_end); continue; }
          // refine by ternary search on [t-h, t+h] (may cross into a neighbouring segment; handled by clamping and re-check)
          auto d2 = [&](size_t s, double t) { const Point<2> p = curve(s, t); return (p[0]-x)*(p[0]-x) + (p[1]-y)*(p[1]-y); };
          double lo = std::max(0.0, (k-1.0)/NS), hi = std::min(1.0, (k+1.0)/NS);
          for (int it = 0; it < 60; ++it) { const double m1 = lo + (hi-lo)/3, m2 = hi - (hi-lo)/3; if (d2(seg, m1) < d2(seg, m2)) hi = m2; else lo = m1; }
          const double dmin = std::sqrt(std::min(best, d2(seg, 0.5*(lo+hi))));
          ctx.eval(); ctx.count(c_q);
          const Point<2> q(x, y, CoordinateSystem::cartesian);
          WorldBuilder::Objects::ClosestPointOnCurve r;
          try { r = curve.closest_point_on_curve_segment(q); }
          catch (const std::exception &e)
            {
              ctx.violation("C19/bezier/closest-point-throws", JObj().raw("polyline_lattice", ps).raw("query", jarr(std::vector<double>{x, y})).str("what", std::string(e.what()).substr(0, 200)).done());
              continue;
            }
          auto detail = [&](const std::string &what)
          {
            return JObj().str("what", what).raw("polyline_lattice", ps).num("unit", unit).raw("query", jarr(std::vector<double>{x, y})).num("brute_force_min_distance", dmin)
                   .integer("brute_force_segment", static_cast<long long>(seg)).num("reported_distance", r.distance).integer("reported_index", static_cast<long long>(r.index))
                   .num("reported_parameter", r.parametric_fraction).raw("reported_point", jarr(std::vector<double>{r.point[0], r.point[1]})).done();
          };
          if (!std::isfinite(r.distance))
            {
              // how much farther is the nearer curve end than the true interior minimum? (a competing local minimum of the
              // distance beyond a curve end is the one mechanism known to make the Newton iteration miss the interior foot)
              const double dend = std::min((pts.front()-q).norm(), (pts.back()-q).norm());
              const double excess = dend/dmin - 1.0;
              const char *bucket = excess < 0.02 ? "curve-end-less-than-2-percent-farther" : excess < 0.10 ? "curve-end-2-to-10-percent-farther" : "curve-end-more-than-10-percent-farther";
              ctx.violation(std::string("C19/bezier/no-foot-found-although-interior/") + shape + "/" + bucket,
                            JObj().num("distance_to_nearer_curve_end", dend).num("relative_excess_of_curve_end", excess).raw("case", detail("no closest point reported although the nearest curve point is interior")).done());
              continue;
            }
          if (r.index >= nseg) { ctx.violation("C19/bezier/index-out-of-range", detail("segment index out of range")); continue; }
          const Point<2> on = curve(r.index, r.parametric_fraction);
          if ((on - r.point).norm() > 1e-6*unit) ctx.violation("C19/bezier/point-not-at-reported-parameter", detail("reported point is not the curve point at the reported parameter"));
          const double dr = (r.point - q).norm();
          if (std::fabs(std::fabs(r.distance) - dr) > 1e-6*unit) ctx.violation("C19/bezier/distance-inconsistent", detail("|reported distance| differs from the distance to the reported point"));
          if (dr > dmin*(1+1e-6) + 1e-6*unit)
            {
              // the missed foot lies on the first / last section and the curve end next to it is less than 2 percent farther: the recorded defect of the iteration
              // (it loses such a foot) shows here as the foot of another section being reported instead of none at all
              const double dend = seg == 0 ? (pts.front()-q).norm() : seg == nseg-1 ? (pts.back()-q).norm() : 1e300;
              const bool near_end = dend/dmin - 1.0 < 0.02;
              ctx.violation("C19/bezier/closer-point-exists/" + shape + (near_end ? "/missed-foot-is-interior-but-the-curve-end-next-to-it-is-less-than-2-percent-farther" : ""),
                            detail("a sampled curve point is noticeably closer than the reported closest point"));
            }
        }
  }

  void run_bezier(const std::shared_ptr<std::vector<std::vector<IP>>> &PL, int L, uint64_t idx, Ctx &ctx)
  {
    const std::vector<IP> &pl = (*PL)[idx];
    const double unit = 1e5;
    std::vector<Point<2>> pts;
    for (auto &p : pl) pts.emplace_back(unit*static_cast<double>(p[0]), unit*static_cast<double>(p[1]), CoordinateSystem::cartesian);
    const WorldBuilder::Objects::BezierCurve curve(pts);
    std::string ps = "[";
    for (size_t i = 0; i < pl.size(); ++i) ps += (i ? "," : "") + std::string("[") + std::to_string(pl[i][0]) + "," + std::to_string(pl[i][1]) + "]";
    ps += "]";
    const size_t nseg = pts.size()-1;
    bool has_collinear = false;
    for (size_t i = 0; i+2 < pl.size(); ++i) if (georef::cross(pl[i], pl[i+1], pl[i+2]) == 0) has_collinear = true;
    const std::string shape = has_collinear ? "polyline-with-exactly-collinear-consecutive-coordinates" : "polyline-without-collinear-coordinates";
    // (1) passes through its coordinates
    for (size_t i = 0; i < nseg; ++i)
      {
        const Point<2> a = curve(i, 0.0), b = curve(i, 1.0);
        if ((a-pts[i]).norm() > 1e-9*unit || (b-pts[i+1]).norm() > 1e-9*unit)
          ctx.violation("C19/bezier/does-not-pass-through-coordinates", JObj().raw("polyline_lattice", ps).integer("segment", static_cast<long long>(i)).done());
      }
    std::vector<std::array<double,2>> queries;
    for (int qx = -2; qx <= 2*(L-1)+2; ++qx) for (int qy = -2; qy <= 2*(L-1)+2; ++qy)
        queries.push_back({{0.5*unit*qx + 0.013*unit, 0.5*unit*qy - 0.007*unit}});   // off the lattice: generic points
    // points on the curve normal through every interior coordinate: their foot is the joint of two curve segments
    for (size_t k = 1; k + 1 < pts.size(); ++k)
      {
        const Point<2> t = curve.get_control_points()[k][0] - pts[k];
        const double tn = t.norm();
        if (!(tn > 0)) continue;
        for (double sd : {0.1, -0.1, 0.3, -0.3, 0.23456, -0.17})
          queries.push_back({{pts[k][0] - sd*unit*t[1]/tn, pts[k][1] + sd*unit*t[0]/tn}});
      }
    bezier_judge(curve, pts, ps, shape, unit, queries, ctx);
    ctx.nontrivial();
    if (idx % 499 == 1) ctx.sample(JObj().str("kernel", "bezier closest point").raw("polyline_lattice", ps).done());
  }

  // ---------- Bezier: one bend, queries on the inside and the outside of it ----------
  // trench A -> B -> C with segment lengths l1, l2 and a bend of beta degrees at B; query points on the curve normals through the last 40% of the
  // segment before the bend and the first 40% after it, at offsets up to 150 km on both sides (the inside of a bend is where the distance
  // function has competing minima and the iteration is slowest)
  struct Bend { double l1, l2, beta; int extra; };
  void run_bezier_bend(const std::shared_ptr<std::vector<Bend>> &B, uint64_t idx, Ctx &ctx)
  {
    const Bend &b = (*B)[idx];
    const double unit = 1e5, br = b.beta * PI / 180;
    std::vector<Point<2>> pts;
    if (b.extra == 1) pts.emplace_back(-b.l1 - 2e5, -0.3e5, CoordinateSystem::cartesian);
    pts.emplace_back(-b.l1, 0.0, CoordinateSystem::cartesian);
    pts.emplace_back(0.0, 0.0, CoordinateSystem::cartesian);
    pts.emplace_back(b.l2*std::cos(br), b.l2*std::sin(br), CoordinateSystem::cartesian);
    if (b.extra == 2) pts.emplace_back(b.l2*std::cos(br) + 2.5e5*std::cos(br*0.5), b.l2*std::sin(br) + 2.5e5*std::sin(br*0.5), CoordinateSystem::cartesian);
    const WorldBuilder::Objects::BezierCurve curve(pts);
    std::string ps = "[";
    for (size_t i = 0; i < pts.size(); ++i) ps += (i ? "," : "") + std::string("[") + num(pts[i][0]) + "," + num(pts[i][1]) + "]";
    ps += "]";
    const size_t s0 = b.extra == 1 ? 1 : 0;    // the segment before the bend
    std::vector<std::array<double,2>> queries;
    for (size_t seg : {s0, s0 + 1})
      for (int k = 0; k <= 32; ++k)
        {
          const double t = seg == s0 ? 0.60 + 0.0125*k : 0.0125*k;
          if (t > 0.9999) continue;
          const Point<2> p = curve(seg, t), p2 = curve(seg, t + 1e-6);
          double tx = p2[0]-p[0], ty = p2[1]-p[1];
          const double tn = std::sqrt(tx*tx + ty*ty);
          if (!(tn > 0)) continue;
          tx /= tn; ty /= tn;
          for (double off : {0.25e5, 0.5e5, 0.75e5, 1e5, 1.25e5, 1.5e5})
            for (double sg : {1.0, -1.0})
              queries.push_back({{p[0] - sg*off*ty, p[1] + sg*off*tx}});
        }
    bezier_judge(curve, pts, ps, "single-bend-family", unit, queries, ctx);
    ctx.nontrivial();
    if (idx % 37 == 1) ctx.sample(JObj().str("kernel", "bezier closest point, bend family").raw("polyline", ps).integer("queries", static_cast<long long>(queries.size())).done());
  }

  // ---------- hooks: many short sections curling one way (every bend below 60 degrees), check points up to 300 km away on a grid ----------
  struct Hook { int n; double len, beta; };
  void run_bezier_hook(const std::shared_ptr<std::vector<Hook>> &H, uint64_t idx, Ctx &ctx)
  {
    const Hook &h = (*H)[idx];
    std::vector<Point<2>> pts;
    double x = 0, y = 0, dir = 0, xmin = 0, xmax = 0, ymin = 0, ymax = 0;
    pts.emplace_back(x, y, CoordinateSystem::cartesian);
    for (int i = 1; i < h.n; ++i)
      {
        x += h.len * std::cos(dir); y += h.len * std::sin(dir);
        pts.emplace_back(x, y, CoordinateSystem::cartesian);
        xmin = std::min(xmin, x); xmax = std::max(xmax, x); ymin = std::min(ymin, y); ymax = std::max(ymax, y);
        dir += h.beta * PI / 180;
      }
    const WorldBuilder::Objects::BezierCurve curve(pts);
    std::string ps = "[";
    for (size_t i = 0; i < pts.size(); ++i) ps += (i ? "," : "") + std::string("[") + num(pts[i][0]) + "," + num(pts[i][1]) + "]";
    ps += "]";
    std::vector<std::array<double,2>> queries;
    const double step = 0.47e5;
    for (double qx = xmin - 3e5 + 0.11e5; qx <= xmax + 3e5; qx += step) for (double qy = ymin - 3e5 + 0.07e5; qy <= ymax + 3e5; qy += step) queries.push_back({{qx, qy}});
    bezier_judge(curve, pts, ps, "hook-family", 1e5, queries, ctx);
    ctx.nontrivial();
    if (idx % 7 == 1) ctx.sample(JObj().str("kernel", "bezier closest point, hook family").raw("polyline", ps).integer("queries", static_cast<long long>(queries.size())).done());
  }

  // ---------- Bezier in spherical coordinates: the kernel minimises the haversine of the angular distance ----------
  struct SphCurve { double lon0, lat0, l1, l2, beta; bool two_points; double dir; };
  void run_bezier_sph(const std::shared_ptr<std::vector<SphCurve>> &B, uint64_t idx, Ctx &ctx)
  {
    static const int c_q = Ctx::counter_id("bezier_spherical_queries_with_interior_foot"), c_end = Ctx::counter_id("bezier_queries_foot_at_curve_end");
    const SphCurve &b = (*B)[idx];
    const double d2r = PI / 180;
    std::vector<Point<2>> pts;
    if (b.two_points)
      {
        pts.emplace_back(b.lon0*d2r, b.lat0*d2r, CoordinateSystem::spherical);
        pts.emplace_back((b.lon0 + b.l1*std::cos(b.dir*d2r))*d2r, (b.lat0 + b.l1*std::sin(b.dir*d2r))*d2r, CoordinateSystem::spherical);
      }
    else
      {
        pts.emplace_back((b.lon0 - b.l1)*d2r, b.lat0*d2r, CoordinateSystem::spherical);
        pts.emplace_back(b.lon0*d2r, b.lat0*d2r, CoordinateSystem::spherical);
        pts.emplace_back((b.lon0 + b.l2*std::cos(b.beta*d2r))*d2r, (b.lat0 + b.l2*std::sin(b.beta*d2r))*d2r, CoordinateSystem::spherical);
      }
    const WorldBuilder::Objects::BezierCurve curve(pts);
    std::string ps = "[";
    for (size_t i = 0; i < pts.size(); ++i) ps += (i ? "," : "") + std::string("[") + num(pts[i][0]/d2r) + "," + num(pts[i][1]/d2r) + "]";
    ps += "]";
    const size_t nseg = pts.size() - 1;
    const int NS = 2000;
    std::vector<std::array<double,2>> samp(nseg*(NS+1));
    for (size_t i = 0; i < nseg; ++i) for (int k = 0; k <= NS; ++k) { const Point<2> p = curve(i, static_cast<double>(k)/NS); samp[i*(NS+1)+static_cast<size_t>(k)] = {{p[0], p[1]}}; }
    auto hav = [](double lon, double lat, double qlon, double qlat)
    { const double a = std::sin(0.5*(lat - qlat)), c = std::sin(0.5*(lon - qlon)); return a*a + c*c*std::cos(lat)*std::cos(qlat); };
    std::vector<std::array<double,2>> queries;
    for (size_t seg = 0; seg < nseg; ++seg)
      for (int k = 1; k < 20; ++k)
        {
          const double t = 0.05*k;
          const Point<2> p = curve(seg, t), p2 = curve(seg, t + 1e-6);
          double tx = p2[0]-p[0], ty = p2[1]-p[1];
          const double tn = std::sqrt(tx*tx + ty*ty);
          if (!(tn > 0)) continue;
          tx /= tn; ty /= tn;
          for (double off : {0.25, 0.5, 1.0, 1.5}) for (double sg : {1.0, -1.0})
              queries.push_back({{p[0] - sg*off*d2r*ty, p[1] + sg*off*d2r*tx}});
        }
    for (auto &qq : queries)
      {
        if (std::fabs(qq[1]) > 89.5*d2r) continue;
        double best = 1e300; size_t bi = 0;
        for (size_t sI = 0; sI < samp.size(); ++sI) { const double h = hav(samp[sI][0], samp[sI][1], qq[0], qq[1]); if (h < best) { best = h; bi = sI; } }
        const size_t seg = bi / (NS+1); const int k = static_cast<int>(bi % (NS+1));
        if ((seg == 0 && k <= 1) || (seg == nseg-1 && k >= NS-1)) { ctx.count(c_end); continue; }
        auto hs = [&](size_t sg, double t) { const Point<2> p = curve(sg, t); return hav(p[0], p[1], qq[0], qq[1]); };
        double lo = std::max(0.0, (k-1.0)/NS), hi = std::min(1.0, (k+1.0)/NS);
        for (int it = 0; it < 60; ++it) { const double m1 = lo + (hi-lo)/3, m2 = hi - (hi-lo)/3; if (hs(seg, m1) < hs(seg, m2)) hi = m2; else lo = m1; }
        const double hmin = std::min(best, hs(seg, 0.5*(lo+hi)));
        ctx.eval(); ctx.count(c_q);
        const Point<2> q(qq[0], qq[1], CoordinateSystem::spherical);
        WorldBuilder::Objects::ClosestPointOnCurve r;
        auto detail = [&](const std::string &what)
        {
          return JObj().str("what", what).raw("trench_lon_lat_degrees", ps).raw("query_lon_lat_degrees", jarr(std::vector<double>{qq[0]/d2r, qq[1]/d2r})).num("brute_force_min_haversine", hmin)
                 .integer("brute_force_segment", static_cast<long long>(seg)).num("brute_force_parameter", 0.5*(lo+hi)).num("reported_distance", r.distance).integer("reported_index", static_cast<long long>(r.index)).num("reported_parameter", r.parametric_fraction).done();
        };
        try { r = curve.closest_point_on_curve_segment(q); }
        catch (const std::exception &e) { ctx.violation("C19/bezier-spherical/closest-point-throws", JObj().raw("trench_lon_lat_degrees", ps).raw("query_lon_lat_degrees", jarr(std::vector<double>{qq[0]/d2r, qq[1]/d2r})).str("what", std::string(e.what()).substr(0, 200)).done()); continue; }
        const std::string shape = b.two_points ? "two-point-line" : "single-bend";
        if (!std::isfinite(r.distance))
          {
            // the same classes as in the cartesian family: how much farther is the nearer curve end than the interior minimum?
            const double aend = std::min(2*std::asin(std::sqrt(hav(pts.front()[0], pts.front()[1], qq[0], qq[1]))), 2*std::asin(std::sqrt(hav(pts.back()[0], pts.back()[1], qq[0], qq[1]))));
            const double amin = 2*std::asin(std::sqrt(hmin)), excess = aend/amin - 1.0;
            const char *bucket = excess < 0.02 ? "curve-end-less-than-2-percent-farther" : excess < 0.10 ? "curve-end-2-to-10-percent-farther" : "curve-end-more-than-10-percent-farther";
            ctx.violation("C19/bezier-spherical/no-foot-found-although-interior/" + shape + "/" + bucket, JObj().num("relative_excess_of_curve_end", excess).raw("case", detail("no closest point reported although the nearest curve point is interior")).done());
            continue;
          }
        if (r.index >= nseg) { ctx.violation("C19/bezier-spherical/index-out-of-range", detail("segment index out of range")); continue; }
        const Point<2> on = curve(r.index, r.parametric_fraction);
        if ((on - r.point).norm() > 1e-9) ctx.violation("C19/bezier-spherical/point-not-at-reported-parameter", detail("reported point is not the curve point at the reported parameter"));
        const double hr = hav(r.point[0], r.point[1], qq[0], qq[1]);
        // compared as great-circle angles: "noticeably closer" = by more than 1e-3 relative plus 1e-7 rad (0.6 m on the Earth's surface); the spherical iteration stops within about a metre of the minimum
        const double ang_r = 2*std::asin(std::sqrt(hr)), ang_min = 2*std::asin(std::sqrt(hmin));
        if (ang_r > ang_min*(1 + 1e-3) + 1e-7)
          ctx.violation("C19/bezier-spherical/closer-point-exists/" + shape + (ang_r < 1.01*ang_min ? "/by-less-than-1-percent" : ang_r < 1.1*ang_min ? "/by-1-to-10-percent" : "/by-more-than-10-percent") + (r.index != seg ? "/reported-foot-on-another-segment-than-the-nearest-point" : "/reported-foot-on-the-segment-of-the-nearest-point"), JObj().num("angle_to_reported_point", ang_r).num("smallest_angle_found_by_brute_force", ang_min).raw("case", detail("a sampled curve point is noticeably closer (great-circle angle) than the reported closest point")).done());
      }
    ctx.nontrivial();
    if (idx % 37 == 1) ctx.sample(JObj().str("kernel", "bezier closest point, spherical").raw("trench_lon_lat_degrees", ps).integer("queries", static_cast<long long>(queries.size())).done());
  }

  // ---------- conversions and great circle ----------
  void run_sphere(int step, uint64_t, Ctx &ctx)
  {
    static const int c_conv = Ctx::counter_id("conversion_round_trips"), c_gc = Ctx::counter_id("great_circle_pairs"), c_far = Ctx::counter_id("great_circle_pairs_beyond_90_degrees");
    auto w = make_world(world(coord(true), {}));
    const auto &cs = *w->parameters.coordinate_system;
    const long double PIl = 3.141592653589793238462643383279502884L;
    std::vector<std::array<double,2>> ll;
    for (int lon = -180; lon <= 180; lon += step) for (int lat = -90; lat <= 90; lat += step) ll.push_back({{static_cast<double>(lon), static_cast<double>(lat)}});
    for (double r : {1.0, 3480e3, 6371e3})
      for (auto &a : ll)
        {
          const std::array<double,3> s = {{r, a[0]*PI/180, a[1]*PI/180}};
          const Point<3> c = WorldBuilder::Utilities::spherical_to_cartesian_coordinates(s);
          const std::array<double,3> back = WorldBuilder::Utilities::cartesian_to_spherical_coordinates(c);
          ctx.eval(); ctx.count(c_conv);
          bool ok = std::fabs(back[0]-r) <= 1e-12*r && std::fabs(back[2]-s[2]) <= 1e-7;
          // latitude via acos loses accuracy near the poles (1e-8); longitude is arbitrary at the poles and 2*pi periodic
          const bool pole = std::fabs(std::fabs(a[1]) - 90) < 1e-9;
          if (!pole)
            {
              double dl = std::fabs(back[1]-s[1]);
              dl = std::min(dl, std::fabs(dl - 2*PI));
              ok = ok && dl <= 1e-12;
              ok = ok && std::fabs(back[2]-s[2]) <= 1e-12*std::max(1.0, 1.0/std::cos(s[2])/std::cos(s[2]));
            }
          const Point<3> c2 = WorldBuilder::Utilities::spherical_to_cartesian_coordinates(back);
          ok = ok && (c2 - c).norm() <= 1e-7*r;
          if (!ok)
            ctx.violation("C19/conversion/round-trip", JObj().raw("spherical_r_lon_lat", jarr(s)).raw("back", jarr(back)).done());
        }
    // polar caps: the latitude formula is delicate within a few degrees of a pole
    {
      static const int c_cap = Ctx::counter_id("conversion_round_trips_in_polar_caps");
      for (double r : {1.0, 3480e3, 6371e3})
        for (double colat : {1e-6, 1e-4, 0.004, 0.02, 0.05, 0.1, 0.25, 0.5, 1.0, 1.5, 2.0, 2.5, 2.8, 2.86, 2.9, 3.0, 4.0, 5.0, 8.0})
          for (double south : {1.0, -1.0})
            for (int lon = -180; lon < 180; lon += 30)
              {
                const double th = colat*PI/180;
                const std::array<double,3> s = {{r, lon*PI/180, south*(0.5*PI - th)}};
                const Point<3> c = WorldBuilder::Utilities::spherical_to_cartesian_coordinates(s);
                const std::array<double,3> back = WorldBuilder::Utilities::cartesian_to_spherical_coordinates(c);
                const Point<3> c2 = WorldBuilder::Utilities::spherical_to_cartesian_coordinates(back);
                ctx.eval(); ctx.count(c_cap);
                // the arc cosine resolves the colatitude th to about eps/th
                const double tol = 1e-11 + 2e-15/th;
                double dl = std::fabs(back[1]-s[1]);
                dl = std::min(dl, std::fabs(dl - 2*PI));
                if (!(std::fabs(back[0]-r) <= 1e-12*r && std::fabs(back[2]-s[2]) <= tol && dl*std::sin(th) <= tol && (c2 - c).norm() <= tol*r))
                  ctx.violation("C19/conversion/round-trip/polar-cap", JObj().raw("spherical_r_lon_lat", jarr(s)).raw("back", jarr(back)).num("colatitude_degrees", colat).num("tolerance_radians", tol)
                                .num("position_error", (c2 - c).norm()).done());
              }
    }
    const double R = 6371e3;
    for (auto &a : ll) for (auto &b : ll)
        {
          const long double la1 = a[1]*PIl/180, la2 = b[1]*PIl/180, dlo = (b[0]-a[0])*PIl/180;
          // Vincenty form of the great-circle angle (well conditioned everywhere)
          const long double num_ = sqrtl(powl(cosl(la2)*sinl(dlo), 2) + powl(cosl(la1)*sinl(la2) - sinl(la1)*cosl(la2)*cosl(dlo), 2));
          const long double den_ = sinl(la1)*sinl(la2) + cosl(la1)*cosl(la2)*cosl(dlo);
          const long double ang = atan2l(num_, den_);
          const Point<3> p1(R, a[0]*PI/180, a[1]*PI/180, CoordinateSystem::spherical), p2(R, b[0]*PI/180, b[1]*PI/180, CoordinateSystem::spherical);
          const double d = cs.distance_between_points_at_same_depth(p1, p2);
          ctx.eval(); ctx.count(c_gc);
          if (ang > PIl/2) ctx.count(c_far);
          if (!(std::fabs(d - static_cast<double>(ang*R)) <= 1e-7*R))
            ctx.violation(std::string("C19/great-circle/") + (ang > PIl/2 + 1e-9L ? "pair-more-than-90-degrees-apart" : "pair-within-90-degrees"),
                          JObj().raw("lon_lat_1", jarr(a)).raw("lon_lat_2", jarr(b)).num("reference_distance", static_cast<double>(ang*R)).num("reported_distance", d).done());
        }
    ctx.nontrivial();
    ctx.sample(JObj().str("kernel", "conversions + great circle").integer("lattice_step_degrees", step).integer("points", static_cast<long long>(ll.size())).done());
  }
}

int main(int argc, char **argv)
{
  Spec spec;
  spec.property = "C19";
  spec.level = "exploration";
  spec.rule = "kd-tree: every subset of <= k lattice points in every insertion order (for subsets up to 4 points) x 4 scales of the lattice unit (1, 1/16, 1000, pi/180) x all half-step query points incl. ties; polygon kernel: every simple lattice "
              "polygon (all cyclic starts, both orientations) x 3 scalings x all half-step points incl. every edge/vertex point, exact integer oracle; Bezier: every lattice polyline with 2..4 "
              "points and bends <= 60 degrees x a generic query lattice, oracle = dense sampling + ternary refinement; conversions/great circle: full (lon,lat) lattice, all pairs, long-double "
              "Vincenty reference. non-trivial: >= 2 points / both inside and outside / interior foot; cases distinct by construction";
  spec.assumptions = {"kernels are called directly through their public headers", "Bezier oracle: 1500 samples per segment plus refinement; queries whose nearest curve point is a curve end are not judged (counted)"};
  spec.counters = {"kd_queries", "kd_queries_with_ties", "polygon_queries", "polygon_queries_spherical", "polygon_boundary_queries", "bezier_queries_with_interior_foot", "bezier_spherical_queries_with_interior_foot", "bezier_queries_foot_at_curve_end",
                   "conversion_round_trips", "conversion_round_trips_in_polar_caps", "great_circle_pairs", "great_circle_pairs_beyond_90_degrees"
                  };
  spec.quick_deadline_s = 300; spec.thorough_deadline_s = 1500;
  return driver(argc, argv, spec, [](const std::string &tier)
  {
    const bool th = tier == "thorough";
    std::vector<Suite> s;
    {
      const int L = th ? 4 : 3;
      auto cases = kd_cases(L, th ? 6 : 5, 4);
      Suite a; a.name = "kdtree"; a.n = cases->size(); a.run = [L, cases](uint64_t i, Ctx &c) { run_kd(L, cases, i, c); };
      a.bound = "every subset of <= " + std::to_string(th ? 6 : 5) + " points of the " + std::to_string(L) + "x" + std::to_string(L) + " lattice, every insertion order for subsets of <= 4 points (larger: sorted and reversed)";
      s.push_back(a);
    }
    {
      const int L = th ? 4 : 3; const size_t nmax = th ? 5 : 4;
      auto P = std::make_shared<std::vector<std::vector<IP>>>(georef::lattice_polygons(L, 3, nmax, false));
      if (th) { auto Q = georef::lattice_polygons(3, 5, 6, false); P->insert(P->end(), Q.begin(), Q.end()); }
      Suite a; a.name = "polygon"; a.n = P->size()*7; a.run = [P, L](uint64_t i, Ctx &c) { run_poly(P, L, i, c); };
      a.bound = "all " + std::to_string(P->size()) + " simple lattice polygons (3.." + std::to_string(nmax) + " vertices, " + std::to_string(L) + "x" + std::to_string(L) + " lattice" + (th ? "; plus 5..6 vertices on 3x3" : "") + ") x 3 exact scalings x all half-step points, and x 4 spherical placements (inside (-180,180], straddling +180, written beyond +180, written below -180) x odd quarter-step points";
      s.push_back(a);
    }
    {
      const int L = th ? 4 : 3;
      auto PL = polylines(L, 4);
      Suite a; a.name = "bezier"; a.n = PL->size(); a.run = [PL, L](uint64_t i, Ctx &c) { run_bezier(PL, L, i, c); };
      a.bound = "all " + std::to_string(PL->size()) + " lattice polylines with 2..4 points on the " + std::to_string(L) + "x" + std::to_string(L) + " lattice (100 km unit) with bends <= 60 degrees x (2L+3)^2 generic query points";
      s.push_back(a);
    }
    {
      auto B = std::make_shared<std::vector<Bend>>();
      for (double l1 : {1e5, 3e5, 5e5}) for (double l2 : {1e5, 3e5, 5e5}) for (double beta : (th ? std::vector<double>{-60, -50, -45, -40, -30, -20, -10, 10, 20, 30, 40, 45, 50, 60} : std::vector<double>{-60, -45, -30, 30, 45, 60}))
            for (int extra : {0, 1, 2}) B->push_back({l1, l2, beta, extra});
      Suite bb; bb.name = "bezier_bend"; bb.n = B->size(); bb.run = [B](uint64_t i, Ctx &c) { run_bezier_bend(B, i, c); };
      bb.bound = "trenches with one bend: segment lengths {100,300,500} km x {100,300,500} km x bends {" + std::string(th ? "-60..60 step 10 and +-45" : "+-30, +-45, +-60") + "} degrees x {3 coordinates, a 4th before, a 4th after}; 792 queries each on the curve normals around the bend, offsets 25..150 km on both sides";
      s.push_back(bb);
    }
    {
      auto H = std::make_shared<std::vector<Hook>>();
      for (int n : {5, 7, 9}) for (double len : {0.6e5, 1e5, 1.5e5}) for (double beta : (th ? std::vector<double>{-57, -40, -25, 25, 40, 57} : std::vector<double>{-40, 25, 57})) H->push_back({n, len, beta});
      Suite hk; hk.name = "bezier_hook"; hk.n = H->size(); hk.run = [H](uint64_t i, Ctx &c) { run_bezier_hook(H, i, c); };
      hk.bound = "trenches that curl one way: {5,7,9} coordinates x section lengths {60,100,150} km x bends {" + std::string(th ? "+-25, +-40, +-57" : "-40, 25, 57") + "} degrees at every coordinate; check points on a 47 km grid reaching 300 km beyond the trench";
      s.push_back(hk);
    }
    {
      auto B = std::make_shared<std::vector<SphCurve>>();
      for (auto o : std::vector<std::array<double,2>>{{{10, 0}}, {{170, 45}}, {{-60, 70}}, {{179.5, -30}}})
        {
          for (double l1 : {1.0, 3.0, 5.0}) for (double l2 : {1.0, 3.0}) for (double beta : (th ? std::vector<double>{-60, -45, -30, -15, 15, 30, 45, 60} : std::vector<double>{-60, -30, 30, 60}))
                B->push_back({o[0], o[1], l1, l2, beta, false, 0});
          for (double l1 : {0.3, 1.0, 3.0, 8.0}) for (double dir : {0.0, 30.0, 60.0, 90.0, 135.0, 200.0, 290.0}) B->push_back({o[0], o[1], l1, 0, 0, true, dir});
        }
      Suite bs; bs.name = "bezier_spherical"; bs.n = B->size(); bs.run = [B](uint64_t i, Ctx &c) { run_bezier_sph(B, i, c); };
      bs.bound = "trench lines in spherical coordinates at 4 places (equator, mid latitude across no meridian, latitude 70, across the date line): one bend (segments {1,3,5} x {1,3} degrees, bends " + std::string(th ? "+-15..60" : "+-30, +-60") +
                 ") and two-point lines (4 lengths x 7 directions); queries on the curve normals at 19 parameters per segment x offsets {0.25,0.5,1,1.5} degrees on both sides; haversine brute force";
      s.push_back(bs);
    }
    {
      const int step = th ? 15 : 30;
      Suite a; a.name = "sphere"; a.n = 1; a.run = [step](uint64_t i, Ctx &c) { run_sphere(step, i, c); };
      a.bound = "(lon,lat) lattice with " + std::to_string(step) + " degree step incl. poles and +-180: round trips at 3 radii (plus 19 colatitudes between 1e-6 and 8 degrees around both poles x 12 longitudes), all ordered pairs for the great-circle distance";
      s.push_back(a);
    }
    return s;
  });
}
