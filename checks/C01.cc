// VARIANTS: rel
// C01 - query answers are a pure function of file and query: batching (all request lists up to a
// bound, 2-D and 3-D), single-property entry points, and operation histories (explicit-state search).
#include "kit.h"
#include "worlds.h"
#include <random>
using namespace kit;
using namespace wbgen;
using WorldBuilder::World;

namespace
{
  const std::vector<std::array<unsigned,3>> ATOMS = {{{1,0,0}},{{2,0,0}},{{2,1,0}},{{3,0,1}},{{3,0,3}},{{3,1,2}},{{4,0,0}},{{5,0,0}}};
  const char *ATOMN[] = {"temperature","composition0","composition1","grains(0,1)","grains(0,3)","grains(1,2)","tag","velocity"};
  size_t atom_size(const std::array<unsigned,3> &a) { return a[0] == 3 ? 10*a[2] : a[0] == 5 ? 3 : 1; }

  worlds::Opt opt_for(unsigned kind)
  {
    worlds::Opt o;
    o.spherical = kind == 2;
    o.cross_section = kind != 3;
    o.force_surface = kind == 1;
    return o;
  }
  const char *KINDN[] = {"cartesian+cross-section", "cartesian+cross-section+forced-surface-T", "spherical+cross-section", "cartesian, no cross section"};

  struct Loaded
  {
    unsigned kind = 99;
    std::unique_ptr<World> w;
    std::string text;
    std::vector<P3> p3; std::vector<double> d3;
    std::vector<std::array<double,2>> p2; std::vector<double> d2;
    // standalone answers: [iface][point][atom]
    std::vector<std::vector<std::vector<double>>> alone3, alone2;
  };
  Loaded &load(unsigned kind)
  {
    static Loaded L;
    if (L.kind == kind) return L;
    L = Loaded();
    L.kind = kind;
    const worlds::Opt o = opt_for(kind);
    L.text = worlds::rich(o);
    L.w = make_world(L.text);
    for (auto &pr : worlds::lattice(o.spherical)) { L.p3.push_back(query_point(o.spherical, pr.x, pr.y, pr.depth)); L.d3.push_back(pr.depth); }
    if (o.cross_section)
      for (auto &pr : worlds::lattice2(o.spherical)) { L.p2.push_back({{pr.x, pr.z}}); L.d2.push_back(pr.depth); }
    L.alone3.resize(L.p3.size());
    for (size_t i = 0; i < L.p3.size(); ++i)
      for (auto &a : ATOMS) L.alone3[i].push_back(L.w->properties(L.p3[i], L.d3[i], {a}));
    L.alone2.resize(L.p2.size());
    for (size_t i = 0; i < L.p2.size(); ++i)
      for (auto &a : ATOMS) L.alone2[i].push_back(L.w->properties(L.p2[i], L.d2[i], {a}));
    return L;
  }

  std::vector<unsigned> decode_list(uint64_t li, unsigned maxlen)
  {
    // lists ordered by length, then lexicographically
    uint64_t block = ATOMS.size();
    for (unsigned len = 1; len <= maxlen; ++len)
      {
        if (li < block)
          {
            std::vector<unsigned> l(len);
            for (unsigned k = 0; k < len; ++k) { l[len-1-k] = static_cast<unsigned>(li % ATOMS.size()); li /= ATOMS.size(); }
            return l;
          }
        li -= block;
        block *= ATOMS.size();
      }
    return {};
  }
  uint64_t n_lists(unsigned maxlen) { uint64_t n = 0, b = 1; for (unsigned l = 1; l <= maxlen; ++l) { b *= ATOMS.size(); n += b; } return n; }

  void run_batch(bool twod, unsigned maxlen, uint64_t idx, Ctx &ctx)
  {
    static const int c_blocks = Ctx::counter_id("blocks_compared"), c_diff = Ctx::counter_id("points_where_blocks_differ_from_background");
    const uint64_t nl = n_lists(maxlen);
    const unsigned kind = static_cast<unsigned>(idx / nl);
    const std::vector<unsigned> lst = decode_list(idx % nl, maxlen);
    Loaded &L = load(kind);
    Request req;
    for (unsigned a : lst) req.push_back(ATOMS[a]);
    const size_t np = twod ? L.p2.size() : L.p3.size();
    const unsigned announced = L.w->properties_output_size(req);
    size_t documented = 0;
    for (auto &a : req) documented += atom_size(a);
    bool nontrivial = false;
    for (size_t ip = 0; ip < np; ++ip)
      {
        const double depth = twod ? L.d2[ip] : L.d3[ip];
        const std::vector<double> out = twod ? L.w->properties(L.p2[ip], depth, req) : L.w->properties(L.p3[ip], depth, req);
        ctx.eval();
        auto detail = [&](const std::string &what, size_t block)
        {
          JObj j;
          j.str("what", what).str("world_kind", KINDN[kind]).str("interface", twod ? "2d" : "3d").raw("request", jreq(req)).integer("block", static_cast<long long>(block));
          if (twod) j.raw("point", jarr(L.p2[ip])); else j.raw("point", jarr(L.p3[ip]));
          j.num("depth", depth).raw("batched_output", jarr(out));
          if (block < lst.size()) j.raw("standalone_block", jarr((twod ? L.alone2 : L.alone3)[ip][lst[block]]));
          j.str("world", L.text);
          return j.done();
        };
        if (announced != documented || out.size() != announced)
          {
            ctx.violation(std::string("C01/size/") + (twod ? "2d" : "3d"), detail("announced/documented/returned sizes differ: " + std::to_string(announced) + "/" + std::to_string(documented) + "/" + std::to_string(out.size()), 0));
            continue;
          }
        size_t slot = 0;
        bool multi_grains_before = false;
        for (size_t b = 0; b < lst.size(); ++b)
          {
            const std::vector<double> &alone = (twod ? L.alone2 : L.alone3)[ip][lst[b]];
            const size_t n = atom_size(req[b]);
            ctx.count(c_blocks);
            if (std::memcmp(&out[slot], alone.data(), n*sizeof(double)) != 0)
              ctx.violation(std::string("C01/batch/") + (twod ? "2d" : "3d") + "/block=" + ATOMN[lst[b]] + (multi_grains_before ? "/after-grains-k!=1" : "") +
                            (kind == 1 && depth == 0 ? "/forced-surface" : ""),
                            detail("block differs from the stand-alone query", b));
            if (req[b][0] == 3 && req[b][2] != 1) multi_grains_before = true;
            slot += n;
          }
        // non-trivial: the point is inside some feature (tag != -1) so blocks carry painted values
        const std::vector<double> &tag = (twod ? L.alone2 : L.alone3)[ip][6];
        if (tag[0] != -1) { nontrivial = true; ctx.count(c_diff); }
      }
    if (nontrivial && lst.size() > 1) ctx.nontrivial();
    if (idx % 977 == 5)
      ctx.sample(JObj().str("world_kind", KINDN[kind]).str("interface", twod ? "2d" : "3d").raw("request", jreq(req)).integer("points", static_cast<long long>(np)).done());
  }

  void run_entry(uint64_t idx, Ctx &ctx)
  {
    const unsigned kind = static_cast<unsigned>(idx);
    Loaded &L = load(kind);
    auto bad = [&](const std::string &fn, size_t ip, bool twod)
    {
      JObj j;
      j.str("what", fn + " differs from the stand-alone properties() answer").str("world_kind", KINDN[kind]).num("depth", twod ? L.d2[ip] : L.d3[ip]);
      if (twod) j.raw("point", jarr(L.p2[ip])); else j.raw("point", jarr(L.p3[ip]));
      ctx.violation("C01/entry-point/" + fn + (twod ? "/2d" : "/3d"), j.str("world", L.text).done());
    };
    for (int twod = 0; twod < 2; ++twod)
      {
        const size_t np = twod ? L.p2.size() : L.p3.size();
        for (size_t ip = 0; ip < np; ++ip)
          {
            const auto &al = (twod ? L.alone2 : L.alone3)[ip];
            const double d = twod ? L.d2[ip] : L.d3[ip];
            const double t = twod ? L.w->temperature(L.p2[ip], d) : L.w->temperature(L.p3[ip], d);
            const double tg = twod ? L.w->temperature(L.p2[ip], d, 9.81) : L.w->temperature(L.p3[ip], d, 9.81);
            if (!biteq(t, al[0][0])) bad("temperature", ip, twod);
            if (!biteq(tg, al[0][0])) bad("temperature(gravity)", ip, twod);
            for (unsigned c = 0; c < 2; ++c)
              {
                const double v = twod ? L.w->composition(L.p2[ip], d, c) : L.w->composition(L.p3[ip], d, c);
                if (!biteq(v, al[1+c][0])) bad("composition", ip, twod);
              }
            for (unsigned a = 3; a <= 5; ++a)
              {
                const WorldBuilder::grains g = twod ? L.w->grains(L.p2[ip], d, ATOMS[a][1], ATOMS[a][2]) : L.w->grains(L.p3[ip], d, ATOMS[a][1], ATOMS[a][2]);
                std::vector<double> flat(10*ATOMS[a][2], 0.0);
                g.unroll_into(flat, 0);
                if (!biteq(flat, al[a])) bad("grains", ip, twod);
              }
            ctx.eval(7);
          }
      }
    ctx.nontrivial();
  }

  // ---------------- histories (E2) ----------------
  struct HOp { int kind; };   // 0..5 queries on W1, 6 construct W2, 7 query W2, 8 destroy W2
  const int NOPS = 9;
  const char *OPN[] = {"W1.properties3d[T,c0,g03,vel]", "W1.properties3d[tag]", "W1.properties2d[vel,g12,T]", "W1.temperature3d", "W1.grains3d(0,3)", "W1.composition2d(1)",
                       "construct W2 (other file)", "W2.properties3d[T,c1,vel]", "destroy W2"
                      };
  struct HState
  {
    std::unique_ptr<World> w1, w2;
  };
  std::string engine_string(World &w) { std::stringstream ss; ss << w.get_random_number_engine(); return ss.str(); }

  std::vector<double> do_query(World &w1, int op, const Loaded &L)
  {
    switch (op)
      {
        case 0: return w1.properties(L.p3[61], L.d3[61], {ATOMS[0], ATOMS[1], ATOMS[4], ATOMS[7]});
        case 1: return w1.properties(L.p3[140], L.d3[140], {ATOMS[6]});
        case 2: return w1.properties(L.p2[20], L.d2[20], {ATOMS[7], ATOMS[5], ATOMS[0]});
        case 3: return {w1.temperature(L.p3[97], L.d3[97])};
        case 4: { std::vector<double> f(30, 0.0); w1.grains(L.p3[13], L.d3[13], 0, 3).unroll_into(f, 0); return f; }
        default: return {w1.composition(L.p2[32], L.d2[32], 1)};
      }
  }
  std::vector<std::vector<double>> probe_all(World &w1, const Loaded &L)
  {
    std::vector<std::vector<double>> r;
    for (int op = 0; op < 6; ++op) r.push_back(do_query(w1, op, L));
    return r;
  }

  void run_history(unsigned len, uint64_t idx, Ctx &ctx)
  {
    static const int c_tr = Ctx::counter_id("transitions"), c_traces = Ctx::counter_id("traces"), c_dis = Ctx::counter_id("sequences_with_disabled_op");
    // reference: a world with no history at all (first thing this worker ever does with this file)
    Loaded &L = load(0);
    static std::vector<std::vector<double>> fresh;
    static std::string fresh_engine;
    static std::string text2;
    static std::vector<double> fresh_w2;
    static P3 p_w2;
    if (fresh.empty())
      {
        auto w = make_world(L.text, 1, "h");
        fresh_engine = engine_string(*w);
        fresh = probe_all(*w, L);
        worlds::Opt o2; o2.spherical = true; o2.variant = 1; o2.cross_section = true;
        text2 = worlds::rich(o2);
        p_w2 = query_point(true, 1.5, 0.5, 8e4);
        auto w2 = make_world(text2, 1, "h2");
        fresh_w2 = w2->properties(p_w2, 8e4, {ATOMS[0], ATOMS[2], ATOMS[7]});
      }
    std::vector<int> ops(len);
    uint64_t i = idx;
    for (unsigned k = 0; k < len; ++k) { ops[len-1-k] = static_cast<int>(i % NOPS); i /= NOPS; }
    // enabledness
    bool alive = false;
    for (int op : ops)
      {
        if ((op == 6 && alive) || (op >= 7 && !alive)) { ctx.count(c_dis); return; }
        if (op == 6) alive = true;
        if (op == 8) alive = false;
      }
    HState s;
    s.w1 = make_world(L.text, 1, "h");
    std::string trace;
    auto fail = [&](const std::string &sig, const std::string &what)
    {
      std::string t = "[";
      for (size_t k = 0; k < ops.size(); ++k) t += (k ? "," : "") + jstr(OPN[ops[k]]);
      ctx.violation(sig, JObj().str("what", what).raw("history", t + "]").str("world1", L.text).str("world2", text2).done());
    };
    for (size_t k = 0; k < ops.size(); ++k)
      {
        const int op = ops[k];
        ctx.count(c_tr);
        ctx.eval();
        if (op < 6)
          {
            if (!biteq(do_query(*s.w1, op, L), fresh[op])) fail(std::string("C01/history/op-result/") + OPN[op], "operation result depends on the preceding history");
          }
        else if (op == 6) s.w2 = make_world(text2, 1, "h2");
        else if (op == 7)
          {
            if (!biteq(s.w2->properties(p_w2, 8e4, {ATOMS[0], ATOMS[2], ATOMS[7]}), fresh_w2)) fail("C01/history/w2-result", "second world's answer depends on history");
          }
        else s.w2.reset();
        // state after this transition
        const auto pr = probe_all(*s.w1, L);
        uint64_t h = 1469598103934665603ull;
        for (auto &v : pr) h = fnv(v, h);
        const std::string es = engine_string(*s.w1);
        h = fnv(es, h);
        h = fnv(std::string(s.w2 ? "W2" : "--"), h);
        ctx.key("states", h);
        for (int q = 0; q < 6; ++q)
          if (!biteq(pr[q], fresh[q])) { fail(std::string("C01/history/probe/") + OPN[q], "probe answer after history differs from a fresh world"); break; }
        if (es != fresh_engine) fail("C01/history/engine", "a query on a world without random models advanced the random number engine");
      }
    ctx.count(c_traces);
    ctx.nontrivial();
    if (idx % 4001 == 17)
      {
        std::string t = "[";
        for (size_t k = 0; k < ops.size(); ++k) t += (k ? "," : "") + jstr(OPN[ops[k]]);
        ctx.sample(JObj().raw("history", t + "]").done());
      }
  }
}

int main(int argc, char **argv)
{
  Spec spec;
  spec.property = "C01";
  spec.level = "model_checking";
  spec.rule = "batching suites: every request list of length <= L over an 8-atom alphabet x 4 rich worlds x all lattice points, each block compared bit-for-bit with the stand-alone "
              "query through the same interface (non-trivial: list length >= 2 and at least one point inside a feature); history suites: every operation sequence of length <= D over 9 "
              "operations (6 queries on W1 through different entry points, construct/query/destroy a second world) replayed on fresh objects, canonical state = bit pattern of 6 "
              "probe answers + serialised RNG engine + W2 alive (non-trivial: every enabled sequence; distinct by construction)";
  spec.assumptions = {"request alphabet: temperature, composition 0/1, grains (0,1) (0,3) (1,2), tag, velocity", "worlds without random models (random models are C15)",
                      "every explored trace is an implementation trace (no separate model)"
                     };
  spec.counters = {"blocks_compared", "points_where_blocks_differ_from_background", "transitions", "traces", "sequences_with_disabled_op"};
  spec.quick_deadline_s = 300; spec.thorough_deadline_s = 1500;
  spec.finalize = [](const std::map<std::string,uint64_t> &c, const std::map<std::string,size_t> &k, JObj &cov)
  {
    cov.integer("states", k.count("states") ? static_cast<long long>(k.at("states")) : 0);
    cov.integer("transitions", static_cast<long long>(c.at("transitions")));
    cov.integer("traces_validated_against_impl", static_cast<long long>(c.at("traces")));
  };
  return driver(argc, argv, spec, [](const std::string &tier)
  {
    const bool th = tier == "thorough";
    const unsigned L = th ? 4 : 3, D = th ? 5 : 3;
    std::vector<Suite> s;
    Suite a; a.name = "batch3d"; a.n = 4*n_lists(L); a.run = [L](uint64_t i, Ctx &c) { run_batch(false, L, i, c); };
    a.bound = "all request lists of length 1.." + std::to_string(L) + " over 8 atoms x 4 worlds x 240 points, 3-D interface";
    s.push_back(a);
    Suite b; b.name = "batch2d"; b.n = 3*n_lists(L); b.run = [L](uint64_t i, Ctx &c) { run_batch(true, L, i, c); };
    b.bound = "all request lists of length 1.." + std::to_string(L) + " over 8 atoms x 3 worlds with cross section x 54 points, 2-D interface";
    s.push_back(b);
    Suite e; e.name = "entrypoints"; e.n = 3; e.run = run_entry; e.bound = "temperature/composition/grains entry points (2-D and 3-D) vs properties() on 3 worlds x all points";
    s.push_back(e);
    for (unsigned len = 1; len <= D; ++len)
      {
        Suite h; h.name = "history" + std::to_string(len);
        h.n = 1; for (unsigned k = 0; k < len; ++k) h.n *= NOPS;
        h.run = [len](uint64_t i, Ctx &c) { run_history(len, i, c); };
        h.bound = "all operation sequences of length " + std::to_string(len) + " over 9 operations (disabled sequences skipped and counted)";
        s.push_back(h);
      }
    return s;
  });
}
