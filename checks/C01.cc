// VARIANTS: rel
// C01 - query answers are a pure function of file and query: batching (all request lists up to a
// bound, 2-D and 3-D), single-property entry points, and operation histories (explicit-state search).
#include "kit.h"
#include "worlds.h"
#include <random>
using namespace kit;
using namespace wbgen;
using WorldBuilder::World;

namespace
{
  const std::vector<std::array<unsigned,3>> ATOMS = {{{1,0,0}},{{2,0,0}},{{2,1,0}},{{3,0,1}},{{3,0,3}},{{3,1,2}},{{4,0,0}},{{5,0,0}}};
  const char *ATOMN[] = {"temperature","composition0","composition1","grains(0,1)","grains(0,3)","grains(1,2)","tag","velocity"};
  size_t atom_size(const std::array<unsigned,3> &a) { return a[0] == 3 ? 10*a[2] : a[0] == 5 ? 3 : 1; }

  worlds::Opt opt_for(unsigned kind)
  {
    worlds::Opt o;
    o.spherical = kind == 2;
    o.cross_section = kind != 3;
    if (kind == 5) o.slab_model = 1;
    o.force_surface = kind == 1 || kind == 4;
    o.partial = kind == 4;
    o.water = kind == 5;
    o.sparse = kind == 6;
    return o;
  }
  const unsigned NKINDS = 7;
  const char *KINDN[] = {"cartesian+cross-section", "cartesian+cross-section+forced-surface-T", "spherical+cross-section", "cartesian, no cross section",
                         "cartesian+cross-section+forced-surface-T, features only partly replacing the incoming values (add operations, slab/fault models limited to part of the thickness)",
                         "cartesian+cross-section, oceanic plate and slab (mass conserving) carrying 'tian water content' compositions, which ask the world for the temperature at the point",
                         "cartesian+cross-section, features lacking whole kinds of models (plume without velocity and grains models, slab without composition and velocity, fault without temperature and grains, plates without grains / velocity)"
                        };
  const unsigned KINDS_2D[] = {0, 1, 2, 4, 5, 6};   // the worlds with a cross section

  // probes beyond the shared lattice: just above / at / just below the reference surface (negative depths are what an application with
  // topography or a deformed mesh asks for), and dense lines through the fault and the slab, where part of the thickness keeps incoming values
  std::vector<worlds::Probe> extra3(bool spherical)
  {
    const double s = spherical ? 1.0 : 1e5;
    std::vector<worlds::Probe> out;
    for (double x : {-4.5, -2.0, 0.5, 2.5, 7.0})
      for (double y : {-1.2, 2.0})
        for (double d : {-5.0, -1e-9, -1e-15, 1e-16, 1e-9})
          out.push_back({x*s, y*s, d});
    for (double x : {-3.5, -3.0, -2.5, -2.0, -1.5})
      for (double off : {-0.05, -0.15, -0.25, -0.35})
        for (double d : {1e4, 3e4, 6e4})
          out.push_back({x*s, (-1.0 - (x + 4.0)/6.0 + off)*s, d});
    for (double x : {1.3, 1.6, 1.9, 2.2, 2.6, 3.0})
      for (double y : {-2.0, 1.0})
        for (double d : {3e4, 6e4, 1e5, 1.5e5, 2e5})
          out.push_back({x*s, y*s, d});
    return out;
  }
  std::vector<worlds::Probe2> extra2(bool spherical)
  {
    std::vector<worlds::Probe2> out;
    auto add = [&](double a, double d)
    {
      if (!spherical) out.push_back({a*1e5, CART_TOP - d, d});
      else { const double r = R_EARTH - d, ang = a * PI / 180.0; out.push_back({r*std::cos(ang), r*std::sin(ang), d}); }
    };
    for (double a : {0.0, 2.3, 7.2}) for (double d : {-5.0, -1e-9, 1e-16}) add(a, d);
    for (double a : {3.0, 3.1, 3.2, 3.3, 3.4}) for (double d : {2e4, 4e4, 6e4, 8e4}) add(a, d);
    for (double a : {7.5, 8.0, 8.5, 9.0}) for (double d : {4e4, 8e4, 1.2e5, 1.6e5}) add(a, d);
    return out;
  }

  struct Loaded
  {
    unsigned kind = 99;
    std::unique_ptr<World> w;
    std::string text;
    std::vector<P3> p3; std::vector<double> d3;
    std::vector<std::array<double,2>> p2; std::vector<double> d2;
    // standalone answers: [iface][point][atom]
    std::vector<std::vector<std::vector<double>>> alone3, alone2;
  };
  Loaded &load(unsigned kind)
  {
    static Loaded L;
    if (L.kind == kind) return L;
    L = Loaded();
    L.kind = kind;
    const worlds::Opt o = opt_for(kind);
    L.text = worlds::rich(o);
    L.w = make_world(L.text);
    auto l3 = worlds::lattice(o.spherical);
    for (auto &pr : extra3(o.spherical)) l3.push_back(pr);
    for (auto &pr : l3) { L.p3.push_back(query_point(o.spherical, pr.x, pr.y, pr.depth)); L.d3.push_back(pr.depth); }
    if (o.cross_section)
      {
        auto l2 = worlds::lattice2(o.spherical);
        for (auto &pr : extra2(o.spherical)) l2.push_back(pr);
        for (auto &pr : l2) { L.p2.push_back({{pr.x, pr.z}}); L.d2.push_back(pr.depth); }
      }
    L.alone3.resize(L.p3.size());
    for (size_t i = 0; i < L.p3.size(); ++i)
      for (auto &a : ATOMS) L.alone3[i].push_back(L.w->properties(L.p3[i], L.d3[i], {a}));
    L.alone2.resize(L.p2.size());
    for (size_t i = 0; i < L.p2.size(); ++i)
      for (auto &a : ATOMS) L.alone2[i].push_back(L.w->properties(L.p2[i], L.d2[i], {a}));
    return L;
  }

  std::vector<unsigned> decode_list(uint64_t li, unsigned maxlen)
  {
    // lists ordered by length, then lexicographically
    uint64_t block = ATOMS.size();
    for (unsigned len = 1; len <= maxlen; ++len)
      {
        if (li < block)
          {
            std::vector<unsigned> l(len);
            for (unsigned k = 0; k < len; ++k) { l[len-1-k] = static_cast<unsigned>(li % ATOMS.size()); li /= ATOMS.size(); }
            return l;
          }
        li -= block;
        block *= ATOMS.size();
      }
    return {};
  }
  uint64_t n_lists(unsigned maxlen) { uint64_t n = 0, b = 1; for (unsigned l = 1; l <= maxlen; ++l) { b *= ATOMS.size(); n += b; } return n; }

  void run_batch(bool twod, unsigned maxlen, uint64_t idx, Ctx &ctx)
  {
    static const int c_blocks = Ctx::counter_id("blocks_compared"), c_diff = Ctx::counter_id("points_where_blocks_differ_from_background");
    const uint64_t nl = n_lists(maxlen);
    const unsigned kind = twod ? KINDS_2D[idx / nl] : static_cast<unsigned>(idx / nl);
    const std::vector<unsigned> lst = decode_list(idx % nl, maxlen);
    Loaded &L = load(kind);
    Request req;
    for (unsigned a : lst) req.push_back(ATOMS[a]);
    const size_t np = twod ? L.p2.size() : L.p3.size();
    const unsigned announced = L.w->properties_output_size(req);
    size_t documented = 0;
    for (auto &a : req) documented += atom_size(a);
    bool nontrivial = false;
    for (size_t ip = 0; ip < np; ++ip)
      {
        const double depth = twod ? L.d2[ip] : L.d3[ip];
        const std::vector<double> out = twod ? L.w->properties(L.p2[ip], depth, req) : L.w->properties(L.p3[ip], depth, req);
        ctx.eval();
        auto detail = [&](const std::string &what, size_t block)
        {
          JObj j;
          j.str("what", what).str("world_kind", KINDN[kind]).str("interface", twod ? "2d" : "3d").raw("request", jreq(req)).integer("block", static_cast<long long>(block));
          if (twod) j.raw("point", jarr(L.p2[ip])); else j.raw("point", jarr(L.p3[ip]));
          j.num("depth", depth).raw("batched_output", jarr(out));
          if (block < lst.size()) j.raw("standalone_block", jarr((twod ? L.alone2 : L.alone3)[ip][lst[block]]));
          j.str("world", L.text);
          return j.done();
        };
        if (announced != documented || out.size() != announced)
          {
            ctx.violation(std::string("C01/size/") + (twod ? "2d" : "3d"), detail("announced/documented/returned sizes differ: " + std::to_string(announced) + "/" + std::to_string(documented) + "/" + std::to_string(out.size()), 0));
            continue;
          }
        size_t slot = 0;
        bool multi_grains_before = false;
        for (size_t b = 0; b < lst.size(); ++b)
          {
            const std::vector<double> &alone = (twod ? L.alone2 : L.alone3)[ip][lst[b]];
            const size_t n = atom_size(req[b]);
            ctx.count(c_blocks);
            if (std::memcmp(&out[slot], alone.data(), n*sizeof(double)) != 0)
              ctx.violation(std::string("C01/batch/") + (twod ? "2d" : "3d") + "/block=" + ATOMN[lst[b]] + (multi_grains_before ? "/after-grains-k!=1" : "") +
                            ((kind == 1 || kind == 4) && depth == 0 ? "/forced-surface" : "") + (depth < 0 ? "/negative-depth" : ""),
                            detail("block differs from the stand-alone query", b));
            if (req[b][0] == 3 && req[b][2] != 1) multi_grains_before = true;
            slot += n;
          }
        // non-trivial: the point is inside some feature (tag != -1) so blocks carry painted values
        const std::vector<double> &tag = (twod ? L.alone2 : L.alone3)[ip][6];
        if (tag[0] != -1) { nontrivial = true; ctx.count(c_diff); }
      }
    if (nontrivial && lst.size() > 1) ctx.nontrivial();
    if (idx % 977 == 5)
      ctx.sample(JObj().str("world_kind", KINDN[kind]).str("interface", twod ? "2d" : "3d").raw("request", jreq(req)).integer("points", static_cast<long long>(np)).done());
  }

  void run_entry(uint64_t idx, Ctx &ctx)
  {
    const unsigned kind = KINDS_2D[idx];
    Loaded &L = load(kind);
    auto bad = [&](const std::string &fn, size_t ip, bool twod)
    {
      JObj j;
      j.str("what", fn + " differs from the stand-alone properties() answer").str("world_kind", KINDN[kind]).num("depth", twod ? L.d2[ip] : L.d3[ip]);
      if (twod) j.raw("point", jarr(L.p2[ip])); else j.raw("point", jarr(L.p3[ip]));
      ctx.violation("C01/entry-point/" + fn + (twod ? "/2d" : "/3d"), j.str("world", L.text).done());
    };
    for (int twod = 0; twod < 2; ++twod)
      {
        const size_t np = twod ? L.p2.size() : L.p3.size();
        for (size_t ip = 0; ip < np; ++ip)
          {
            const auto &al = (twod ? L.alone2 : L.alone3)[ip];
            const double d = twod ? L.d2[ip] : L.d3[ip];
            const double t = twod ? L.w->temperature(L.p2[ip], d) : L.w->temperature(L.p3[ip], d);
            const double tg = twod ? L.w->temperature(L.p2[ip], d, 3.7) : L.w->temperature(L.p3[ip], d, 3.7);   // the deprecated gravity argument is documented as unused: any value must do
            if (!biteq(t, al[0][0])) bad("temperature", ip, twod);
            if (!biteq(tg, al[0][0])) bad("temperature(gravity)", ip, twod);
            for (unsigned c = 0; c < 2; ++c)
              {
                const double v = twod ? L.w->composition(L.p2[ip], d, c) : L.w->composition(L.p3[ip], d, c);
                if (!biteq(v, al[1+c][0])) bad("composition", ip, twod);
              }
            // compositions 2 and 3 (not in the atom alphabet; composition 2 is negative inside the oceanic plate of the 'partial' world): against a one-entry properties() call
            for (unsigned c = 2; c < 4; ++c)
              {
                const double v = twod ? L.w->composition(L.p2[ip], d, c) : L.w->composition(L.p3[ip], d, c);
                const double want = twod ? L.w->properties(L.p2[ip], d, {{{2,c,0}}})[0] : L.w->properties(L.p3[ip], d, {{{2,c,0}}})[0];
                if (!biteq(v, want)) bad("composition", ip, twod);
              }
            for (unsigned a = 3; a <= 5; ++a)
              {
                const WorldBuilder::grains g = twod ? L.w->grains(L.p2[ip], d, ATOMS[a][1], ATOMS[a][2]) : L.w->grains(L.p3[ip], d, ATOMS[a][1], ATOMS[a][2]);
                std::vector<double> flat(10*ATOMS[a][2], 0.0);
                g.unroll_into(flat, 0);
                if (!biteq(flat, al[a])) bad("grains", ip, twod);
              }
            ctx.eval(7);
          }
      }
    ctx.nontrivial();
  }

  // ---------------- histories (E2) ----------------
  // Every history runs in a freshly exec'd process, so process-level state (statics, thread-locals, caches)
  // starts pristine and the order "which world is queried first in this process" is part of the explored space.
  // Query operations come in pairs of ADJACENT doubles that straddle a feature boundary (found by bisection in the
  // prepare step): any cache or shared scratch keyed with a tolerance makes the second answer of a pair wrong.
  std::string engine_string(World &w) { std::stringstream ss; ss << w.get_random_number_engine(); return ss.str(); }
  const int NPAIRS = 4;
  const int NOPS = 22;   // 0..7 pair queries (in,out)x4, 8: 2-D batched, 9: grains entry point, 10: construct W2, 11: query W2, 12: destroy W2,
                         // 15 / 16: hydrated oceanic plate ('tian water content' asks the world for the temperature) at ONE cartesian point with two different depth arguments
                         // 17 / 18: W2 tag columns (441 depths) at two surface points 0.03 / 0.02 degrees apart over a mantle layer whose min depth is given at points
                         // 19 / 20: a third world (spherical, all depth surfaces of the area features given at 30 points each): two points and then their mirror images across the
                         //          equatorial plane - same cartesian x and y, other latitude, other local depths (19: north continental, north oceanic; 20: south oceanic, south continental)
                         // 21: a fourth world over the same polygons as the third, with other depth surfaces: a tag column at the oceanic point operation 19 asked last
                         // 13: temperatures inside the second slab (mass conserving, spline of 5 points), 14: temperatures across the first slab (spline of 4 points)
  const char *PAIRN[NPAIRS] = {"continental-plate-west-edge", "mantle-layer-bottom", "slab-top-surface", "plume-rim"};
  std::string opname(int op)
  {
    if (op < 8) return std::string("W1.properties3d[T,c0,tag,vel] at ") + PAIRN[op/2] + (op % 2 ? "/outer-neighbour" : "/inner-neighbour");
    const char *n[] = {"W1.properties2d[vel,g12,T]", "W1.grains3d(0,3)", "construct W2 (spherical file across the dateline)", "W2.properties3d[T,c1,tag] at an aliased longitude", "destroy W2",
                       "W1.temperature at 9 points in the second slab (mass conserving model with a 5-point spline)", "W1.temperature at 25 points across the first slab (mass conserving model with a 4-point spline)",
                       "W1.properties3d[c1,c0,T] in the hydrated oceanic plate, depth argument 30 km", "W1.properties3d[c1,c0,T] at the same cartesian point, depth argument 55 km",
                       "W2.tag down a column through a layer top given at points", "W2.tag down the column 0.03 degrees further east and 0.02 degrees further north",
                       "W3.properties3d[tag,T,c0,c1] at a continental and an oceanic point of the northern hemisphere, between the local plate bottoms of the two hemispheres", "W3.properties3d[tag,T,c0,c1] at the mirror images (same x and y, z negated) of those points, oceanic first",
                       "W4.tag down a column at the oceanic point of W3's operation (same polygons, other depth surfaces)"
                      };
    return n[op-8];
  }
  const Request PAIR_REQ = {{{1,0,0}},{{2,0,0}},{{4,0,0}},{{5,0,0}}};
  const Request W2_REQ = {{{1,0,0}},{{2,1,0}},{{4,0,0}}};

  struct Ref
  {
    P3 pin[NPAIRS], pout[NPAIRS]; double din[NPAIRS], dout[NPAIRS];
    std::vector<std::vector<double>> fresh;   // answers of ops 0..9 and 11 on history-free worlds (index = op)
    std::string engine;
  };
  // W1: both slabs use the mass conserving model with splines of different sizes (a model that keeps a workspace between calls must not let one slab's samples leak into the other's)
  std::string text_w1() { worlds::Opt o = opt_for(0); o.slab_model = 2; o.second_slab = true; o.water = true; return worlds::rich(o); }
  // W2 has its own thermal diffusivity (W1, W3 and W4 use the default): both W1 (operations 15 / 16) and W2 (operation 11) evaluate the oceanic half space model,
  // so a per-process copy of a top-level constant is filled by one world and read by the other
  std::string text_w2()
  {
    worlds::Opt o; o.spherical = true; o.variant = 1; o.shift = 178; o.depth_points = true;
    std::string t = worlds::rich(o);
    const size_t brace = t.find('{');
    if (brace == std::string::npos || t.find("thermal diffusivity") != std::string::npos) { fprintf(stderr, "C01: cannot give W2 its own thermal diffusivity\n"); _exit(3); }
    t.insert(brace + 1, "\"thermal diffusivity\":1.4e-6,");
    return t;
  }
  P3 point_w2() { return query_point(true, 181.5, 0.5, 8e4); }
  std::string text_w3() { worlds::Opt o; o.spherical = true; o.many_depth_points = true; o.area_only = true; return worlds::rich(o); }
  std::string text_w4() { worlds::Opt o; o.spherical = true; o.many_depth_points = true; o.area_only = true; o.depth_seed = 100; return worlds::rich(o); }
  World &world4() { static std::unique_ptr<World> w4 = make_world(text_w4(), 1, "w4"); return *w4; }
  World &world3() { static std::unique_ptr<World> w3 = make_world(text_w3(), 1, "w3"); return *w3; }

  struct Loaded2D { std::array<double,2> p2; double d2; P3 pg; double dg; };
  Loaded2D fixed_points()
  {
    Loaded2D L;
    const auto l2 = worlds::lattice2(false);
    L.p2 = {{l2[20].x, l2[20].z}}; L.d2 = l2[20].depth;
    const auto l3 = worlds::lattice(false);
    L.pg = query_point(false, l3[13].x, l3[13].y, l3[13].depth); L.dg = l3[13].depth;
    return L;
  }
  std::vector<double> do_op(World &w1, World *w2, int op, const Ref &R, const Loaded2D &L2)
  {
    if (op < 8) { const int k = op/2; return op % 2 ? w1.properties(R.pout[k], R.dout[k], PAIR_REQ) : w1.properties(R.pin[k], R.din[k], PAIR_REQ); }
    if (op == 8) return w1.properties(L2.p2, L2.d2, {ATOMS[7], ATOMS[5], ATOMS[0]});
    if (op == 9) { std::vector<double> f(30, 0.0); w1.grains(L2.pg, L2.dg, 0, 3).unroll_into(f, 0); return f; }
    if (op == 13)
      {
        std::vector<double> t;
        for (double dx : {0.9e5, 1.2e5, 1.4e5}) for (double d : {1.3e5, 1.6e5, 1.9e5}) t.push_back(w1.temperature(query_point(false, -3.45e5 - dx, 3.5e5, d), d));
        return t;
      }
    if (op == 15 || op == 16) return w1.properties(P3{{2.5e5, 2e5, CART_TOP - 3e4}}, op == 15 ? 3e4 : 5.5e4, {{{2,1,0}},{{2,0,0}},{{1,0,0}}});
    if (op == 14)
      {
        std::vector<double> t;
        for (int k = 0; k < 16; ++k) { const double d = 4e4 + 1.5e4*k; t.push_back(w1.temperature(query_point(false, 2.0e5, -1.2e5, d), d)); }
        for (int k = 0; k < 9; ++k) { const double d = 1.6e5 + 0.5e4*k; t.push_back(w1.temperature(query_point(false, 2.0e5, -1.2e5, d), d)); }   // the lower edge of the thermal anomaly
        return t;
      }
    if (op == 21)
      {
        // first the very point and depth the third world was asked last (bitwise the same surface point), then the column
        std::vector<double> t = world4().properties(query_point(true, 2.5, 3.0, 1.04e5), 1.04e5, {{{4,0,0}},{{1,0,0}},{{2,0,0}},{{2,1,0}}});
        for (int k = 0; k <= 110; ++k) { const double d = 0.9e5 + 500.0*k; t.push_back(world4().properties(query_point(true, 2.5, 3.0, d), d, {{{4,0,0}}})[0]); }
        return t;
      }
    if (op == 19 || op == 20)
      {
        // plate bottoms: oceanic 98 km (north) / 109 km (south) at longitude 2.5, latitude +-3; continental 113.5 km / 138.75 km at longitude -3.5
        const Request req = {{{4,0,0}},{{1,0,0}},{{2,0,0}},{{2,1,0}}};
        P3 c = query_point(true, -3.5, 3.0, 1.25e5), o = query_point(true, 2.5, 3.0, 1.04e5);
        std::vector<double> out;
        if (op == 19) { out = world3().properties(c, 1.25e5, req); const auto b = world3().properties(o, 1.04e5, req); out.insert(out.end(), b.begin(), b.end()); }
        else { c[2] = -c[2]; o[2] = -o[2]; out = world3().properties(o, 1.04e5, req); const auto b = world3().properties(c, 1.25e5, req); out.insert(out.end(), b.begin(), b.end()); }
        return out;
      }
    if (op == 17 || op == 18)
      {
        // the top of the mantle layer slopes by several hundred metres between the two columns: a lookup remembered with a tolerance in natural coordinates (radians here) moves the tag change
        std::vector<double> t;
        // (on the oceanic side, where the mantle layer's top is the only depth surface given at points that is consulted)
        const double lon = 182.7 + (op == 18 ? 0.03 : 0.0), lat = 1.0 + (op == 18 ? 0.02 : 0.0);
        for (int k = 0; k <= 440; ++k) { const double d = 0.6e5 + 250.0*k; t.push_back(w2->properties(query_point(true, lon, lat, d), d, {{{4,0,0}}})[0]); }
        return t;
      }
    return w2->properties(point_w2(), 8e4, W2_REQ);
  }

  std::string ref_path() { return G().rundir + "/c01_ref.txt"; }
  void write_ref(const Ref &R)
  {
    FILE *f = fopen(ref_path().c_str(), "w");
    for (int k = 0; k < NPAIRS; ++k)
      fprintf(f, "%a %a %a %a %a %a %a %a\n", R.pin[k][0], R.pin[k][1], R.pin[k][2], R.din[k], R.pout[k][0], R.pout[k][1], R.pout[k][2], R.dout[k]);
    for (auto &v : R.fresh) { fprintf(f, "%zu", v.size()); for (double x : v) fprintf(f, " %a", x); fprintf(f, "\n"); }
    fprintf(f, "%s\n", R.engine.c_str());
    fclose(f);
  }
  const Ref &read_ref(bool pairs_only = false)
  {
    static Ref R; static bool done = false;
    if (done) return R;
    FILE *f = fopen(ref_path().c_str(), "r");
    if (!f) { fprintf(stderr, "missing %s (prepare step not run)\n", ref_path().c_str()); _exit(3); }
    for (int k = 0; k < NPAIRS; ++k)
      if (fscanf(f, "%la %la %la %la %la %la %la %la", &R.pin[k][0], &R.pin[k][1], &R.pin[k][2], &R.din[k], &R.pout[k][0], &R.pout[k][1], &R.pout[k][2], &R.dout[k]) != 8) _exit(3);
    R.fresh.resize(NOPS);
    for (int op = 0; op < NOPS && !pairs_only; ++op)
      {
        size_t n = 0;
        if (fscanf(f, "%zu", &n) != 1) _exit(3);
        R.fresh[op].resize(n);
        for (size_t i = 0; i < n; ++i) if (fscanf(f, "%la", &R.fresh[op][i]) != 1) _exit(3);
      }
    if (!pairs_only)
      {
        static char buf[1<<16];
        if (fscanf(f, " %65535[^\n]", buf) != 1) _exit(3);
        R.engine = buf;
      }
    fclose(f);
    done = true;
    return R;
  }

  // prepare step (own fresh process): locate the boundary pairs by bisection, record history-free answers
  void prepare(const std::string &)
  {
    Ref R;
    auto w = make_world(text_w1(), 1, "ref");
    auto tag_at = [&](double x, double y, double d) { return w->properties(query_point(false, x, y, d), d, {{{4,0,0}}})[0]; };
    struct Line { double x0, y0, d0, x1, y1, d1; };
    // endpoints a (inside the named feature) and b (outside it); the tag differs between them
    const Line lines[NPAIRS] =
    {
      {-4.9e5, -3e5, 5e4, -5.1e5, -3e5, 5e4},       // continental plate west edge (x = -5e5), above the mantle layer
      {-3e5, -3e5, 3.9e5, -3e5, -3e5, 4.1e5},       // mantle layer bottom (depth 4e5)
      {1.15e5, -2e5, 8e4, 4e5, -2e5, 8e4},          // from inside the slab across its top surface into the oceanic plate
      {-2.05e5, 2e5, 2e5, -0.2e5, 2e5, 2e5},        // from the plume axis across its rim into the mantle layer
    };
    for (int k = 0; k < NPAIRS; ++k)
      {
        const Line &l = lines[k];
        const bool along_depth = l.d0 != l.d1;
        double a = along_depth ? l.d0 : l.x0, b = along_depth ? l.d1 : l.x1;
        auto tg = [&](double v) { return along_depth ? tag_at(l.x0, l.y0, v) : tag_at(v, l.y0, l.d0); };
        const double ta = tg(a), tb = tg(b);
        if (ta == tb) { fprintf(stderr, "C01 prepare: line %d does not cross a boundary (tag %g)\n", k, ta); _exit(3); }
        // bisection down to adjacent doubles
        for (;;)
          {
            const double m = a + 0.5*(b-a);
            if (m == a || m == b) break;
            if (tg(m) == ta) a = m; else b = m;
          }
        if (std::nextafter(a, b) != b) { fprintf(stderr, "C01 prepare: bisection did not reach adjacent doubles\n"); _exit(3); }
        R.pin[k] = along_depth ? query_point(false, l.x0, l.y0, a) : query_point(false, a, l.y0, l.d0);
        R.pout[k] = along_depth ? query_point(false, l.x0, l.y0, b) : query_point(false, b, l.y0, l.d0);
        R.din[k] = along_depth ? a : l.d0;
        R.dout[k] = along_depth ? b : l.d0;
      }
    // history-free answers: one freshly exec'd process per operation (a brand-new world, queried exactly once),
    // so that neither the bisection above nor any other query can have left traces in the process
    R.fresh.assign(NOPS, {});
    { auto f = make_world(text_w1(), 1, "ref"); R.engine = engine_string(*f); }
    write_ref(R);     // pairs first: the pristine children read them
    for (int op = 0; op < NOPS; ++op)
      {
        if (op == 10 || op == 12) continue;
        const std::string out = exec_child_case("href", static_cast<uint64_t>(op));
        const size_t pos = out.find("S\t");
        if (pos == std::string::npos) { fprintf(stderr, "C01 prepare: pristine child for op %d gave no answer: %s\n", op, out.c_str()); _exit(3); }
        std::stringstream ss(out.substr(pos+2));
        std::string tok;
        while (ss >> tok) { if (tok == "C") break; R.fresh[op].push_back(strtod(tok.c_str(), nullptr)); }
      }
    write_ref(R);
  }

  // hidden suite: answer of one operation on brand-new worlds in this (pristine) process
  void run_href(uint64_t idx, Ctx &ctx)
  {
    const int op = static_cast<int>(idx);
    const Ref &R = read_ref(true);
    const Loaded2D L2 = fixed_points();
    std::unique_ptr<World> w2;
    if (op == 11 || op == 17 || op == 18) w2 = make_world(text_w2(), 1, "r2");
    auto w1 = make_world(text_w1(), 1, "r1");
    const std::vector<double> v = do_op(*w1, w2.get(), op, R, L2);
    std::string sline;
    for (double x : v) { char b[40]; snprintf(b, sizeof b, "%a ", x); sline += b; }
    ctx.sample(sline);
  }

  void run_history(unsigned len, uint64_t idx, Ctx &ctx)
  {
    static const int c_tr = Ctx::counter_id("transitions"), c_traces = Ctx::counter_id("traces"), c_dis = Ctx::counter_id("sequences_with_disabled_op");
    std::vector<int> ops(len);
    uint64_t i = idx;
    for (unsigned k = 0; k < len; ++k) { ops[len-1-k] = static_cast<int>(i % NOPS); i /= NOPS; }
    bool alive = false;
    for (int op : ops)
      {
        if ((op == 10 && alive) || ((op == 11 || op == 12 || op == 17 || op == 18) && !alive)) { ctx.count(c_dis); return; }
        if (op == 10) alive = true;
        if (op == 12) alive = false;
      }
    const Ref &R = read_ref();
    const Loaded2D L2 = fixed_points();
    const std::string t1 = text_w1(), t2 = text_w2();
    // The pairs were located by an in-process bisection (a long query history); their pristine answers must differ,
    // otherwise that history changed what the bisection saw.
    if (len == 1 && idx < 8 && idx % 2 == 0 && biteq(R.fresh[idx], R.fresh[idx+1]))
      ctx.violation(std::string("C01/history/bisection-history-changed-answers/") + PAIRN[idx/2],
                    JObj().str("what", "two adjacent doubles found by bisecting on the tag (in one process) have identical answers in pristine processes: the answers seen during the bisection depended on the preceding queries")
                    .raw("inner", jarr(R.pin[idx/2])).raw("outer", jarr(R.pout[idx/2])).raw("pristine_answer", jarr(R.fresh[idx])).str("world1", t1).done());
    if (len == 1 && idx == 19 && (R.fresh[19].size() != 8 || R.fresh[19][0] == R.fresh[20][4] || R.fresh[19][4] == R.fresh[20][0])) { fprintf(stderr, "C01: the mirrored points of W3 have the same tags in both hemispheres, the pair says nothing\n"); _exit(3); }
    if (len == 1 && idx == 17 && biteq(R.fresh[17], R.fresh[18])) { fprintf(stderr, "C01: the two neighbouring tag columns of W2 have identical pristine answers, the pair says nothing\n"); _exit(3); }
    std::unique_ptr<World> w1 = make_world(t1, 1, "h"), w2;
    auto hist = [&]()
    {
      std::string t = "[";
      for (size_t k = 0; k < ops.size(); ++k) t += (k ? "," : "") + jstr(opname(ops[k]));
      return t + "]";
    };
    auto fail = [&](const std::string &sig, const std::string &what, const std::vector<double> &got, const std::vector<double> &want)
    {
      ctx.violation(sig, JObj().str("what", what).raw("history", hist()).raw("observed", jarr(got)).raw("history_free_answer", jarr(want)).str("world1", t1).str("world2", t2).done());
    };
    for (size_t k = 0; k < ops.size(); ++k)
      {
        const int op = ops[k];
        ctx.count(c_tr);
        ctx.eval();
        if (op == 10) w2 = make_world(t2, 1, "h2");
        else if (op == 12) w2.reset();
        else
          {
            const std::vector<double> got = do_op(*w1, w2.get(), op, R, L2);
            if (!biteq(got, R.fresh[op]))
              fail("C01/history/op-result/" + (op < 8 ? std::string("pair-query/") + PAIRN[op/2] : opname(op)), "operation result depends on the preceding history", got, R.fresh[op]);
          }
      }
    // canonical state reached by this history: all probe answers (each from ... the same objects), engine, W2 alive
    uint64_t h = 1469598103934665603ull;
    for (int op : {0, 1, 2, 3, 4, 5, 6, 7, 8, 9, 14, 13, 16, 15})
      {
        const std::vector<double> got = do_op(*w1, nullptr, op, R, L2);
        h = fnv(got, h);
        if (!biteq(got, R.fresh[op])) { fail("C01/history/probe/" + (op < 8 ? std::string("pair-query/") + PAIRN[op/2] : opname(op)), "probe answer after the history differs from a history-free world", got, R.fresh[op]); break; }
      }
    const std::string es = engine_string(*w1);
    h = fnv(es, h);
    h = fnv(std::string(w2 ? "W2" : "--"), h);
    ctx.key("states", h);
    if (es != R.engine) fail("C01/history/engine", "a query on a world without random models advanced the random number engine", {}, {});
    ctx.count(c_traces);
    ctx.nontrivial();
    if (idx % 401 == 17) ctx.sample(JObj().raw("history", hist()).done());
  }
}

int main(int argc, char **argv)
{
  Spec spec;
  spec.property = "C01";
  spec.level = "model_checking";
  spec.rule = "batching suites: every request list of length <= L over an 8-atom alphabet x 7 rich worlds x all probe points (lattice, depths just above/at/below the surface, lines through the fault and the slab), each block compared bit-for-bit with the stand-alone "
              "query through the same interface (non-trivial: list length >= 2 and at least one point inside a feature); history suites: every operation sequence of length <= D over 22 "
              "operations (queries at 4 pairs of adjacent doubles straddling feature boundaries, 2-D batched query, grains entry point, construct/query/destroy a second, spherical world, tag columns of that world at two points 0.03 degrees apart through a sloping layer top given at points, two points of a third spherical world and their mirror images with the same cartesian x and y, a tag column of a fourth world (same polygons, other depth surfaces) at the point the third world was asked last, temperature profiles through two slabs whose thermal models use splines of different sizes, a hydrated plate at one cartesian point with two depth arguments) "
              "each replayed in a freshly exec'd process, canonical state = bit pattern of 14 probe answers + serialised RNG engine + W2 alive (non-trivial: every enabled sequence; distinct by construction)";
  spec.assumptions = {"request alphabet: temperature, composition 0/1, grains (0,1) (0,3) (1,2), tag, velocity", "worlds without random models (random models are C15)",
                      "every explored trace is an implementation trace (no separate model)"
                     };
  spec.counters = {"blocks_compared", "points_where_blocks_differ_from_background", "transitions", "traces", "sequences_with_disabled_op"};
  spec.quick_deadline_s = 300; spec.thorough_deadline_s = 1500;
  spec.prepare = prepare;
  spec.finalize = [](const std::map<std::string,uint64_t> &c, const std::map<std::string,size_t> &k, JObj &cov)
  {
    cov.integer("states", k.count("states") ? static_cast<long long>(k.at("states")) : 0);
    cov.integer("transitions", static_cast<long long>(c.at("transitions")));
    cov.integer("traces_validated_against_impl", static_cast<long long>(c.at("traces")));
  };
  return driver(argc, argv, spec, [](const std::string &tier)
  {
    const bool th = tier == "thorough";
    const unsigned L = th ? 4 : 3, D = th ? 4 : 3;
    std::vector<Suite> s;
    Suite a; a.name = "batch3d"; a.n = NKINDS*n_lists(L); a.run = [L](uint64_t i, Ctx &c) { run_batch(false, L, i, c); };
    a.bound = "all request lists of length 1.." + std::to_string(L) + " over 8 atoms x 7 worlds x 410 points (lattice + points above/at/below the surface + lines through fault and slab), 3-D interface";
    s.push_back(a);
    Suite b; b.name = "batch2d"; b.n = 6*n_lists(L); b.run = [L](uint64_t i, Ctx &c) { run_batch(true, L, i, c); };
    b.bound = "all request lists of length 1.." + std::to_string(L) + " over 8 atoms x 6 worlds with cross section x 99 points, 2-D interface";
    s.push_back(b);
    Suite e; e.name = "entrypoints"; e.n = 6; e.run = run_entry; e.bound = "temperature/composition/grains entry points (2-D and 3-D) vs properties() on 6 worlds x all points";
    s.push_back(e);
    { Suite r; r.name = "href"; r.n = 0; r.run = run_href; r.bound = "(helper: history-free answers computed in pristine processes; no cases of its own)"; s.push_back(r); }
    for (unsigned len = 1; len <= D; ++len)
      {
        Suite h; h.name = "history" + std::to_string(len);
        h.n = 1; for (unsigned k = 0; k < len; ++k) h.n *= NOPS;
        h.run = [len](uint64_t i, Ctx &c) { run_history(len, i, c); };
        h.fresh_process = true;
        h.bound = "all operation sequences of length " + std::to_string(len) + " over 22 operations (4 boundary-straddling pairs of adjacent doubles, 2-D batched query, grains entry point, "
                  "construct/query/destroy a spherical world across the dateline and two neighbouring tag columns in it, temperature profiles through two slabs with splines of different sizes); each sequence in a freshly exec'd process; disabled sequences skipped and counted";
        s.push_back(h);
      }
    return s;
  });
}
