// VARIANTS: rel
// C05 - models documented by a closed-form expression return that expression.
// One single-feature world per (feature type, model, parameter tuple); geometry is kept elementary so that the model's
// input (depth, distance from a ridge / trench plane / plume axis) is known exactly; the expected value is the documented
// expression evaluated in long double.
#include "kit.h"
#include "wbgen.h"
using namespace kit;
using namespace wbgen;
using WorldBuilder::World;

namespace
{
  typedef long double LD;
  const LD PIl = 3.14159265358979323846264338327950288L;
  // global constants of every world of this check (all written explicitly into the file)
  const double G_TP = 1500, G_ALPHA = 3e-5, G_CP = 1200, G_GRAV = 10, G_KAPPA = 1e-6, G_TSURF = 280;
  const LD YEAR = 60.0L * 60.0L * 24.0L * 365.25L;
  std::string globals(bool sph, double tp = G_TP)
  {
    return coord(sph) + ",\"gravity model\":{\"model\":\"uniform\",\"magnitude\":" + num(G_GRAV) + "},\"potential mantle temperature\":" + num(tp) + ",\"thermal expansion coefficient\":" + num(G_ALPHA)
           + ",\"specific heat\":" + num(G_CP) + ",\"thermal diffusivity\":" + num(G_KAPPA) + ",\"surface temperature\":" + num(G_TSURF);
  }
  LD adiabat(LD tp, LD alpha, LD cp, LD depth) { return tp * expl(alpha * G_GRAV * depth / cp); }
  LD background(LD depth) { return adiabat(G_TP, G_ALPHA, G_CP, depth); }
  LD apply_op(const std::string &op, LD prev, LD v) { return op == "add" ? prev + v : op == "subtract" ? prev - v : v; }

  struct Expect { bool defined = false; LD value = 0; };   // what the documentation promises at a probe (undefined: nothing claimed)
  struct Probe { double x, y, depth; };                    // natural surface coordinates (metres / degrees) and depth

  struct Case
  {
    std::string family, label, world;
    bool spherical = false;
    std::vector<Probe> probes;
    Request request;                      // single request whose first slot is judged
    std::function<Expect(const Probe &)> expect;
    double rel_tol = 1e-9, abs_tol = 1e-9;
    // a recorded defect of the library: the value it makes the library return at a probe, and the class name used in the signature
    // when exactly that value comes back (any other wrong value keeps the plain signature)
    std::function<Expect(const Probe &)> known_wrong;
    std::string known_class;
    // families whose answer is a block of values (grains): every slot of the block is judged; empty vector: nothing claimed at the probe
    std::function<std::vector<LD>(const Probe &)> expect_all;
  };

  // ---------- area features ----------
  const char *AREA[] = {"continental plate", "oceanic plate", "mantle layer"};
  const double FMAX = 2e5;
  std::string area_feature(unsigned f, bool sph, double fmin, const std::string &models, double xmin = -5, double xmax = 5)
  {
    const double s = sph ? 1.0 : 1e5;
    return std::string("{\"model\":\"") + AREA[f] + "\",\"name\":\"A\",\"min depth\":" + num(fmin) + ",\"max depth\":" + num(FMAX) + ",\"coordinates\":" + pts({{xmin*s,-5*s},{xmax*s,-5*s},{xmax*s,5*s},{xmin*s,5*s}}) + "," + models + "}";
  }
  std::vector<Probe> area_probes(bool sph, double fmin)
  {
    const double s = sph ? 1.0 : 1e5;
    std::vector<Probe> p;
    for (auto xy : std::vector<std::array<double,2>>{{{0, 0}}, {{-3.25, 2.5}}, {{4.5, -4.75}}})
      for (double d : {fmin, fmin + 1e3, 3e4, 5e4, 5e4 + 1.0, 7.5e4, 1e5, 1.5e5 - 1.0, 1.5e5, 1.75e5, FMAX - 1e3, FMAX})
        if (d >= fmin) p.push_back({xy[0]*s, xy[1]*s, d});
    return p;
  }
  struct Range { const char *name; double lo, hi; };   // model depth range relative to the feature's [fmin, FMAX]
  std::vector<Range> ranges(double fmin) { return {{"narrower", 5e4, 1.5e5}, {"equal", fmin, FMAX}, {"wider", 0, 3e5}, {"default", -1, -1}}; }
  std::string range_json(const Range &r) { return r.lo < 0 ? std::string() : ",\"min depth\":" + num(r.lo) + ",\"max depth\":" + num(r.hi); }
  void effective(const Range &r, double fmin, double &lo, double &hi) { lo = r.lo < 0 ? fmin : std::max(fmin, r.lo); hi = r.lo < 0 ? FMAX : std::min(FMAX, r.hi); }
  bool in_model_range(const Range &r, double depth) { return r.lo < 0 || (depth >= r.lo && depth <= r.hi); }

  void add_area_cases(std::vector<Case> &out, bool thorough)
  {
    const std::vector<std::string> OPS = {"replace", "add", "subtract"};
    for (unsigned f = 0; f < 3; ++f) for (int sph = 0; sph < 2; ++sph) for (double fmin : {0.0, 2e4})
          for (auto &r : ranges(fmin))
            {
              if (!thorough && sph && fmin > 0) continue;
              auto base = [&](const std::string &family, const std::string &label, const std::string &tm, std::function<Expect(const Probe &)> e, double rel = 1e-9)
              {
                Case c;
                c.family = family; c.label = std::string(AREA[f]) + (sph ? ", spherical" : ", cartesian") + ", feature min depth " + num(fmin) + ", model range " + r.name + ": " + label;
                c.spherical = sph;
                c.world = world(globals(sph), {area_feature(f, sph, fmin, "\"temperature models\":[" + tm + "]")});
                c.probes = area_probes(sph, fmin);
                c.request = {{{1,0,0}}};
                c.expect = e; c.rel_tol = rel;
                out.push_back(c);
              };
              const Range rr = r;
              // uniform
              for (auto &op : OPS) for (double T : {1.0, 293.15, 1777.5, -100.0})
                if (!(T < 0 && op == "replace"))   // (a negative value is an ordinary offset for add / subtract)
                  base("temperature/uniform", "T=" + num(T) + " " + op, "{\"model\":\"uniform\",\"temperature\":" + num(T) + ",\"operation\":\"" + op + "\"" + range_json(r) + "}",
                       [=](const Probe &p) { Expect e; e.defined = true; e.value = in_model_range(rr, p.depth) ? apply_op(op, background(p.depth), T) : background(p.depth); return e; });
              // linear, with the sentinels
              for (double Tt : {300.0, -1.0}) for (double Tb : {1600.0, -1.0}) for (auto &op : OPS)
                    {
                      if (op != "replace" && (Tt < 0 || Tb < 0) && !thorough) continue;
                      base("temperature/linear", "top=" + num(Tt) + " bottom=" + num(Tb) + " " + op,
                           "{\"model\":\"linear\",\"top temperature\":" + num(Tt) + ",\"bottom temperature\":" + num(Tb) + ",\"operation\":\"" + op + "\"" + (rr.lo < 0 ? ",\"max depth\":" + num(FMAX) : range_json(r)) + "}",
                           [=](const Probe &p)
                      {
                        Expect e; e.defined = true;
                        if (!in_model_range(rr, p.depth)) { e.value = background(p.depth); return e; }
                        double lo, hi; effective(rr, fmin, lo, hi);
                        const LD top = Tt < 0 ? background(lo) : static_cast<LD>(Tt), bot = Tb < 0 ? background(hi) : static_cast<LD>(Tb);
                        e.value = apply_op(op, background(p.depth), top + (static_cast<LD>(p.depth) - lo) * (bot - top) / (static_cast<LD>(hi) - lo));
                        return e;
                      });
                    }
              // adiabatic with own / global constants
              for (double tp : {-1.0, 1700.0}) for (double al : {-1.0, 2e-5}) for (double cp : {-1.0, 1000.0})
                    base("temperature/adiabatic", "Tp=" + num(tp) + " alpha=" + num(al) + " cp=" + num(cp),
                         "{\"model\":\"adiabatic\",\"potential mantle temperature\":" + num(tp) + ",\"thermal expansion coefficient\":" + num(al) + ",\"specific heat\":" + num(cp) + range_json(r) + "}",
                         [=](const Probe &p) { Expect e; e.defined = true; e.value = in_model_range(rr, p.depth) ? adiabat(tp < 0 ? G_TP : tp, al < 0 ? G_ALPHA : al, cp < 0 ? G_CP : cp, p.depth) : background(p.depth); return e; });
              if (f == 0)
                // Chapman geotherm: T = T_top + q/k dz - A/(2k) dz^2, dz measured from the local top of the model
                for (double Tt : {293.15, -1.0}) for (double q : {0.055, 0.04}) for (double k : {2.5, 3.0}) for (double A : {1e-6, 0.0})
                        base("temperature/chapman", "top=" + num(Tt) + " q=" + num(q) + " k=" + num(k) + " A=" + num(A),
                             "{\"model\":\"chapman\",\"top temperature\":" + num(Tt) + ",\"top heat flux\":" + num(q) + ",\"thermal conductivity\":" + num(k) + ",\"heat generation per unit volume\":" + num(A) + range_json(r) + "}",
                             [=](const Probe &p)
                        {
                          Expect e; e.defined = true;
                          if (!in_model_range(rr, p.depth)) { e.value = background(p.depth); return e; }
                          double lo, hi; effective(rr, fmin, lo, hi);
                          const LD top = Tt < 0 ? background(lo) : static_cast<LD>(Tt), dz = static_cast<LD>(p.depth) - lo;
                          e.value = top + static_cast<LD>(q) / k * dz - static_cast<LD>(A) / (2 * static_cast<LD>(k)) * dz * dz;
                          return e;
                        });
            }
    // oceanic cooling models: straight ridge along x = xr (cartesian), spreading in +-x; distance = |x - xr|
    for (double v : {0.03, 0.1, 0.008 /* slow spreading: the series of the plate model converges slowly near the ridge */}) for (double Tb : {1600.0, -1.0}) for (double Tt : {280.0, 1.0, 2000.0 /* a top hotter than the bottom */}) for (double L : {1e5, 1.5e5})
            {
              const double xr = 2e5;
              const std::string ridge = ",\"spreading velocity\":" + num(v) + ",\"ridge coordinates\":[[[" + num(xr) + ",-1e6],[" + num(xr) + ",1e6]]]";
              std::vector<Probe> pr;
              for (double x : {xr, xr + 1e4, xr - 2.5e4, xr + 1e5, -3e5, xr - 6.5e5}) for (double d : {0.0, 1e3, 1e4, 5e4, 0.9e5, L, L + 1e4}) if (d <= FMAX && std::fabs(x) <= 5e5) pr.push_back({x, 1.25e5, d});
              auto age_of = [=](const Probe &p) { return static_cast<LD>(std::fabs(p.x - xr)) / (static_cast<LD>(v) / YEAR); };
              {
                Case c; c.family = "temperature/half space model"; c.label = "oceanic plate, v=" + num(v) + " bottom=" + num(Tb) + " top=" + num(Tt) + " max depth=" + num(L);
                c.world = world(globals(false), {area_feature(1, false, 0, "\"temperature models\":[{\"model\":\"half space model\",\"max depth\":" + num(L) + ",\"top temperature\":" + num(Tt) + ",\"bottom temperature\":" + num(Tb) + ridge + "}]")});
                c.probes = pr; c.request = {{{1,0,0}}};
                c.expect = [=](const Probe &p)
                {
                  Expect e; e.defined = true;
                  if (p.depth > L) { e.value = background(p.depth); return e; }
                  const LD bot = Tb < 0 ? background(p.depth) : static_cast<LD>(Tb), age = age_of(p);
                  e.value = age > 0 ? bot + (static_cast<LD>(Tt) - bot) * erfcl(static_cast<LD>(p.depth) / (2 * sqrtl(G_KAPPA * age))) : bot;
                  return e;
                };
                out.push_back(c);
              }
              {
                // plate model (Fowler 1990, ch. 7): conduction in a plate of thickness L moving with velocity v away from the ridge
                Case c; c.family = "temperature/plate model"; c.label = "oceanic plate, v=" + num(v) + " bottom=" + num(Tb) + " top=" + num(Tt) + " max depth=" + num(L);
                c.world = world(globals(false), {area_feature(1, false, 0, "\"temperature models\":[{\"model\":\"plate model\",\"max depth\":" + num(L) + ",\"top temperature\":" + num(Tt) + ",\"bottom temperature\":" + num(Tb) + ridge + "}]")});
                c.probes.clear();
                for (auto &p : pr) if (std::fabs(p.x - xr) >= 1e4) c.probes.push_back(p);   // the series is truncated in the library: stay 10 km away from the ridge axis
                c.request = {{{1,0,0}}};
                c.rel_tol = 1e-5;
                c.expect = [=](const Probe &p)
                {
                  Expect e; e.defined = true;
                  if (p.depth > L) { e.value = background(p.depth); return e; }
                  const LD bot = Tb < 0 ? background(p.depth) : static_cast<LD>(Tb), x = std::fabs(p.x - xr), vs = static_cast<LD>(v) / YEAR, Pe = vs * L / (2 * G_KAPPA);
                  LD sum = static_cast<LD>(p.depth) / L;
                  for (int n = 1; n <= 4000; ++n)
                    sum += 2 / (n * PIl) * expl((Pe - sqrtl(Pe * Pe + n * n * PIl * PIl)) * x / L) * sinl(n * PIl * p.depth / L);
                  e.value = Tt + (bot - Tt) * sum;
                  return e;
                };
                out.push_back(c);
              }
              for (double age_yr : {1e6, 8e7})
                {
                  Case c; c.family = "temperature/plate model constant age"; c.label = "oceanic plate, age=" + num(age_yr) + " bottom=" + num(Tb) + " top=" + num(Tt) + " max depth=" + num(L);
                  c.world = world(globals(false), {area_feature(1, false, 0, "\"temperature models\":[{\"model\":\"plate model constant age\",\"max depth\":" + num(L) + ",\"top temperature\":" + num(Tt) + ",\"bottom temperature\":" + num(Tb) + ",\"plate age\":" + num(age_yr) + "}]")});
                  c.probes = pr; c.request = {{{1,0,0}}};
                  c.rel_tol = 1e-5;
                  c.expect = [=](const Probe &p)
                  {
                    Expect e; e.defined = true;
                    if (p.depth > L) { e.value = background(p.depth); return e; }
                    const LD bot = Tb < 0 ? background(p.depth) : static_cast<LD>(Tb), t = age_yr * YEAR;
                    LD sum = static_cast<LD>(p.depth) / L;
                    for (int n = 1; n <= 4000; ++n) sum += 2 / (n * PIl) * expl(-G_KAPPA * n * n * PIl * PIl * t / (static_cast<LD>(L) * L)) * sinl(n * PIl * p.depth / L);
                    e.value = Tt + (bot - Tt) * sum;
                    return e;
                  };
                  out.push_back(c);
                }
            }
    // two oceanic plates with half space models over the same area (own ridge, own velocity each): the later one decides, whatever the earlier one computed at the same point
    for (int order = 0; order < 2; ++order)
      {
        const double L = 1e5, Tt = 280, Tb = 1600;
        const double XR[2] = {2e5, -1e5}, V[2] = {0.03, 0.07};
        auto plate = [&](int k)
        {
          return area_feature(1, false, 0, "\"temperature models\":[{\"model\":\"half space model\",\"max depth\":" + num(L) + ",\"top temperature\":" + num(Tt) + ",\"bottom temperature\":" + num(Tb) +
                              ",\"spreading velocity\":" + num(V[k]) + ",\"ridge coordinates\":[[[" + num(XR[k]) + ",-1e6],[" + num(XR[k]) + ",1e6]]]}]");
        };
        const int top = order ? 0 : 1;
        Case c; c.family = "temperature/half space model (two plates over the same area)"; c.label = std::string("the plate listed last has its ridge at x = ") + num(XR[top]) + " and spreads with " + num(V[top]);
        c.world = world(globals(false), {plate(1 - top), plate(top)});
        for (double x : {-4e5, -2e5, 0.0, 0.5e5, 3e5, 4.5e5}) for (double d : {1e3, 1e4, 5e4, 9e4}) c.probes.push_back({x, 1.25e5, d});
        c.request = {{{1,0,0}}};
        c.expect = [=](const Probe &p)
        {
          Expect e; e.defined = true;
          const LD age = static_cast<LD>(std::fabs(p.x - XR[top])) / (static_cast<LD>(V[top]) / YEAR);
          e.value = age > 0 ? Tb + (static_cast<LD>(Tt) - Tb) * erfcl(static_cast<LD>(p.depth) / (2 * sqrtl(G_KAPPA * age))) : static_cast<LD>(Tb);
          return e;
        };
        out.push_back(c);
      }
    // three ridge segments offset along transform faults at y = -2e5 and y = 2e5 (2, 3 and 2 coordinates), a spreading velocity per coordinate that is constant within
    // a segment and differs between them: the age of a point is its distance from the segment on its side of the transform faults over that segment's velocity
    for (int plate = 0; plate < 2; ++plate)
      {
        const double L = 1e5, Tt = 280, Tb = 1600;
        const double V[3] = {0.02, 0.03, 0.055}, XR[3] = {1e5, 1.5e5, 0.8e5};
        const std::string ridge = ",\"spreading velocity\":[[0,[[" + num(V[0]) + "," + num(V[0]) + "],[" + num(V[1]) + "," + num(V[1]) + "," + num(V[1]) + "],[" + num(V[2]) + "," + num(V[2]) + "]]]],"
                                  "\"ridge coordinates\":[[[" + num(XR[0]) + ",-1e6],[" + num(XR[0]) + ",-2e5]],[[" + num(XR[1]) + ",-2e5],[" + num(XR[1]) + ",0],[" + num(XR[1]) + ",2e5]],[[" + num(XR[2]) + ",2e5],[" + num(XR[2]) + ",1e6]]]";
        Case c; c.family = plate ? "temperature/plate model (three ridge segments)" : "temperature/half space model (three ridge segments)";
        c.label = "oceanic plate, ridge segments of 2, 3 and 2 coordinates offset along transform faults, velocities 0.02 / 0.03 / 0.055 per coordinate";
        c.world = world(globals(false), {area_feature(1, false, 0, std::string("\"temperature models\":[{\"model\":\"") + (plate ? "plate model" : "half space model") + "\",\"max depth\":" + num(L) + ",\"top temperature\":" + num(Tt) + ",\"bottom temperature\":" + num(Tb) + ridge + "}]")});
        for (double x : {2.2e5, -0.6e5, 4e5}) for (double y : {-4e5, -2.6e5, -1e5, 0.7e5, 1.4e5, 3e5, 4.5e5}) for (double d : {1e4, 5e4, 9e4}) c.probes.push_back({x, y, d});
        c.request = {{{1,0,0}}};
        c.rel_tol = plate ? 1e-5 : 1e-9;
        c.expect = [=](const Probe &p)
        {
          Expect e; e.defined = true;
          const int k = p.y < -2e5 ? 0 : p.y < 2e5 ? 1 : 2;
          const LD v = V[k] / YEAR, x = std::fabs(p.x - XR[k]);
          if (!plate) { const LD age = x / v; e.value = Tb + (static_cast<LD>(Tt) - Tb) * erfcl(static_cast<LD>(p.depth) / (2 * sqrtl(G_KAPPA * age))); return e; }
          const LD Pe = v * L / (2 * G_KAPPA);
          LD sum = static_cast<LD>(p.depth) / L;
          for (int n = 1; n <= 4000; ++n) sum += 2 / (n * PIl) * expl((Pe - sqrtl(Pe * Pe + n * n * PIl * PIl)) * x / L) * sinl(n * PIl * p.depth / L);
          e.value = Tt + (Tb - Tt) * sum;
          return e;
        };
        out.push_back(c);
      }
    // spherical half space model: ridge along a meridian, symmetric about the equator, spreading velocity varying linearly along it; probes on the equator,
    // where the closest ridge point is the ridge's mid point (velocity = mean of the two end values) and the distance is R * (longitude difference)
    for (double lr : {2.0, 179.0, -179.0, 355.0}) for (double v0 : {0.03, 0.06}) for (double v1 : {0.03, 0.09})
          {
            Case c; c.family = "temperature/half space model (spherical)"; c.label = "oceanic plate, ridge along the meridian " + num(lr) + ", spreading velocity " + num(v0) + " .. " + num(v1);
            c.spherical = true;
            c.world = world(globals(true), {area_feature(1, true, 0, "\"temperature models\":[{\"model\":\"half space model\",\"max depth\":1e5,\"top temperature\":280,\"bottom temperature\":1600,\"spreading velocity\":[[0,[[" + num(v0) + "," + num(v1) + "]]]],"
                                                         "\"ridge coordinates\":[[[" + num(lr) + ",-10],[" + num(lr) + ",10]]]}]", lr - 6, lr + 4)});
            for (double dl : {-5.0, -2.0, -0.25, 0.0, 0.5, 3.0}) for (double d : {0.0, 1e4, 5e4, 1e5}) c.probes.push_back({lr + dl, 0.0, d});
            c.request = {{{1,0,0}}};
            c.expect = [=](const Probe &p)
            {
              Expect e; e.defined = true;
              const LD dist = R_EARTH * fabsl(static_cast<LD>(p.x) - lr) * PIl / 180, age = dist / ((static_cast<LD>(v0) + v1) / 2 / YEAR);
              e.value = age > 0 ? 1600 + (280 - 1600.0L) * erfcl(static_cast<LD>(p.depth) / (2 * sqrtl(G_KAPPA * age))) : 1600.0L;
              return e;
            };
            c.rel_tol = 1e-8;
            out.push_back(c);
          }
    // the model starting below the surface (model min depth m): the distance to the ridge is measured on the sphere through the top of the model, radius R - m
    for (double m : {3e4, 6e4}) for (double lr : {2.0, 179.0})
        {
          Case c; c.family = "temperature/half space model (spherical)"; c.label = "oceanic plate, ridge along the meridian " + num(lr) + ", model min depth " + num(m);
          c.spherical = true;
          c.world = world(globals(true), {area_feature(1, true, 0, "\"temperature models\":[{\"model\":\"half space model\",\"min depth\":" + num(m) + ",\"max depth\":1.5e5,\"top temperature\":280,\"bottom temperature\":1600,\"spreading velocity\":0.04,"
                                                       "\"ridge coordinates\":[[[" + num(lr) + ",-10],[" + num(lr) + ",10]]]}]", lr - 6, lr + 4)});
          for (double dl : {-5.0, -2.0, -0.25, 0.5, 3.0}) for (double d : {1e4, m - 1e3, m + 1e3, 1e5, 1.49e5, 1.6e5}) c.probes.push_back({lr + dl, 0.0, d});
          c.request = {{{1,0,0}}};
          c.expect = [=](const Probe &p)
          {
            Expect e; e.defined = true;
            if (p.depth < m || p.depth > 1.5e5) { e.value = background(p.depth); return e; }
            const LD dist = (R_EARTH - static_cast<LD>(m)) * fabsl(static_cast<LD>(p.x) - lr) * PIl / 180, age = dist / (0.04L / YEAR);
            e.value = 1600 + (280 - 1600.0L) * erfcl(static_cast<LD>(p.depth) / (2 * sqrtl(G_KAPPA * age)));
            return e;
          };
          c.rel_tol = 1e-8;
          out.push_back(c);
        }
    // the same with the ridge along the equator: the closest ridge point of (lon, lat) is (lon, 0), the distance R * |lat| and the velocity interpolated linearly in longitude
    for (double lr : {2.0, 179.0, -179.0, 350.0}) for (double v0 : {0.03, 0.06}) for (double v1 : {0.03, 0.09})
          {
            Case c; c.family = "temperature/half space model (spherical)"; c.label = "oceanic plate, ridge along the equator around longitude " + num(lr) + ", spreading velocity " + num(v0) + " .. " + num(v1);
            c.spherical = true;
            c.world = world(globals(true), {area_feature(1, true, 0, "\"temperature models\":[{\"model\":\"half space model\",\"max depth\":1e5,\"top temperature\":280,\"bottom temperature\":1600,\"spreading velocity\":[[0,[[" + num(v0) + "," + num(v1) + "]]]],"
                                                         "\"ridge coordinates\":[[[" + num(lr - 8) + ",0],[" + num(lr + 8) + ",0]]]}]", lr - 6, lr + 6)});
            for (double dl : {-5.0, -2.0, 0.0, 3.0, 5.0}) for (double lat : {-4.0, -1.0, 0.5, 3.0}) for (double d : {1e4, 5e4}) c.probes.push_back({lr + dl, lat, d});
            c.request = {{{1,0,0}}};
            c.expect = [=](const Probe &p)
            {
              Expect e; e.defined = true;
              const LD dist = R_EARTH * fabsl(static_cast<LD>(p.y)) * PIl / 180, vel = v0 + (static_cast<LD>(v1) - v0) * (static_cast<LD>(p.x) - (lr - 8)) / 16;
              const LD age = dist / (vel / YEAR);
              e.value = 1600 + (280 - 1600.0L) * erfcl(static_cast<LD>(p.depth) / (2 * sqrtl(G_KAPPA * age)));
              return e;
            };
            c.rel_tol = 1e-8;
            out.push_back(c);
          }
    // composition (uniform, with fractions and operations on top of an earlier feature), velocity and grains of area features
    for (unsigned f = 0; f < 3; ++f) for (int sph = 0; sph < 2; ++sph)
        {
          const std::vector<std::string> COPS = {"replace", "replace defined only", "add", "subtract"};
          for (auto &op : COPS) for (unsigned comp = 0; comp < 3; ++comp) for (int descending = 0; descending < 2; ++descending)
              {
                // a mantle layer underneath paints compositions 0 and 1 with 0.4 / 0.5; the feature on top lists compositions 1 and 2 with fractions 0.25 / 0.75 (in either order of the list)
                Case c; c.family = "composition/uniform"; c.label = std::string(AREA[f]) + (sph ? ", spherical, " : ", cartesian, ") + op + ", composition " + std::to_string(comp) + (descending ? ", list written [2,1]" : "");
                c.spherical = sph;
                const double s = sph ? 1.0 : 1e5;
                const std::string under = "{\"model\":\"mantle layer\",\"name\":\"U\",\"coordinates\":" + pts({{-9*s,-9*s},{9*s,-9*s},{9*s,9*s},{-9*s,9*s}}) + ",\"composition models\":[{\"model\":\"uniform\",\"compositions\":[0,1],\"fractions\":[0.4,0.5]}]}";
                c.world = world(globals(sph), {under, area_feature(f, sph, 2e4, "\"composition models\":[{\"model\":\"uniform\"," + std::string(descending ? "\"compositions\":[2,1],\"fractions\":[0.75,0.25]" : "\"compositions\":[1,2],\"fractions\":[0.25,0.75]") + ",\"operation\":\"" + op + "\",\"min depth\":5e4,\"max depth\":1.5e5}]")});
                c.probes = area_probes(sph, 2e4); c.request = {{{2,comp,0}}};
                c.expect = [=](const Probe &p)
                {
                  Expect e; e.defined = true;
                  const LD prev = comp == 0 ? 0.4L : comp == 1 ? 0.5L : 0.0L;
                  if (p.depth < 5e4 || p.depth > 1.5e5) { e.value = prev; return e; }
                  const LD frac = comp == 1 ? 0.25L : 0.75L;
                  if (comp == 0) e.value = op == "replace" ? 0.0L : prev;   // not listed: cleared by replace, untouched otherwise
                  else e.value = (op == "replace" || op == "replace defined only") ? frac : op == "add" ? prev + frac : prev - frac;
                  return e;
                };
                c.rel_tol = 1e-15; c.abs_tol = 1e-15;
                out.push_back(c);
              }
          for (unsigned k = 0; k < 3; ++k)
            {
              Case c; c.family = "velocity/uniform raw"; c.label = std::string(AREA[f]) + (sph ? ", spherical" : ", cartesian") + ", component " + std::to_string(k);
              c.spherical = sph;
              c.world = world(globals(sph), {area_feature(f, sph, 0, "\"velocity models\":[{\"model\":\"uniform raw\",\"velocity\":[0.011,-0.022,0.033],\"min depth\":5e4,\"max depth\":1.5e5}]")});
              c.probes = area_probes(sph, 0); c.request = {{{5,0,0}}};
              const double V[3] = {0.011, -0.022, 0.033};
              const double vk = V[k];
              c.expect = [=](const Probe &p) { Expect e; e.defined = true; e.value = (p.depth >= 5e4 && p.depth <= 1.5e5) ? vk : 0.0; return e; };
              c.request = {{{5,0,0}}};
              c.label += "";
              c.abs_tol = 0; c.rel_tol = 0;
              // judge slot k of the velocity block
              const Request rq = {{{5,0,0}}};
              (void)rq;
              c.family += "/" + std::to_string(k);
              out.push_back(c);
            }
        }
  }

  // ---------- plume ----------
  void add_plume_cases(std::vector<Case> &out)
  {
    for (int sph = 0; sph < 2; ++sph)
      {
        const double s = sph ? 1.0 : 1e5;
        // vertical plume, constant circular / elliptic cross section (semi-major axis 2 units along x for rotation angle 90: azimuth from north)
        for (double ecc : {0.0, 0.6}) for (auto &op : std::vector<std::string>{"replace", "add"}) for (double Tc : {1800.0, 250.0, -1.0 /* sentinel at both depths: the adiabat at the depth of the point */})
              {
                Case c; c.family = "temperature/plume gaussian"; c.label = std::string(sph ? "spherical" : "cartesian") + " plume, eccentricity " + num(ecc) + ", centerline " + num(Tc) + " " + op;
                c.spherical = sph;
                const double a = 2 * s, b = a * std::sqrt(1 - ecc * ecc);
                c.world = world(globals(sph), {"{\"model\":\"plume\",\"name\":\"P\",\"coordinates\":[[0,0],[0,0]],\"cross section depths\":[1e5,3e5],\"semi-major axis\":[" + num(a) + "," + num(a) + "],\"eccentricity\":[" + num(ecc) + "," + num(ecc) + "],"
                                               "\"rotation angles\":[90,90],\"min depth\":1e5,\"max depth\":4e5,\"temperature models\":[{\"model\":\"gaussian\",\"operation\":\"" + op + "\",\"depths\":[1e5,3e5],\"centerline temperatures\":[" + num(Tc) + "," + num(Tc < 0 ? Tc : Tc + 100) + "],\"gaussian sigmas\":[0.3,0.5]}]}"});
                for (auto xy : std::vector<std::array<double,2>>{{{0, 0}}, {{0.5, 0}}, {{0, 0.5}}, {{1.2, 0.4}}, {{-1.5, -0.5}}, {{0.3, -1.0}}})
                  for (double d : {1e5, 1.5e5, 2e5, 3e5, 3.5e5})
                    c.probes.push_back({xy[0]*s, xy[1]*s, d});
                c.request = {{{1,0,0}}};
                c.expect = [=](const Probe &p)
                {
                  Expect e;
                  const LD rho2 = static_cast<LD>(p.x) * p.x / (static_cast<LD>(a) * a) + static_cast<LD>(p.y) * p.y / (static_cast<LD>(b) * b);
                  if (fabsl(rho2 - 1) < 1e-6L) return e;   // on the rim: nothing claimed
                  e.defined = true;
                  if (rho2 > 1) { e.value = background(p.depth); return e; }
                  const LD fr = p.depth <= 1e5 ? 0 : p.depth >= 3e5 ? 1 : (static_cast<LD>(p.depth) - 1e5L) / 2e5L;
                  const LD tc = Tc < 0 ? background(p.depth) : Tc + 100 * fr, sg = 0.3L + 0.2L * fr;
                  e.value = apply_op(op, background(p.depth), tc * expl(-rho2 / (2 * sg * sg)));
                  return e;
                };
                out.push_back(c);
              }
      }
  }

  // ---------- slab and fault: vertical plane on a straight trench along y at x = 0, dipping towards +x ----------
  // slab: distance below the surface = -x (the plate body lies on the -x side), fault: |x|
  void add_line_cases(std::vector<Case> &out)
  {
    for (int fault = 0; fault < 2; ++fault)
      {
        const std::string dist = fault ? "fault center" : "slab top";
        auto feature = [&](const std::string &models)
        {
          return std::string("{\"model\":\"") + (fault ? "fault" : "subducting plate") + "\",\"name\":\"F\",\"coordinates\":[[0,-4e5],[0,4e5]],\"dip point\":[5e6,0],\"segments\":[{\"length\":3e5,\"thickness\":[1e5],\"angle\":[90]}]," + models + "}";
        };
        std::vector<Probe> pr;
        for (double x : {-9e4, -6e4, -4.5e4, -3e4, -1e4, -1e3, 1e3, 2e4, 4.5e4}) for (double d : {1e4, 1e5, 2.5e5}) for (double y : {0.0, 2.5e5}) pr.push_back({x, y, d});
        auto dist_of = [=](const Probe &p) { return fault ? std::fabs(p.x) : -p.x; };
        auto inside = [=](const Probe &p) { return fault ? std::fabs(p.x) <= 5e4 - 1 : (p.x <= -1 && p.x >= -1e5 + 1); };
        for (auto &op : std::vector<std::string>{"replace", "add", "subtract"})
          {
            {
              Case c; c.family = "temperature/line uniform"; c.label = std::string(fault ? "fault" : "subducting plate") + " uniform 900 within distance [2e4,4e4] " + op;
              c.world = world(globals(false), {feature("\"temperature models\":[{\"model\":\"uniform\",\"temperature\":900,\"operation\":\"" + op + "\",\"min distance " + dist + "\":2e4,\"max distance " + dist + "\":4e4}]")});
              c.probes = pr; c.request = {{{1,0,0}}};
              c.expect = [=](const Probe &p) { Expect e; e.defined = true; const double d = dist_of(p); e.value = (inside(p) && d >= 2e4 && d <= 4e4) ? apply_op(op, background(p.depth), 900) : background(p.depth); return e; };
              out.push_back(c);
            }
            {
              Case c; c.family = "temperature/line linear"; c.label = std::string(fault ? "fault" : "subducting plate") + " linear 500..1300 over distance [1e4,8e4] " + op;
              c.world = world(globals(false), {feature(std::string("\"temperature models\":[{\"model\":\"linear\",\"operation\":\"") + op + "\",\"min distance " + dist + "\":1e4,\"max distance " + dist + "\":8e4," + (fault ? "\"center temperature\":500,\"side temperature\":1300" : "\"top temperature\":500,\"bottom temperature\":1300") + "}]")});
              c.probes = pr; c.request = {{{1,0,0}}};
              c.expect = [=](const Probe &p) { Expect e; e.defined = true; const LD d = dist_of(p); e.value = (inside(p) && d >= 1e4 && d <= 8e4) ? apply_op(op, background(p.depth), 500 + (d - 1e4L) * 800 / 7e4L) : background(p.depth); return e; };
              out.push_back(c);
            }
          }
        for (double tp : {-1.0, 1700.0})
          {
            Case c; c.family = "temperature/line adiabatic"; c.label = std::string(fault ? "fault" : "subducting plate") + " adiabatic Tp=" + num(tp);
            c.world = world(globals(false), {feature("\"temperature models\":[{\"model\":\"adiabatic\",\"potential mantle temperature\":" + num(tp) + ",\"specific heat\":1000}]")});
            c.probes = pr; c.request = {{{1,0,0}}};
            c.expect = [=](const Probe &p) { Expect e; e.defined = true; e.value = inside(p) ? adiabat(tp < 0 ? G_TP : tp, G_ALPHA, 1000, p.depth) : background(p.depth); return e; };
            out.push_back(c);
          }
        for (auto &op : std::vector<std::string>{"replace", "replace defined only", "add", "subtract"}) for (unsigned comp = 0; comp < 3; ++comp) for (int descending = 0; descending < 2; ++descending)
            {
              Case c; c.family = "composition/line uniform"; c.label = std::string(fault ? "fault" : "subducting plate") + " uniform compositions [1,2] fractions [0.25,0.75] within distance [2e4,4e4] " + op + ", composition " + std::to_string(comp) + (descending ? ", list written [2,1]" : "");
              const std::string under = "{\"model\":\"mantle layer\",\"name\":\"U\",\"coordinates\":[[-9e5,-9e5],[9e5,-9e5],[9e5,9e5],[-9e5,9e5]],\"composition models\":[{\"model\":\"uniform\",\"compositions\":[0,1],\"fractions\":[0.4,0.5]}]}";
              c.world = world(globals(false), {under, feature("\"composition models\":[{\"model\":\"uniform\"," + std::string(descending ? "\"compositions\":[2,1],\"fractions\":[0.75,0.25]" : "\"compositions\":[1,2],\"fractions\":[0.25,0.75]") + ",\"operation\":\"" + op + "\",\"min distance " + dist + "\":2e4,\"max distance " + dist + "\":4e4}]")});
              c.probes = pr; c.request = {{{2,comp,0}}};
              c.expect = [=](const Probe &p)
              {
                Expect e; e.defined = true;
                const LD prev = comp == 0 ? 0.4L : comp == 1 ? 0.5L : 0.0L;
                const double d = dist_of(p);
                if (!(inside(p) && d >= 2e4 && d <= 4e4)) { e.value = prev; return e; }
                const LD frac = comp == 1 ? 0.25L : 0.75L;
                if (comp == 0) e.value = op == "replace" ? 0.0L : prev;
                else e.value = (op == "replace" || op == "replace defined only") ? frac : op == "add" ? prev + frac : prev - frac;
                return e;
              };
              c.rel_tol = 1e-15; c.abs_tol = 1e-15;
              out.push_back(c);
            }
        if (!fault)
          {
            // a slab that starts above its top surface ('top truncation' -3e4: the body reaches x = +3e4): models whose distance range lies above the top, straddles it, or lies below it
            auto above = [&](const std::string &models)
            { return std::string("{\"model\":\"subducting plate\",\"name\":\"F\",\"coordinates\":[[0,-4e5],[0,4e5]],\"dip point\":[5e6,0],\"segments\":[{\"length\":3e5,\"thickness\":[1e5],\"top truncation\":[-3e4],\"angle\":[90]}],") + models + "}"; };
            std::vector<Probe> pa;
            for (double x : {4e4, 2.5e4, 1.5e4, 0.7e4, 1e3, -1e3, -0.7e4, -1.5e4, -2.5e4, -6e4}) for (double d : {1e4, 1e5, 2.5e5}) pa.push_back({x, 2.5e5 * (d == 1e5), d});
            const double RG[3][2] = {{-2e4, -1e4}, {-2e4, 1e4}, {0, 2e4}};
            for (int r = 0; r < 3; ++r) for (int kind = 0; kind < 4; ++kind)
                {
                  const double lo = RG[r][0], hi = RG[r][1];
                  const std::string rj = ",\"min distance slab top\":" + num(lo) + ",\"max distance slab top\":" + num(hi) + "}]";
                  Case c; c.label = "subducting plate with top truncation -3e4, model range [" + num(lo) + "," + num(hi) + "] from the slab top";
                  double in_value = 0;
                  if (kind == 0) { c.family = "temperature/line uniform above the slab top"; c.world = world(globals(false), {above("\"temperature models\":[{\"model\":\"uniform\",\"temperature\":900" + rj)}); c.request = {{{1,0,0}}}; in_value = 900; }
                  if (kind == 1) { c.family = "composition/line uniform above the slab top"; c.world = world(globals(false), {above("\"composition models\":[{\"model\":\"uniform\",\"compositions\":[1],\"fractions\":[0.75]" + rj)}); c.request = {{{2,1,0}}}; in_value = 0.75; }
                  if (kind == 2) { c.family = "grains/line uniform above the slab top"; c.world = world(globals(false), {above("\"grains models\":[{\"model\":\"uniform\",\"compositions\":[0],\"Euler angles z-x-z\":[[0,0,0]],\"grain sizes\":[0.25]" + rj)}); c.request = {{{3,0,1}}}; in_value = 0.25; }
                  if (kind == 3) { c.family = "velocity/line uniform raw above the slab top"; c.world = world(globals(false), {above("\"velocity models\":[{\"model\":\"uniform raw\",\"velocity\":[0.011,-0.022,0.033]" + rj)}); c.request = {{{5,0,0}}}; in_value = 0.011; }
                  c.probes = pa;
                  c.expect = [=](const Probe &p)
                  {
                    Expect e; e.defined = true;
                    const double d = -p.x;   // distance below the slab top
                    const bool in_body = p.x <= 3e4 - 1 && p.x >= -1e5 + 1, in_range = d >= lo && d <= hi;
                    if (std::fabs(std::fabs(p.x) - 3e4) < 2 || std::fabs(d - lo) < 1 || std::fabs(d - hi) < 1) { e.defined = false; return e; }
                    e.value = (in_body && in_range) ? static_cast<LD>(in_value) : (kind == 0 ? background(p.depth) : 0.0L);
                    return e;
                  };
                  out.push_back(c);
                }
          }
        {
          // smooth composition: the first fraction at the top / centre, the second one at the far side, tanh transition over the given distance
          const double D = fault ? 4e4 : 8e4;
          Case c; c.family = "composition/line smooth"; c.label = std::string(fault ? "fault: center 0.9, side 0.2, side distance 4e4" : "subducting plate: top 0.9, bottom 0.2 over [0,8e4]");
          c.world = world(globals(false), {feature(fault ? "\"composition models\":[{\"model\":\"smooth\",\"compositions\":[0],\"center fractions\":[0.9],\"side fractions\":[0.2],\"side distance fault center\":4e4}]"
                                                   : "\"composition models\":[{\"model\":\"smooth\",\"compositions\":[0],\"top fractions\":[0.9],\"bottom fractions\":[0.2],\"min distance slab top\":0,\"max distance slab top\":8e4}]")});
          c.probes = pr; c.request = {{{2,0,0}}};
          c.expect = [=](const Probe &p)
          {
            Expect e;
            if (!inside(p)) { e.defined = true; e.value = 0; return e; }
            const LD d = dist_of(p);
            if (!fault && d > D) { e.defined = true; e.value = 0; return e; }
            e.defined = true;
            const LD scaling = (1 - tanhl(10 * (d - D / 2) / D)) / 2;
            e.value = 0.9L * scaling + 0.2L * (1 - scaling);
            return e;
          };
          c.rel_tol = 1e-9; c.abs_tol = 1e-9;
          out.push_back(c);
        }
      }
  }

  // ---------- velocity 'uniform raw' of every feature type with every operation on top of an earlier feature ----------
  // The mantle layer underneath moves with (0.5,-0.25,0.125): three distinct components, so that a component mixed up with
  // another one, or an operation applied to the wrong incoming value, changes the answer.
  void add_velocity_cases(std::vector<Case> &out)
  {
    const double V[3] = {0.011, -0.022, 0.033}, U[3] = {0.5, -0.25, 0.125};
    for (unsigned f = 0; f < 6; ++f) for (int sph = 0; sph < 2; ++sph) for (auto &op : std::vector<std::string>{"replace", "add", "subtract"}) for (unsigned k = 0; k < 3; ++k)
            {
              if (f >= 4 && sph) continue;   // the line-feature geometry below is cartesian
              const double s = sph ? 1.0 : 1e5;
              const char *FN[] = {"continental plate", "oceanic plate", "mantle layer", "plume", "subducting plate", "fault"};
              Case c; c.family = "velocity/uniform raw on top of a moving layer/" + std::to_string(k);
              c.label = std::string(FN[f]) + (sph ? ", spherical, " : ", cartesian, ") + op + ", component " + std::to_string(k);
              c.spherical = sph;
              const std::string under = "{\"model\":\"mantle layer\",\"name\":\"U\",\"coordinates\":" + pts({{-9*s,-9*s},{9*s,-9*s},{9*s,9*s},{-9*s,9*s}}) + ",\"velocity models\":[{\"model\":\"uniform raw\",\"velocity\":[0.5,-0.25,0.125]}]}";
              const std::string vm = "\"velocity models\":[{\"model\":\"uniform raw\",\"velocity\":[0.011,-0.022,0.033],\"operation\":\"" + op + "\"}]";
              std::function<bool(const Probe &)> inside;
              if (f <= 2)
                {
                  c.world = world(globals(sph), {under, area_feature(f, sph, 2e4, vm)});
                  c.probes = area_probes(sph, 0);
                  inside = [](const Probe &p) { return p.depth >= 2e4 && p.depth <= FMAX; };
                }
              else if (f == 3)
                {
                  c.world = world(globals(sph), {under, "{\"model\":\"plume\",\"name\":\"P\",\"coordinates\":[[0,0],[0,0]],\"cross section depths\":[1e5,3e5],\"semi-major axis\":[" + num(2*s) + "," + num(2*s) + "],\"eccentricity\":[0,0],"
                                                 "\"rotation angles\":[0,0],\"min depth\":1e5,\"max depth\":4e5," + vm + "}"});
                  for (auto xy : std::vector<std::array<double,2>>{{{0, 0}}, {{0.5, 0}}, {{1.2, 0.4}}, {{-1.5, -0.5}}, {{2.5, 0.3}}, {{0.3, -3.0}}})
                    for (double d : {5e4, 1e5, 1.5e5, 3e5, 3.5e5, 4.5e5})
                      c.probes.push_back({xy[0]*s, xy[1]*s, d});
                  inside = [=](const Probe &p) { return p.depth >= 1e5 && p.depth <= 4e5 && std::hypot(p.x, p.y) < 1.99*s; };
                }
              else
                {
                  const bool fault = f == 5;
                  c.world = world(globals(false), {under, std::string("{\"model\":\"") + FN[f] + "\",\"name\":\"F\",\"coordinates\":[[0,-4e5],[0,4e5]],\"dip point\":[5e6,0],\"segments\":[{\"length\":3e5,\"thickness\":[1e5],\"angle\":[90]}]," + vm + "}"});
                  for (double x : {-9e4, -6e4, -3e4, -1e3, 1e3, 2e4, 4.5e4, 7e4, 1.5e5}) for (double d : {1e4, 1e5, 2.5e5}) for (double y : {0.0, 2.5e5}) c.probes.push_back({x, y, d});
                  inside = [=](const Probe &p) { return fault ? std::fabs(p.x) <= 5e4 - 1 : (p.x <= -1 && p.x >= -1e5 + 1); };
                }
              const double vk = V[k], uk = U[k];
              c.expect = [=](const Probe &p) { Expect e; e.defined = true; e.value = inside(p) ? apply_op(op, uk, vk) : static_cast<LD>(uk); return e; };
              if (f <= 3)
                {
                  // area features and plumes start from zero instead of the velocity painted so far
                  c.known_wrong = [=](const Probe &p) { Expect e; e.defined = true; e.value = inside(p) ? apply_op(op, 0.0L, vk) : static_cast<LD>(uk); return e; };
                  c.known_class = "area-feature-or-plume-starts-from-zero-velocity";
                }
              else if (k == 2)
                {
                  // slabs and faults take 'x component + 2' as the incoming vertical component
                  const double u0 = U[0];
                  c.known_wrong = [=](const Probe &p) { Expect e; e.defined = true; e.value = inside(p) ? apply_op(op, static_cast<LD>(u0) + 2, vk) : static_cast<LD>(uk); return e; };
                  c.known_class = "slab-or-fault-takes-x-component-plus-2-as-incoming-vertical-component";
                }
              c.request = {{{5,0,0}}};
              c.abs_tol = 1e-15; c.rel_tol = 1e-15;
              out.push_back(c);
            }
  }

  // ---------- area temperature / composition models whose own depth range is a surface (values at points) ----------
  // The model range is [5e4, 1.5e5] by default and [9e4, 1.2e5] at the interior point Q (either limit, or both, given as a surface).
  // Probes at Q, where the local range is known exactly.
  void add_variable_range_cases(std::vector<Case> &out)
  {
    for (unsigned f = 0; f < 3; ++f) for (int sph = 0; sph < 2; ++sph) for (unsigned mode = 0; mode < 3; ++mode)
          {
            const double s = sph ? 1.0 : 1e5;
            const P2 Q = {{1.0*s, 0.5*s}};
            const bool vmin = mode != 2, vmax = mode != 1;      // 0: both surfaces, 1: top surface + constant bottom, 2: constant top + bottom surface
            const double lo = vmin ? 9e4 : 5e4, hi = vmax ? 1.2e5 : 1.5e5;
            const std::string rj = std::string(",\"min depth\":") + (vmin ? "[[5e4],[9e4,[" + pt(Q) + "]]]" : "5e4") + ",\"max depth\":" + (vmax ? "[[1.5e5],[1.2e5,[" + pt(Q) + "]]]" : "1.5e5");
            const char *MN[] = {"top and bottom of the model given at points", "top of the model given at points, bottom constant", "top constant, bottom of the model given at points"};
            std::vector<Probe> pr;
            for (double d : {3e4, 6e4, 8.9e4, 9.1e4, 1e5, 1.1e5, 1.19e5, 1.21e5, 1.4e5, 1.6e5}) pr.push_back({Q[0], Q[1], d});
            auto in_range = [=](const Probe &p) { return p.depth >= lo && p.depth <= hi; };
            auto add = [&](const std::string &family, const std::string &label, const std::string &models, const Request &rq, std::function<Expect(const Probe &)> e)
            {
              Case c; c.family = family; c.label = std::string(AREA[f]) + (sph ? ", spherical, " : ", cartesian, ") + MN[mode] + ": " + label;
              c.spherical = sph; c.world = world(globals(sph), {area_feature(f, sph, 0, models)});
              c.probes = pr; c.request = rq; c.expect = e; c.rel_tol = 1e-7; c.abs_tol = 1e-7;
              out.push_back(c);
            };
            add("temperature/uniform/model range given at points", "T=777", "\"temperature models\":[{\"model\":\"uniform\",\"temperature\":777" + rj + "}]", {{{1,0,0}}},
                [=](const Probe &p) { Expect e; e.defined = true; e.value = in_range(p) ? static_cast<LD>(777) : background(p.depth); return e; });
            for (double Tt : {300.0, -1.0})
              add("temperature/linear/model range given at points", "top=" + num(Tt) + " bottom=1600", "\"temperature models\":[{\"model\":\"linear\",\"top temperature\":" + num(Tt) + ",\"bottom temperature\":1600" + rj + "}]", {{{1,0,0}}},
                  [=](const Probe &p)
              {
                Expect e; e.defined = true;
                if (!in_range(p)) { e.value = background(p.depth); return e; }
                const LD top = Tt < 0 ? background(lo) : static_cast<LD>(Tt);
                e.value = top + (static_cast<LD>(p.depth) - lo) * (1600 - top) / (static_cast<LD>(hi) - lo);
                return e;
              });
            add("temperature/uniform/two models, the later one with a range given at points", "1000 K everywhere, then 500 K within the local range", "\"temperature models\":[{\"model\":\"uniform\",\"temperature\":1000},{\"model\":\"uniform\",\"temperature\":500" + rj + "}]", {{{1,0,0}}},
                [=](const Probe &p) { Expect e; e.defined = true; e.value = in_range(p) ? static_cast<LD>(500) : static_cast<LD>(1000); return e; });
            if (mode == 2)
              {
                // the later model's range reaches the whole feature at its extremes (0 .. 2e5) and only down to 1.2e5 at Q
                const std::string span = ",\"min depth\":0,\"max depth\":[[2e5],[1.2e5,[" + pt(Q) + "]]]";
                add("temperature/uniform/two models, the later one spanning the feature except near one point", "1000 K everywhere, then 500 K down to the local bottom", "\"temperature models\":[{\"model\":\"uniform\",\"temperature\":1000},{\"model\":\"uniform\",\"temperature\":500" + span + "}]", {{{1,0,0}}},
                    [=](const Probe &p) { Expect e; e.defined = true; e.value = p.depth <= 1.2e5 ? static_cast<LD>(500) : static_cast<LD>(1000); return e; });
                add("composition/uniform/two models, the later one spanning the feature except near one point", "composition 1: 0.2 everywhere, then 0.75 down to the local bottom", "\"composition models\":[{\"model\":\"uniform\",\"compositions\":[1],\"fractions\":[0.2]},{\"model\":\"uniform\",\"compositions\":[1],\"fractions\":[0.75]" + span + "}]", {{{2,1,0}}},
                    [=](const Probe &p) { Expect e; e.defined = true; e.value = p.depth <= 1.2e5 ? 0.75L : 0.2L; return e; });
              }
            add("composition/uniform/two models, the later one with a range given at points", "composition 1: 0.2 everywhere, then 0.75 within the local range", "\"composition models\":[{\"model\":\"uniform\",\"compositions\":[1],\"fractions\":[0.2]},{\"model\":\"uniform\",\"compositions\":[1],\"fractions\":[0.75]" + rj + "}]", {{{2,1,0}}},
                [=](const Probe &p) { Expect e; e.defined = true; e.value = in_range(p) ? 0.75L : 0.2L; return e; });
            if (f == 0)
              for (double Tt : {293.15, -1.0})
                add("temperature/chapman/model range given at points", "top=" + num(Tt), "\"temperature models\":[{\"model\":\"chapman\",\"top temperature\":" + num(Tt) + ",\"top heat flux\":0.055,\"thermal conductivity\":2.5,\"heat generation per unit volume\":1e-6" + rj + "}]", {{{1,0,0}}},
                    [=](const Probe &p)
                {
                  Expect e; e.defined = true;
                  if (!in_range(p)) { e.value = background(p.depth); return e; }
                  const LD top = Tt < 0 ? background(lo) : static_cast<LD>(Tt), dz = static_cast<LD>(p.depth) - lo;
                  e.value = top + 0.055L / 2.5L * dz - 1e-6L / 5.0L * dz * dz;
                  return e;
                });
            if (mode == 0)
              {
                // the FEATURE's top given at points (2e4 by default, 6e4 at Q, 1.1e5 at a second point), the model without a top of its own:
                // linear and Chapman models start at the local top of the feature
                const P2 Q2 = {{-2.0*s, -3.0*s}};
                const std::string ftop = "[[2e4],[6e4,[" + pt(Q) + "]],[1.1e5,[" + pt(Q2) + "]]]";
                std::vector<Probe> pf;
                for (double d : {3e4, 5.9e4, 6.1e4, 8e4, 1.2e5, 1.99e5}) pf.push_back({Q[0], Q[1], d});
                for (double d : {1.09e5, 1.11e5, 1.5e5, 1.99e5}) pf.push_back({Q2[0], Q2[1], d});
                auto local_top = [=](const Probe &p) { return p.x == Q[0] ? 6e4 : 1.1e5; };
                auto addf = [&](const std::string &family, const std::string &label, const std::string &tm, std::function<Expect(const Probe &)> e)
                {
                  Case c; c.family = family; c.label = std::string(AREA[f]) + (sph ? ", spherical, " : ", cartesian, ") + "top of the feature given at points: " + label;
                  c.spherical = sph;
                  c.world = world(globals(sph), {std::string("{\"model\":\"") + AREA[f] + "\",\"name\":\"A\",\"min depth\":" + ftop + ",\"max depth\":" + num(FMAX) + ",\"coordinates\":" + pts({{-5*s,-5*s},{5*s,-5*s},{5*s,5*s},{-5*s,5*s}}) + ",\"temperature models\":[" + tm + "]}"});
                  c.probes = pf; c.request = {{{1,0,0}}}; c.expect = e; c.rel_tol = 1e-7; c.abs_tol = 1e-7;
                  out.push_back(c);
                };
                for (double Tt : {300.0, -1.0})
                  addf("temperature/linear/feature top given at points", "linear top=" + num(Tt) + " bottom=1600", "{\"model\":\"linear\",\"max depth\":" + num(FMAX) + ",\"top temperature\":" + num(Tt) + ",\"bottom temperature\":1600}",
                       [=](const Probe &p)
                  {
                    Expect e; e.defined = true;
                    const double lt = local_top(p);
                    if (p.depth < lt) { e.value = background(p.depth); return e; }
                    const LD top = Tt < 0 ? background(lt) : static_cast<LD>(Tt);
                    e.value = top + (static_cast<LD>(p.depth) - lt) * (1600 - top) / (static_cast<LD>(FMAX) - lt);
                    return e;
                  });
                if (f == 0)
                  addf("temperature/chapman/feature top given at points", "chapman top=293.15", "{\"model\":\"chapman\",\"top temperature\":293.15,\"top heat flux\":0.055,\"thermal conductivity\":2.5,\"heat generation per unit volume\":1e-6}",
                       [=](const Probe &p)
                  {
                    Expect e; e.defined = true;
                    const double lt = local_top(p);
                    if (p.depth < lt) { e.value = background(p.depth); return e; }
                    const LD dz = static_cast<LD>(p.depth) - lt;
                    e.value = 293.15L + 0.055L / 2.5L * dz - 1e-6L / 5.0L * dz * dz;
                    return e;
                  });
              }
            for (unsigned k = 0; k < 3; ++k)
              {
                const double V[3] = {0.011, -0.022, 0.033};
                const double vk = V[k];
                add("velocity/uniform raw/model range given at points/" + std::to_string(k), "velocity (0.011,-0.022,0.033)", "\"velocity models\":[{\"model\":\"uniform raw\",\"velocity\":[0.011,-0.022,0.033]" + rj + "}]", {{{5,0,0}}},
                    [=](const Probe &p) { Expect e; e.defined = true; e.value = in_range(p) ? static_cast<LD>(vk) : 0.0L; return e; });
              }
            add("grains/uniform/model range given at points", "grain size 0.25", "\"grains models\":[{\"model\":\"uniform\",\"compositions\":[0],\"Euler angles z-x-z\":[[0,0,0]],\"grain sizes\":[0.25]" + rj + "}]", {{{3,0,1}}},
                [=](const Probe &p) { Expect e; e.defined = true; e.value = in_range(p) ? 0.25L : 0.0L; return e; });
            add("composition/uniform/model range given at points", "composition 1 fraction 0.75", "\"composition models\":[{\"model\":\"uniform\",\"compositions\":[1],\"fractions\":[0.75]" + rj + "}]", {{{2,1,0}}},
                [=](const Probe &p) { Expect e; e.defined = true; e.value = in_range(p) ? 0.75L : 0.0L; return e; });
          }
  }

  // ---------- uniform grains: the z-x-z Euler angles (phi1, theta, phi2) stand for Rz(phi2) Rx(-theta) Rz(phi1); sizes as given, -1: equal shares ----------
  void add_grains_cases(std::vector<Case> &out)
  {
    const double EUL[6][3] = {{0,0,0},{30,0,0},{0,40,0},{0,0,50},{10,20,30},{350,170,95}};
    for (unsigned f = 0; f < 6; ++f) for (int sph = 0; sph < 2; ++sph) for (int ie = 0; ie < 6; ++ie) for (double size : {0.25, -1.0})
            {
              if (f >= 4 && sph) continue;
              if (ie % 2 == 1 && size < 0) continue;
              const double s = sph ? 1.0 : 1e5;
              const char *FN[] = {"continental plate", "oceanic plate", "mantle layer", "plume", "subducting plate", "fault"};
              Case c; c.family = "grains/uniform";
              c.label = std::string(FN[f]) + (sph ? ", spherical" : ", cartesian") + ", Euler angles z-x-z [" + num(EUL[ie][0]) + "," + num(EUL[ie][1]) + "," + num(EUL[ie][2]) + "], grain size " + num(size);
              c.spherical = sph;
              const std::string gm = "\"grains models\":[{\"model\":\"uniform\",\"compositions\":[1],\"Euler angles z-x-z\":[[" + num(EUL[ie][0]) + "," + num(EUL[ie][1]) + "," + num(EUL[ie][2]) + "]],\"grain sizes\":[" + num(size) + "]}]";
              std::function<bool(const Probe &)> inside;
              if (f <= 2)
                {
                  c.world = world(globals(sph), {area_feature(f, sph, 2e4, gm)});
                  c.probes = area_probes(sph, 0);
                  inside = [](const Probe &p) { return p.depth >= 2e4 && p.depth <= FMAX; };
                }
              else if (f == 3)
                {
                  c.world = world(globals(sph), {"{\"model\":\"plume\",\"name\":\"P\",\"coordinates\":[[0,0],[0,0]],\"cross section depths\":[1e5,3e5],\"semi-major axis\":[" + num(2*s) + "," + num(2*s) + "],\"eccentricity\":[0,0],"
                                                 "\"rotation angles\":[0,0],\"min depth\":1e5,\"max depth\":4e5," + gm + "}"});
                  for (auto xy : std::vector<std::array<double,2>>{{{0, 0}}, {{0.5, 0}}, {{1.2, 0.4}}, {{2.5, 0.3}}})
                    for (double d : {5e4, 1e5, 2e5, 3.5e5, 4.5e5})
                      c.probes.push_back({xy[0]*s, xy[1]*s, d});
                  inside = [=](const Probe &p) { return p.depth >= 1e5 && p.depth <= 4e5 && std::hypot(p.x, p.y) < 1.99*s; };
                }
              else
                {
                  const bool fault = f == 5;
                  c.world = world(globals(false), {std::string("{\"model\":\"") + FN[f] + "\",\"name\":\"F\",\"coordinates\":[[0,-4e5],[0,0],[0,4e5]],\"dip point\":[5e6,0],\"segments\":[{\"length\":3e5,\"thickness\":[1e5],\"angle\":[90]}]," + gm + "}"});
                  for (double x : {-9e4, -3e4, -1e3, 1e3, 4.5e4, 1.5e5}) for (double d : {1e4, 2.5e5}) for (double y : {0.0, 1.3e5, 2.5e5}) c.probes.push_back({x, y, d});
                  inside = [=](const Probe &p) { return fault ? std::fabs(p.x) <= 5e4 - 1 : (p.x <= -1 && p.x >= -1e5 + 1); };
                }
              const LD a1 = EUL[ie][0] * PIl / 180, th = EUL[ie][1] * PIl / 180, a2 = EUL[ie][2] * PIl / 180;
              c.request = {{{3,1,2}}};
              c.expect = [](const Probe &) { return Expect(); };
              c.expect_all = [=](const Probe &p)
              {
                std::vector<LD> v(20, 0.0L);
                if (!inside(p)) return v;
                auto mul = [](const LD A[9], const LD B[9], LD C[9]) { for (int i = 0; i < 3; ++i) for (int j = 0; j < 3; ++j) { C[3*i+j] = 0; for (int k = 0; k < 3; ++k) C[3*i+j] += A[3*i+k]*B[3*k+j]; } };
                const LD Z2[9] = {cosl(a2), -sinl(a2), 0, sinl(a2), cosl(a2), 0, 0, 0, 1}, X[9] = {1, 0, 0, 0, cosl(th), sinl(th), 0, -sinl(th), cosl(th)}, Z1[9] = {cosl(a1), -sinl(a1), 0, sinl(a1), cosl(a1), 0, 0, 0, 1};
                LD T[9], M[9];
                mul(Z2, X, T); mul(T, Z1, M);
                v[0] = v[1] = size < 0 ? 0.5L : static_cast<LD>(size);
                for (int g = 0; g < 2; ++g) for (int k = 0; k < 9; ++k) v[2 + 9*g + k] = M[k];
                return v;
              };
              c.abs_tol = 1e-12; c.rel_tol = 0;
              out.push_back(c);
            }
  }

  // ---------- "negative means the global value" for slab models without a closed form: differential oracle ----------
  struct DiffCase { std::string label, world_a, world_b; std::vector<Probe> probes; };
  std::vector<DiffCase> diff_cases()
  {
    std::vector<DiffCase> v;
    auto slab = [](const std::string &tm)
    {
      return std::string("{\"model\":\"subducting plate\",\"name\":\"F\",\"coordinates\":[[0,-4e5],[0,4e5]],\"dip point\":[5e6,0],\"segments\":[{\"length\":4e5,\"thickness\":[1e5],\"angle\":[45]}],\"temperature models\":[") + tm + "]}";
    };
    // a uniform-temperature mantle layer makes the incoming temperature independent of the global potential temperature
    const std::string under = "{\"model\":\"mantle layer\",\"name\":\"U\",\"coordinates\":[[-9e5,-9e5],[9e5,-9e5],[9e5,9e5],[-9e5,9e5]],\"temperature models\":[{\"model\":\"uniform\",\"temperature\":1650}]}";
    std::vector<Probe> pr;
    for (double x : {1e4, 5e4, 1e5, 1.5e5, 2.5e5}) for (double d : {2e4, 8e4, 1.5e5, 2.2e5}) pr.push_back({x, 1e5, d});
    const std::string mc = "\"model\":\"mass conserving\",\"density\":3300,\"spreading velocity\":0.05,\"subducting velocity\":0.05,\"adiabatic heating\":false,\"ridge coordinates\":[[[-2e6,-1e6],[-2e6,1e6]]],\"coupling depth\":8e4,\"taper distance\":1e5,\"min distance slab top\":-1e5,\"max distance slab top\":1.5e5";
    const std::string pm = "\"model\":\"plate model\",\"density\":3300,\"plate velocity\":0.05,\"adiabatic heating\":false";
    for (auto &m : std::vector<std::pair<std::string,std::string>>{{"mass conserving", mc}, {"plate model", pm}})
      {
        DiffCase d;
        d.label = "subducting plate '" + m.first + "': potential mantle temperature local 1350 over global 1600 = global 1350 with local -1";
        d.world_a = world(globals(false, 1600), {under, slab("{" + m.second + ",\"potential mantle temperature\":1350}")});
        d.world_b = world(globals(false, 1350), {under, slab("{" + m.second + ",\"potential mantle temperature\":-1}")});
        d.probes = pr;
        v.push_back(d);
      }
    return v;
  }

  std::vector<Case> &all_cases(bool thorough)
  {
    static std::vector<Case> q, t;
    std::vector<Case> &v = thorough ? t : q;
    if (v.empty()) { add_area_cases(v, thorough); add_plume_cases(v); add_line_cases(v); add_velocity_cases(v); add_variable_range_cases(v); add_grains_cases(v); }
    return v;
  }

  void run_case(const Case &c, uint64_t idx, Ctx &ctx)
  {
    static const int c_cmp = Ctx::counter_id("values_compared"), c_in = Ctx::counter_id("values_compared_where_the_model_applies"), c_und = Ctx::counter_id("probes_where_nothing_is_claimed");
    std::unique_ptr<World> w;
    try { w = make_world(c.world); }
    catch (const std::exception &e) { ctx.violation("C05/" + c.family + "/world-rejected", JObj().str("what", std::string(e.what()).substr(0, 400)).str("case", c.label).str("world", c.world).done()); return; }
    // velocity families judge one component of the block
    size_t slot = 0;
    if (c.family.compare(0, 20, "velocity/uniform raw") == 0) slot = static_cast<size_t>(c.family.back() - '0');
    uint64_t applies = 0;
    for (auto &p : c.probes)
      {
        if (c.expect_all)
          {
            const std::vector<LD> want = c.expect_all(p);
            const P3 q = query_point(c.spherical, p.x, p.y, p.depth);
            const std::vector<double> out = w->properties(q, p.depth, c.request);
            ctx.eval();
            bool any = false;
            for (size_t k = 0; k < want.size() && k < out.size(); ++k)
              {
                ctx.count(c_cmp);
                if (want[k] != 0) any = true;
                if (out.size() != want.size() || !(std::fabs(out[k] - static_cast<double>(want[k])) <= c.abs_tol + c.rel_tol * std::fabs(static_cast<double>(want[k]))))
                  {
                    std::vector<double> wd; for (LD x : want) wd.push_back(static_cast<double>(x));
                    ctx.violation("C05/" + c.family + (k < 2 ? "/grain-size" : "/rotation-matrix"), JObj().str("what", "the model does not return its documented values").str("case", c.label).raw("natural_point_x_y_depth", "[" + num(p.x) + "," + num(p.y) + "," + num(p.depth) + "]")
                                  .integer("slot", static_cast<long long>(k)).raw("expected", jarr(wd)).raw("returned", jarr(out)).str("world", c.world).done());
                    return;
                  }
              }
            if (any) { ++applies; ctx.count(c_in); }
            continue;
          }
        const Expect e = c.expect(p);
        if (!e.defined) { ctx.count(c_und); continue; }
        const P3 q = query_point(c.spherical, p.x, p.y, p.depth);
        const std::vector<double> out = w->properties(q, p.depth, c.request);
        ctx.eval();
        ctx.count(c_cmp);
        const double want = static_cast<double>(e.value), got = out[slot];
        const LD bg = background(p.depth);
        if (fabsl(e.value - bg) > 1e-6L || c.request[0][0] != 1) { ++applies; ctx.count(c_in); }
        if (!(std::fabs(got - want) <= c.abs_tol + c.rel_tol * std::fabs(want)))
          {
            std::string cls;
            if (c.known_wrong)
              {
                const double kw = static_cast<double>(c.known_wrong(p).value);
                if (std::fabs(got - kw) <= c.abs_tol + c.rel_tol * std::fabs(kw)) cls = "/" + c.known_class;
              }
            ctx.violation("C05/" + c.family + cls, JObj().str("what", "the model does not return its documented expression").str("case", c.label).raw("natural_point_x_y_depth", "[" + num(p.x) + "," + num(p.y) + "," + num(p.depth) + "]")
                          .num("expected", want).num("returned", got).num("background_at_that_depth", static_cast<double>(bg)).str("world", c.world).done());
            return;
          }
      }
    if (applies > 0) ctx.nontrivial();
    if (idx % 397 == 11) ctx.sample(JObj().str("family", c.family).str("case", c.label).integer("probes", static_cast<long long>(c.probes.size())).integer("probes_where_the_model_changes_the_value", static_cast<long long>(applies)).done());
  }

  void run_diff(const DiffCase &d, Ctx &ctx)
  {
    static const int c_cmp = Ctx::counter_id("values_compared");
    auto a = make_world(d.world_a, 1, "a"), b = make_world(d.world_b, 1, "b");
    uint64_t differs_from_background = 0;
    for (auto &p : d.probes)
      {
        const P3 q = query_point(false, p.x, p.y, p.depth);
        const double ta = a->properties(q, p.depth, {{{1,0,0}}})[0], tb = b->properties(q, p.depth, {{{1,0,0}}})[0];
        ctx.eval(); ctx.count(c_cmp);
        if (tb != 1650) ++differs_from_background;
        if (!biteq(ta, tb))
          {
            ctx.violation("C05/sentinel/potential-mantle-temperature-of-slab-model-does-not-override-the-global-value", JObj().str("what", "a non-negative local 'potential mantle temperature' must be used instead of the global one, and -1 must select the global one: the two worlds differ")
                          .str("case", d.label).raw("natural_point_x_y_depth", "[" + num(p.x) + "," + num(p.y) + "," + num(p.depth) + "]").num("world_with_local_override", ta).num("world_with_global_value", tb).str("world_a", d.world_a).str("world_b", d.world_b).done());
            return;
          }
      }
    if (differs_from_background > 0) ctx.nontrivial();
  }
}

int main(int argc, char **argv)
{
  Spec spec;
  spec.property = "C05";
  spec.level = "exploration";
  spec.rule = "one single-feature world per tuple of (feature type offering the model, model, parameter values incl. the 'negative means adiabatic / global' sentinels, model range narrower / equal / wider than the feature / default, operation, "
              "coordinate system); full product per model family. Probes at the ends of the feature and model ranges (and one metre inside), in between and outside. non-trivial: the model changes the value at one probe at least";
  spec.assumptions = {"expected values are the documented expressions in long double: uniform; linear between the local top and bottom of the model range clipped to the feature; adiabatic Tp exp(alpha g depth / cp); Chapman T0 + q/k dz - A/(2k) dz^2; "
                      "half space T_b + (T_t - T_b) erfc(depth / (2 sqrt(kappa age))), age = ridge distance / spreading velocity; plate model of Fowler (1990, ch. 7) summed to 4000 terms (probes at least 10 km from the ridge axis); constant-age plate series; "
                      "Gaussian plume Tc exp(-rho^2 / (2 sigma^2)) with linearly interpolated Tc and sigma; uniform composition with replace / replace defined only / add / subtract; smooth composition (tanh transition of the code comment, limits of the parameter documentation); uniform raw velocity",
                      "geometry is elementary: square plates, straight ridge parallel to y, vertical plume of constant cross section, vertical (90 degree) slab / fault on a straight trench where the distance from the plane is the horizontal offset",
                      "tolerance 1e-9 relative (1e-5 for the two plate models, whose series the library truncates at 100 terms, exact for velocity)",
                      "the sentinel of slab models without a closed form (mass conserving, plate model) is checked differentially: local override over a different global value must equal the world with that global value and -1"
                     };
  spec.counters = {"values_compared", "values_compared_where_the_model_applies", "probes_where_nothing_is_claimed"};
  spec.quick_deadline_s = 240;
  spec.thorough_deadline_s = 1200;
  return driver(argc, argv, spec, [](const std::string &tier)
  {
    const bool th = tier == "thorough";
    static std::vector<DiffCase> dc;
    dc = diff_cases();
    std::vector<Suite> s(2);
    s[0].name = "closed-forms";
    s[0].n = all_cases(th).size();
    s[0].run = [th](uint64_t i, Ctx &c) { run_case(all_cases(th)[i], i, c); };
    s[0].bound = std::to_string(s[0].n) + " single-feature worlds: uniform / linear / adiabatic (all area features, both coordinate systems, 4 range relations, 3 operations, sentinels), Chapman, half space / plate / constant-age plate models, plume Gaussian, slab and fault uniform / linear / adiabatic / compositions, velocities";
    s[0].describe = [th](uint64_t i) { return JObj().str("family", all_cases(th)[i].family).str("case", all_cases(th)[i].label).done(); };
    s[1].name = "sentinel-differential";
    s[1].n = dc.size();
    s[1].run = [](uint64_t i, Ctx &c) { run_diff(dc[i], c); };
    s[1].bound = "mass conserving and plate model slab temperatures: local potential mantle temperature vs the global one";
    return s;
  });
}
