// VARIANTS: rel
// C15 - seeded randomness is reproducible and random grains are valid (E2: operation sequences on twin worlds).
#include "kit.h"
#include "wbgen.h"
using namespace kit;
using namespace wbgen;
using WorldBuilder::World;

namespace
{
  const char *TYPE[6] = {"continental plate", "oceanic plate", "mantle layer", "plume", "subducting plate", "fault"};
  const char *MODEL[2] = {"random uniform distribution", "random uniform distribution deflected"};
  // (feature type, model) combinations that exist
  struct Combo { int type, model; };
  const std::vector<Combo> COMBOS = {{0,0},{0,1},{1,0},{1,1},{2,0},{2,1},{3,1},{4,0},{4,1},{5,0},{5,1}};
  const unsigned long CTOR_SEEDS[5] = {0, 1, 2, 1000, 4294967295ul};
  const long FILE_SEEDS[5] = {0, 1, 2, 1000, 2147483647};

  std::string grains_model(int model)
  {
    std::string g = "{\"model\":\"" + std::string(MODEL[model]) + "\",\"compositions\":[1,0],\"grain sizes\":[-1,0.3],\"normalize grain sizes\":[true,false]";
    if (model == 1) g += ",\"deflections\":[0.5,1.0],\"basis Euler angles z-x-z\":[[10,20,30],[0,0,0]]";
    return g + "}";
  }
  // the feature under test sits at x in [0,4] (lattice units of 100 km), y in [0,4]; a continental plate with random
  // composition sits at x in [6,8]
  std::string world_text(const Combo &c, long file_seed)
  {
    const double s = 1e5;
    auto sq = [&](double x0, double x1, double y0, double y1) { return pts({{x0*s,y0*s},{x1*s,y0*s},{x1*s,y1*s},{x0*s,y1*s}}); };
    std::string f = "{\"model\":\"" + std::string(TYPE[c.type]) + "\",\"name\":\"F\"";
    switch (c.type)
      {
        case 0: case 1: case 2: f += ",\"max depth\":2e5,\"coordinates\":" + sq(0,4,0,4); break;
        case 3: f += ",\"min depth\":0,\"max depth\":3e5,\"coordinates\":[" + pt({2*s,2*s}) + "," + pt({2*s,2*s}) + "],\"cross section depths\":[2e4,2e5],\"semi-major axis\":[" + num(1.5*s) + "," + num(1.5*s) + "],\"eccentricity\":[0,0],\"rotation angles\":[0,0]"; break;
        case 4: f += ",\"coordinates\":[" + pt({1*s,-1*s}) + "," + pt({1*s,5*s}) + "],\"dip point\":" + pt({9*s,2*s}) + ",\"segments\":[{\"length\":3e5,\"thickness\":[1e5],\"angle\":[45]}]"; break;
        case 5: f += ",\"coordinates\":[" + pt({2*s,-1*s}) + "," + pt({2*s,5*s}) + "],\"dip point\":" + pt({9*s,2*s}) + ",\"segments\":[{\"length\":2e5,\"thickness\":[1e5],\"angle\":[90]}]"; break;
      }
    f += ",\"temperature models\":[{\"model\":\"uniform\",\"temperature\":777}],\"grains models\":[" + grains_model(c.model) + "]}";
    const std::string cp = "{\"model\":\"continental plate\",\"name\":\"RC\",\"max depth\":2e5,\"coordinates\":" + sq(6,8,0,4) +
                           ",\"composition models\":[{\"model\":\"random\",\"compositions\":[1,0],\"min value\":[5,0.2],\"max value\":[7,0.4]}]}";
    std::string m = coord(false);
    if (file_seed >= 0) m += ",\"random number seed\":" + std::to_string(file_seed);
    return world(m, {f, cp});
  }
  const P3 P_IN = query_point(false, 1.9e5, 2.1e5, 1.2e5);   // inside every variant of F (slab: 0.9e5 behind the trench at 1.2e5 depth; fault: within its half thickness)
  const P3 P_OUT = query_point(false, -3e5, 2e5, 1.2e5);
  const P3 P_RC = query_point(false, 7e5, 2e5, 5e4);
  const double D_IN = 1.2e5, D_RC = 5e4;

  const int NOPS = 6;
  // (the models list their compositions as [1,0], so that list position and composition label differ)
  const char *OPN[NOPS] = {"grains(comp 1, k=1) inside", "grains(comp 1, k=2) inside", "grains(comp 0, k=5) inside", "grains(comp 1, k=2) outside", "properties[comp 0, comp 1] in random-composition plate", "temperature inside"};
  std::vector<double> do_op(World &w, int op)
  {
    switch (op)
      {
        case 0: return w.properties(P_IN, D_IN, {{{3,1,1}}});
        case 1: return w.properties(P_IN, D_IN, {{{3,1,2}}});
        case 2: return w.properties(P_IN, D_IN, {{{3,0,5}}});
        case 3: return w.properties(P_OUT, D_IN, {{{3,1,2}}});
        case 4: return w.properties(P_RC, D_RC, {{{2,0,0}},{{2,1,0}}});
        default: return {w.temperature(P_IN, D_IN)};
      }
  }
  std::string engine_string(World &w) { std::stringstream ss; ss << w.get_random_number_engine(); return ss.str(); }

  // validity of one answer
  void validate(int op, const std::vector<double> &v, const Combo &c, Ctx &ctx, const std::string &desc)
  {
    static const int c_rot = Ctx::counter_id("rotation_matrices_checked");
    auto bad = [&](const std::string &sig, const std::string &what)
    { ctx.violation(sig, JObj().str("what", what).str("operation", OPN[op]).raw("answer", jarr(v)).raw("case", desc).done()); };
    if (op <= 2)
      {
        const size_t k = op == 0 ? 1 : op == 1 ? 2 : 5;
        if (v.size() != 10*k) { bad("C15/size", "wrong size"); return; }
        double sum = 0;
        for (size_t g = 0; g < k; ++g) sum += v[g];
        if (op <= 1)
          {
            if (!(std::fabs(sum - 1.0) <= 1e-12)) bad(std::string("C15/grain-sizes-not-normalised/") + TYPE[c.type], "sizes requested as normalised do not sum to one");
            for (size_t g = 0; g < k; ++g) if (!(v[g] >= 0 && v[g] <= 1)) bad(std::string("C15/grain-size-out-of-range/") + TYPE[c.type], "normalised size outside [0,1]");
          }
        else
          for (size_t g = 0; g < k; ++g) if (!(std::fabs(v[g] - 0.3) <= 1e-15)) { bad(std::string("C15/fixed-grain-size-not-returned/") + TYPE[c.type], "fixed grain size 0.3 not returned as given"); break; }
        for (size_t g = 0; g < k; ++g)
          {
            const double *R = &v[k + 9*g];
            ctx.count(c_rot);
            double err = 0;
            for (int i = 0; i < 3; ++i) for (int j = 0; j < 3; ++j)
                {
                  double s = 0;
                  for (int m = 0; m < 3; ++m) s += R[3*i+m]*R[3*j+m];
                  err = std::max(err, std::fabs(s - (i == j ? 1.0 : 0.0)));
                }
            const double det = R[0]*(R[4]*R[8]-R[5]*R[7]) - R[1]*(R[3]*R[8]-R[5]*R[6]) + R[2]*(R[3]*R[7]-R[4]*R[6]);
            if (!(err <= 1e-12) || !(std::fabs(det - 1.0) <= 1e-12))
              { bad(std::string("C15/rotation-matrix-invalid/") + TYPE[c.type] + "/" + MODEL[c.model], "random grain orientation is not a proper rotation (|RR^T-I|=" + num(err) + ", det=" + num(det) + ")"); break; }
          }
      }
    else if (op == 4)
      {
        if (!(v[0] >= 0.2 && v[0] <= 0.4)) bad("C15/random-composition-out-of-bounds/composition-0", "random composition 0 outside [0.2,0.4]");
        if (!(v[1] >= 5 && v[1] <= 7)) bad("C15/random-composition-out-of-bounds/composition-1", "random composition 1 outside its own bounds [5,7]");
      }
    else if (op == 5) { if (v[0] != 777) bad("C15/temperature", "temperature inside the feature is not the uniform 777"); }
    else if (op == 3) { for (double x : v) if (x != 0) { bad("C15/grains-outside", "grains outside every feature are not zero"); break; } }
  }

  // ---- suite A: all operation sequences on twin worlds ----
  void run_seq(unsigned len, uint64_t idx, Ctx &ctx)
  {
    static const int c_tr = Ctx::counter_id("transitions"), c_traces = Ctx::counter_id("traces");
    uint64_t nseq = 1; for (unsigned k = 0; k < len; ++k) nseq *= NOPS;
    const Combo &c = COMBOS[idx / nseq];
    uint64_t i = idx % nseq;
    std::vector<int> ops(len);
    for (unsigned k = 0; k < len; ++k) { ops[len-1-k] = static_cast<int>(i % NOPS); i /= NOPS; }
    const std::string text = world_text(c, -1);
    const unsigned long seed = 1 + (idx % 3);      // constructor seeds 1,2,3 rotate over the cases
    auto a = make_world(text, seed, "a"), b = make_world(text, seed, "b");
    std::string hist = "[";
    for (size_t k = 0; k < ops.size(); ++k) hist += (k ? "," : "") + jstr(OPN[ops[k]]);
    hist += "]";
    const std::string desc = JObj().str("feature", TYPE[c.type]).str("model", MODEL[c.model]).integer("constructor_seed", static_cast<long long>(seed)).raw("history", hist).done();
    for (size_t k = 0; k < ops.size(); ++k)
      {
        const std::vector<double> va = do_op(*a, ops[k]), vb = do_op(*b, ops[k]);
        ctx.eval(); ctx.count(c_tr);
        if (!biteq(va, vb))
          ctx.violation(std::string("C15/twins-disagree/") + TYPE[c.type], JObj().str("what", "two worlds built alike and queried alike disagree").integer("step", static_cast<long long>(k)).raw("case", desc).raw("a", jarr(va)).raw("b", jarr(vb)).str("world", text).done());
        const std::string ea = engine_string(*a), eb = engine_string(*b);
        if (ea != eb) ctx.violation(std::string("C15/twin-engines-differ/") + TYPE[c.type], JObj().integer("step", static_cast<long long>(k)).raw("case", desc).done());
        ctx.key("engine_states", fnv(ea, fnv(&seed, sizeof seed)));
        validate(ops[k], va, c, ctx, desc);
      }
    ctx.count(c_traces);
    ctx.nontrivial();
    if (idx % 211 == 3) ctx.sample(desc);
  }

  // ---- suite B: seeds ----
  void run_seeds(uint64_t idx, Ctx &ctx)
  {
    const Combo &c = COMBOS[idx / 3];
    const int source = static_cast<int>(idx % 3);   // 0 constructor, 1 file, 2 both (file must win)
    std::vector<std::vector<double>> first(5);
    const std::string desc0 = JObj().str("feature", TYPE[c.type]).str("model", MODEL[c.model]).str("seed_source", source == 0 ? "constructor" : source == 1 ? "file" : "file and constructor").done();
    for (int s = 0; s < 5; ++s)
      {
        const std::string text = world_text(c, source == 0 ? -1 : FILE_SEEDS[s]);
        const unsigned long cs_a = source == 0 ? CTOR_SEEDS[s] : source == 1 ? 1 : 11, cs_b = source == 2 ? 22 : cs_a;
        auto a = make_world(text, cs_a, "a"), b = make_world(text, cs_b, "b");
        const std::string desc = JObj().raw("combo", desc0).integer("seed_index", s).integer("ctor_seed_a", static_cast<long long>(cs_a)).integer("ctor_seed_b", static_cast<long long>(cs_b)).done();
        std::vector<double> all;
        for (int op : {1, 4, 2, 0, 3, 5, 1})
          {
            const std::vector<double> va = do_op(*a, op), vb = do_op(*b, op);
            ctx.eval();
            if (!biteq(va, vb))
              {
                ctx.violation(std::string("C15/seed/") + (source == 2 ? "file-seed-does-not-override-constructor-seed" : "twins-disagree"),
                              JObj().str("what", "worlds with the same file and the same effective seed disagree").raw("case", desc).str("operation", OPN[op]).str("world", text).done());
                break;
              }
            validate(op, va, c, ctx, desc);
            if (all.empty()) all = va;
          }
        first[static_cast<size_t>(s)] = all;
        ctx.key("engine_states", fnv(engine_string(*a)));
      }
    for (int s = 0; s < 5; ++s) for (int t = s+1; t < 5; ++t)
        if (biteq(first[static_cast<size_t>(s)], first[static_cast<size_t>(t)]))
          ctx.violation(std::string("C15/seed/different-seeds-give-identical-draws/") + (source == 0 ? "constructor" : "file"),
                        JObj().raw("combo", desc0).integer("seed_a", source == 0 ? static_cast<long long>(CTOR_SEEDS[s]) : FILE_SEEDS[s]).integer("seed_b", source == 0 ? static_cast<long long>(CTOR_SEEDS[t]) : FILE_SEEDS[t]).done());
    ctx.nontrivial();
    if (idx % 5 == 1) ctx.sample(desc0);
  }
  // ---- suite C: validity over the model parameters ----
  // deflection (deflected model) x size settings x feature type x model; several points per feature (for slabs and faults at different
  // positions between the two trench coordinates, where the grains of the two sections are blended) x grain counts
  struct SizeCfg { const char *name; double size[2]; bool norm[2]; };   // index 0: composition 1 (listed first), index 1: composition 0
  const SizeCfg SIZES[5] =
  {
    {"fixed 0.4 normalised / fixed 0.3 normalised", {0.4, 0.3}, {true, true}},
    {"random normalised / fixed 0.3", {-1, 0.3}, {true, false}},
    {"fixed 0 / fixed 0.3", {0, 0.3}, {false, false}},
    {"fixed 2.5 / random not normalised", {2.5, -1}, {false, false}},
    {"random normalised / random normalised", {-1, -1}, {true, true}},
  };
  const double DEFLECTIONS[6] = {0.5, 0.0, 1e-3, 1e-2, 0.1, 1.0};
  void run_validity(uint64_t idx, Ctx &ctx)
  {
    static const int c_rot = Ctx::counter_id("rotation_matrices_checked");
    const Radix rx({COMBOS.size(), 6, 5, 2});
    const auto d = rx.decode(idx);
    const Combo &c = COMBOS[d[0]];
    const double defl = DEFLECTIONS[d[1]];
    if (c.model == 0 && d[1] != 0) return;     // the undeflected model has no deflection parameter
    const SizeCfg &sc = SIZES[d[2]];
    const unsigned long seed = d[3] == 0 ? 1 : 77;
    std::string g = "{\"model\":\"" + std::string(MODEL[c.model]) + "\",\"compositions\":[1,0],\"grain sizes\":[" + num(sc.size[0]) + "," + num(sc.size[1]) + "],\"normalize grain sizes\":[" + (sc.norm[0] ? "true" : "false") + "," + (sc.norm[1] ? "true" : "false") + "]";
    if (c.model == 1) g += ",\"deflections\":[" + num(defl) + "," + num(defl) + "],\"basis Euler angles z-x-z\":[[10,20,30],[0,0,0]]";
    g += "}";
    std::string text = world_text(c, -1);
    const std::string old = grains_model(c.model);
    const size_t pos = text.find(old);
    if (pos == std::string::npos) { ctx.violation("harness/C15-grains-model-not-found", "{}"); return; }
    text.replace(pos, old.size(), g);
    auto a = make_world(text, seed, "a"), b = make_world(text, seed, "b");
    const std::string desc = JObj().str("feature", TYPE[c.type]).str("model", MODEL[c.model]).num("deflection", c.model == 1 ? defl : NAN).str("sizes", sc.name).integer("constructor_seed", static_cast<long long>(seed)).done();
    // points inside the feature: (x, y) at depth 1.2e5; for the slab (45 degrees, trench x = 1e5) and the vertical fault (x = 2e5) at several positions along the trench
    std::vector<P3> pts_;
    for (double y : {-0.9e5, 0.5e5, 2.1e5, 3.7e5, 4.95e5})
      {
        if (c.type <= 3 && (y < 0.2e5 || y > 3.8e5)) continue;
        pts_.push_back(query_point(false, 1.9e5, c.type == 3 ? 2.1e5 : y, D_IN));
        if (c.type == 3) break;
      }
    bool any = false;
    for (const P3 &p : pts_)
      for (unsigned ci = 0; ci < 2; ++ci) for (unsigned k : {1u, 2u, 7u})
          {
            const unsigned comp = ci == 0 ? 1 : 0;
            const std::vector<double> va = a->properties(p, D_IN, {{{3,comp,k}}}), vb = b->properties(p, D_IN, {{{3,comp,k}}});
            ctx.eval();
            auto bad = [&](const std::string &sig, const std::string &what)
            { ctx.violation(sig, JObj().str("what", what).raw("point", jarr(p)).integer("composition", comp).integer("grains", k).raw("answer", jarr(va)).raw("case", desc).str("world", text).done()); };
            if (!biteq(va, vb)) { bad(std::string("C15/twins-disagree/") + TYPE[c.type], "two worlds built alike and queried alike disagree"); return; }
            if (va.size() != 10*k) { bad("C15/size", "wrong size"); return; }
            bool zero = true;
            for (double x : va) if (x != 0) zero = false;
            if (zero) { bad(std::string("C15/validity/point-not-inside/") + TYPE[c.type], "harness: the probe is not inside the feature (all-zero grains)"); return; }
            any = true;
            double sum = 0;
            for (unsigned gi = 0; gi < k; ++gi) sum += va[gi];
            if (sc.norm[ci]) { if (!(std::fabs(sum - 1.0) <= 1e-12)) { bad(std::string("C15/grain-sizes-not-normalised/") + TYPE[c.type], "sizes requested as normalised do not sum to one"); return; } }
            else if (sc.size[ci] >= 0)
              { for (unsigned gi = 0; gi < k; ++gi) if (!(std::fabs(va[gi] - sc.size[ci]) <= 1e-15)) { bad(std::string("C15/fixed-grain-size-not-returned/") + TYPE[c.type] + (sc.size[ci] == 0 ? "/size-0" : ""), "fixed grain size " + num(sc.size[ci]) + " not returned as given"); return; } }
            else
              { for (unsigned gi = 0; gi < k; ++gi) if (!(va[gi] >= 0 && va[gi] <= 1)) { bad(std::string("C15/grain-size-out-of-range/") + TYPE[c.type], "random grain size outside [0,1]"); return; } }
            for (unsigned gi = 0; gi < k; ++gi)
              {
                const double *R = &va[k + 9*gi];
                ctx.count(c_rot);
                double err = 0;
                for (int i = 0; i < 3; ++i) for (int j = 0; j < 3; ++j)
                    {
                      double t = 0;
                      for (int m = 0; m < 3; ++m) t += R[3*i+m]*R[3*j+m];
                      err = std::max(err, std::fabs(t - (i == j ? 1.0 : 0.0)));
                    }
                const double det = R[0]*(R[4]*R[8]-R[5]*R[7]) - R[1]*(R[3]*R[8]-R[5]*R[6]) + R[2]*(R[3]*R[7]-R[4]*R[6]);
                if (!(err <= 1e-12) || !(std::fabs(det - 1.0) <= 1e-12))
                  { bad(std::string("C15/rotation-matrix-invalid/") + TYPE[c.type] + "/" + MODEL[c.model], "random grain orientation is not a proper rotation (|RR^T-I|=" + num(err) + ", det=" + num(det) + ")"); return; }
              }
          }
    if (any) ctx.nontrivial();
    if (idx % 61 == 5) ctx.sample(desc);
  }
}

int main(int argc, char **argv)
{
  Spec spec;
  spec.property = "C15";
  spec.level = "model_checking";
  spec.rule = "sequence suites: for each of the 11 (feature type, random grains model) combinations every sequence of length <= D over 6 operations (grains with 1/2/5 grains inside, grains outside, "
              "random compositions, temperature) is executed on twin worlds built alike: answers and serialised engines must agree at every step, every answer is validated (orthonormality, determinant, "
              "normalisation, fixed sizes, composition bounds); seed suite: 11 combinations x seed source {constructor, file, both} x 5 seeds: twins agree, the file seed overrides the constructor seed, "
              "all pairs of distinct seeds give distinct first draws; validity suite: full product of combination x deflection x size settings x seed, every grain of every answer validated. states = distinct engine states reached; every sequence is distinct by construction and non-trivial";
  spec.assumptions = {"tolerance 1e-12 for orthonormality/determinant/normalisation", "a 'random number seed' entry >= 0 in the file is the seed of the world whatever the constructor argument"};
  spec.counters = {"transitions", "traces", "rotation_matrices_checked"};
  spec.quick_deadline_s = 300; spec.thorough_deadline_s = 1500;
  spec.finalize = [](const std::map<std::string,uint64_t> &c, const std::map<std::string,size_t> &k, JObj &cov)
  {
    cov.integer("states", k.count("engine_states") ? static_cast<long long>(k.at("engine_states")) : 0);
    cov.integer("transitions", static_cast<long long>(c.at("transitions")));
    cov.integer("traces_validated_against_impl", static_cast<long long>(c.at("traces")));
  };
  return driver(argc, argv, spec, [](const std::string &tier)
  {
    const unsigned D = tier == "thorough" ? 5 : 3;
    std::vector<Suite> s;
    for (unsigned len = 1; len <= D; ++len)
      {
        Suite a; a.name = "seq" + std::to_string(len);
        a.n = COMBOS.size(); for (unsigned k = 0; k < len; ++k) a.n *= NOPS;
        a.run = [len](uint64_t i, Ctx &c) { run_seq(len, i, c); };
        a.bound = "11 (feature, model) combinations x all sequences of length " + std::to_string(len) + " over 6 operations, twin worlds";
        s.push_back(a);
      }
    Suite b; b.name = "seeds"; b.n = COMBOS.size()*3; b.run = run_seeds;
    b.bound = "11 combinations x seed source {constructor, file, file+constructor} x seeds {0,1,2,1000,2^32-1 | 2^31-1}, all pairs";
    s.push_back(b);
    Suite v; v.name = "validity"; v.n = COMBOS.size()*6*5*2; v.run = run_validity;
    v.bound = "11 combinations x deflection {0.5, 0, 1e-3, 1e-2, 0.1, 1} (deflected model) x 5 size settings (random normalised, fixed and normalised, fixed 0, fixed 0.3, fixed 2.5, random not normalised) x 2 seeds; up to 5 points per feature "
              "(slab / fault: 5 positions between the trench coordinates) x both compositions x {1,2,7} grains: proper rotations, normalisation, fixed sizes as given, twins agree";
    s.push_back(v);
    return s;
  });
}
