// VARIANTS: rel
// C20 - cooling models stay inside their physical envelope.
#include "kit.h"
#include "wbgen.h"
using namespace kit;
using namespace wbgen;
using WorldBuilder::World;

namespace
{
  const double G_TP = 1600, G_ALPHA = 3.1e-5, G_CP = 1000, G_GRAV = 9.81, G_KAPPA = 1e-6, G_TSURF = 273;
  std::string globals(bool sph)
  {
    return coord(sph) + ",\"gravity model\":{\"model\":\"uniform\",\"magnitude\":" + num(G_GRAV) + "},\"potential mantle temperature\":" + num(G_TP) + ",\"thermal expansion coefficient\":" + num(G_ALPHA)
           + ",\"specific heat\":" + num(G_CP) + ",\"thermal diffusivity\":" + num(G_KAPPA) + ",\"surface temperature\":" + num(G_TSURF);
  }
  double adiabat(double depth) { return G_TP * std::exp(G_ALPHA * G_GRAV * depth / G_CP); }

  // ---------- suite 1: oceanic cooling models ----------
  struct Ocean
  {
    int model = 0;            // 0 half space model, 1 plate model, 2 plate model constant age
    int ridge = 0;            // 0 single straight, 1 bent, 2 two segments with a transform fault, 3 spherical
    double Tt = 273, Tb = 1600, v = 0.05, L = 1e5, age_yr = 5e7;
    bool varying_v = false;
    bool variable_max_depth = false;   // the model's max depth is given at points: L at the corners, 0.6 L at one interior point
  };
  const char *OMODEL[] = {"half space model", "plate model", "plate model constant age"};
  const char *RIDGES[] = {"single straight ridge", "bent ridge", "two ridge segments offset along a transform fault", "spherical, ridge along a meridian"};

  std::string describe(const Ocean &o)
  {
    return JObj().str("model", OMODEL[o.model]).str("ridge", RIDGES[o.ridge]).num("top_temperature", o.Tt).num("bottom_temperature", o.Tb).num("spreading_velocity", o.v).boolean("velocity_varies_along_ridge", o.varying_v)
           .num("max_depth", o.L).boolean("model_max_depth_given_at_points", o.variable_max_depth).num("plate_age_years", o.age_yr).done();
  }
  std::string ocean_world(const Ocean &o)
  {
    const bool sph = o.ridge == 3;
    const double s = sph ? 1.0 : 1e5;
    std::string ridge, vel = num(o.v);
    if (o.ridge == 0) ridge = "[[[" + num(2*s) + "," + num(-9*s) + "],[" + num(2*s) + "," + num(9*s) + "]]]";
    if (o.ridge == 1) ridge = "[[[" + num(2*s) + "," + num(-9*s) + "],[" + num(3*s) + "," + num(0) + "],[" + num(1.5*s) + "," + num(9*s) + "]]]";
    if (o.ridge == 2) ridge = "[[[" + num(2*s) + "," + num(-9*s) + "],[" + num(2*s) + "," + num(0) + "]],[[" + num(0.5*s) + "," + num(0) + "],[" + num(0.5*s) + "," + num(9*s) + "]]]";
    if (o.ridge == 3) ridge = "[[[2,-9],[2,9]]]";
    if (o.varying_v)
      {
        if (o.ridge == 1) vel = "[[0,[[" + num(o.v) + "," + num(1.5*o.v) + "," + num(0.7*o.v) + "]]]]";
        else if (o.ridge == 2) vel = "[[0,[[" + num(o.v) + "," + num(1.5*o.v) + "],[" + num(0.7*o.v) + "," + num(o.v) + "]]]]";
        else vel = "[[0,[[" + num(o.v) + "," + num(1.5*o.v) + "]]]]";
      }
    const std::string md = o.variable_max_depth ? "[[" + num(o.L) + "],[" + num(0.6 * o.L) + ",[[" + num(4*s) + "," + num(-0.5*s) + "]]]]" : num(o.L);
    std::string tm = std::string("{\"model\":\"") + OMODEL[o.model] + "\",\"max depth\":" + md + ",\"top temperature\":" + num(o.Tt) + ",\"bottom temperature\":" + num(o.Tb);
    if (o.model == 2) tm += ",\"plate age\":" + num(o.age_yr);
    else tm += ",\"spreading velocity\":" + vel + ",\"ridge coordinates\":" + ridge;
    tm += "}";
    const std::string f = "{\"model\":\"oceanic plate\",\"name\":\"O\",\"max depth\":" + num(o.L) + ",\"coordinates\":" + pts({{-6*s,-6*s},{6*s,-6*s},{6*s,6*s},{-6*s,6*s}}) + ",\"temperature models\":[" + tm + "]}";
    return world(globals(sph), {f});
  }

  void run_ocean(const Ocean &o, uint64_t idx, Ctx &ctx)
  {
    static const int c_env = Ctx::counter_id("envelope_checks"), c_mono_d = Ctx::counter_id("monotone_in_depth_checks"), c_mono_a = Ctx::counter_id("monotone_in_age_checks"), c_bnd = Ctx::counter_id("boundary_temperature_checks");
    const bool sph = o.ridge == 3;
    const double s = sph ? 1.0 : 1e5;
    const std::string text = ocean_world(o);
    auto w = make_world(text);
    const double lo = std::min(o.Tt, o.Tb), hi = std::max(o.Tt, o.Tb);
    const double tol = 1e-9 * std::max(std::fabs(lo), std::fabs(hi)) + 1e-9;
    auto T = [&](double x, double y, double depth) { return w->properties(query_point(sph, x, y, depth), depth, {{{1,0,0}}})[0]; };
    // age at a probe (straight ridges only; used to name probes whose plate is too young for the 100-term series of the plate models)
    bool young_override = false;   // set while a pair of probes is judged whose other member is unresolved
    auto ridge_distance = [&](double x, double y) -> double
    {
      if (sph) return std::fabs(x - 2.0) * PI / 180.0 * R_EARTH * std::cos(y * PI / 180.0);
      std::vector<std::vector<P2>> R;
      if (o.ridge == 0) R = {{{{2*s,-9*s}},{{2*s,9*s}}}};
      if (o.ridge == 1) R = {{{{2*s,-9*s}},{{3*s,0}},{{1.5*s,9*s}}}};
      if (o.ridge == 2) R = {{{{2*s,-9*s}},{{2*s,0}}},{{{0.5*s,0}},{{0.5*s,9*s}}}};
      double best = 1e300;
      for (auto &r : R) for (size_t i = 0; i + 1 < r.size(); ++i)
          {
            const double vx = r[i+1][0]-r[i][0], vy = r[i+1][1]-r[i][1], wx = x-r[i][0], wy = y-r[i][1];
            const double t = std::max(0.0, std::min(1.0, (wx*vx+wy*vy)/(vx*vx+vy*vy)));
            best = std::min(best, std::hypot(wx - t*vx, wy - t*vy));
          }
      return best;
    };
    auto young = [&](double x, double y) -> bool
    {
      if (o.model == 0) return false;
      if (young_override) return true;
      // constant age: the n-th term decays like exp(-n^2 pi^2 kappa t / L^2); plate model (advective form): like exp(-n pi x / L) for n pi >> v L / (2 kappa),
      // whatever the velocity. With 100 terms the remainder is below 1e-7 for kappa t / L^2 > 1.6e-4 resp. x / L > 0.05.
      if (o.model == 2) return G_KAPPA * o.age_yr * 365.25 * 86400 / (o.L * o.L) < 2e-4;
      return ridge_distance(x, y) < 0.06 * o.L;
    };
    auto fail = [&](const std::string &sig0, const std::string &what, double x, double y, double depth, double t, const std::string &extra = "{}") -> bool
    {
      const std::string sig = sig0 + ((sig0 == "not-monotone-in-depth" || sig0 == "not-falling-with-age") && young(x, y) ? "/plate-too-young-for-the-truncated-series" : "");
      ctx.violation("C20/oceanic/" + std::string(OMODEL[o.model]) + "/" + sig, JObj().str("what", what).raw("model", describe(o)).raw("natural_point_x_y_depth", "[" + num(x) + "," + num(y) + "," + num(depth) + "]").num("temperature", t)
                    .num("cold_end_member", lo).num("hot_end_member", hi).raw("extra", extra).str("world", text).done());
      return sig == sig0;   // ripples of a too young plate do not end the case: the other probes are still judged
    };
    std::vector<double> depths;
    for (int k = 0; k <= 40; ++k) depths.push_back(o.L * k / 40.0);
    depths.push_back(1.0); depths.push_back(o.L - 1.0);
    std::sort(depths.begin(), depths.end());
    // x lattice: on the ridge (2 units), next to it, far from it, on both sides
    const std::vector<double> xs = {2.0, 2.0 + 1e-6, 2.001, 2.01, 2.1, 2.5, 3.0, 4.0, 5.5, 1.999, 1.9, 1.0, 0.5, 0.0, -2.0, -5.5};
    const std::vector<double> ys = {-4.0, -0.5, 0.0, 0.25, 3.0};
    bool nontrivial = false;
    if (o.variable_max_depth)
      {
        // the model's bottom is a surface: L at the polygon corners, 0.6 L at the listed point (4, -0.5); judge the column through that point
        const double x = 4 * s, yy = -0.5 * s, Lloc = 0.6 * o.L * (1 - 1e-9);   // a hair above the listed value: in spherical worlds the interpolated value at the listed point carries rounding
        double prev = -1e300;
        for (int k = 0; k <= 40; ++k)
          {
            const double d = Lloc * k / 40.0, t = T(x, yy, d);
            ctx.eval(); ctx.count(c_env);
            if (!(t >= lo - tol && t <= hi + tol)) { if (fail(!(t == t) ? "not-a-number" : t > hi ? "above-the-hot-end-member" : "below-the-cold-end-member", "temperature outside [top temperature, bottom temperature] (model max depth given at points)", x, yy, d, t)) return; }
            if (t > lo + 1 && t < hi - 1) nontrivial = true;
            ctx.count(c_mono_d);
            if (!(t >= prev - 1e-7 * hi)) { if (fail("not-monotone-in-depth", "temperature decreases with depth (model max depth given at points)", x, yy, d, t)) return; }
            prev = t;
          }
        ctx.count(c_bnd);
        const double t0 = T(x, yy, 0.0), tL = T(x, yy, Lloc);
        if (!(std::fabs(t0 - o.Tt) <= 1e-6 * hi)) { if (fail("top-temperature-not-attained-at-the-top", "at depth 0 the top temperature is not attained", x, yy, 0.0, t0)) return; }
        if (o.model != 0 && !(std::fabs(tL - o.Tb) <= 1e-6 * hi)) { if (fail("bottom-temperature-not-attained-at-the-local-bottom-of-a-point-valued-max-depth", "at the model's local max depth (a value listed at this very point) the bottom temperature is not attained", x, yy, Lloc, tL)) return; }
        if (nontrivial) ctx.nontrivial();
        return;
      }
    for (double y : ys)
      {
        for (double xu : xs)
          {
            const double x = xu * s, yy = y * s;
            double prev = -1e300;
            for (size_t k = 0; k < depths.size(); ++k)
              {
                const double d = depths[k];
                const double t = T(x, yy, d);
                ctx.eval(); ctx.count(c_env);
                // the negated form also catches NaN
                if (!(t >= lo - tol && t <= hi + tol)) { if (fail(!(t == t) ? "not-a-number" : t > hi ? "above-the-hot-end-member" : "below-the-cold-end-member", "temperature outside [top temperature, bottom temperature]", x, yy, d, t)) return; }
                if (t > lo + 1 && t < hi - 1) nontrivial = true;
                if (o.Tt <= o.Tb)
                  {
                    ctx.count(c_mono_d);
                    if (!(t >= prev - 1e-7 * hi)) { if (fail("not-monotone-in-depth", "temperature decreases with depth", x, yy, d, t, JObj().num("temperature_at_previous_depth", prev).num("previous_depth", depths[k-1]).done())) return; }
                    prev = t;
                  }
              }
            // prescribed boundary temperatures at the model's own top and bottom
            ctx.count(c_bnd);
            const double t0 = T(x, yy, 0.0);
            // on the ridge axis (closer than 20 m; the great-circle distance resolves about 0.1 m) the half space solution is singular at depth 0 (age 0): nothing is claimed there
            if (!(o.model == 0 && ridge_distance(x, yy) < 20.0) && !(std::fabs(t0 - o.Tt) <= 1e-6 * hi)) { if (fail("top-temperature-not-attained-at-the-top", "at depth 0 the top temperature is not attained", x, yy, 0.0, t0)) return; }
            if (o.model != 0)
              {
                const double tL = T(x, yy, o.L);
                if (!(std::fabs(tL - o.Tb) <= 1e-6 * hi)) { if (fail("bottom-temperature-not-attained-at-the-bottom", "at the model's max depth the bottom temperature is not attained", x, yy, o.L, tL)) return; }
              }
          }
        // falling with age: along x away from the ridge on the +x side (ridge at 2 units; for the bent / two-segment ridges restrict to rows where the nearest ridge point is unambiguous)
        if (o.model != 2 && o.Tt <= o.Tb && !(o.ridge == 2 && std::fabs(y) < 1.0) && !o.varying_v)
          for (double d : {5e3, 2e4, 5e4})
            {
              if (d > o.L) continue;
              const double x0 = o.ridge == 1 ? 3.2 : 2.0;
              double prev = 1e300, prev_x = x0;
              for (double xu = x0; xu <= 5.9; xu += 0.1)
                {
                  const double t = T(xu * s, y * s, d);
                  ctx.count(c_mono_a);
                  young_override = young(prev_x * s, y * s);
                  if (!(t <= prev + 1e-7 * hi)) { if (fail("not-falling-with-age", "temperature rises with distance from the ridge at fixed depth", xu * s, y * s, d, t, JObj().num("temperature_nearer_to_the_ridge", prev).done())) return; }
                  young_override = false;
                  prev = t; prev_x = xu;
                }
            }
      }
    if (nontrivial) ctx.nontrivial();
    if (idx % 97 == 5) ctx.sample(describe(o));
  }

  std::vector<Ocean> oceans(bool th)
  {
    std::vector<Ocean> v;
    const std::vector<double> TT = th ? std::vector<double>{273, 1, 500} : std::vector<double>{273, 1};
    const std::vector<double> TB = th ? std::vector<double>{1600, 1000, 273} : std::vector<double>{1600, 1000};
    const std::vector<double> VS = th ? std::vector<double>{0.005, 0.02, 0.05, 0.15} : std::vector<double>{0.01, 0.05, 0.15};
    for (int model = 0; model < 3; ++model) for (double tt : TT) for (double tb : TB) for (double L : {1e5, 6e4})
            {
              if (tt > tb) continue;
              if (model == 2)
                { for (double age : (th ? std::vector<double>{0, 1e3, 1e5, 1e6, 2e7, 8e7, 5e8} : std::vector<double>{1e4, 1e6, 8e7})) for (int vm = 0; vm < 2; ++vm) { Ocean o; o.model = 2; o.Tt = tt; o.Tb = tb; o.L = L; o.age_yr = age; o.variable_max_depth = vm; v.push_back(o); } continue; }
              for (int ridge = 0; ridge < 4; ++ridge) for (double vel : VS) for (int vary = 0; vary < 2; ++vary)
                    { Ocean o; o.model = model; o.ridge = ridge; o.Tt = tt; o.Tb = tb; o.L = L; o.v = vel; o.varying_v = vary; v.push_back(o); }
              for (int ridge : {0, 3}) for (double vel : VS) { Ocean o; o.model = model; o.ridge = ridge; o.Tt = tt; o.Tb = tb; o.L = L; o.v = vel; o.variable_max_depth = true; v.push_back(o); }
            }
    return v;
  }

  // ---------- suite 2: slab thermal models (mass conserving, plate model) ----------
  struct Slab
  {
    int model = 0;   // 0 mass conserving (half space reference), 1 mass conserving (plate model reference), 2 plate model
    double dip = 45, vsub = 0.05, vspread = 0.05, ridge_x = -4e6, coupling = 8e4, taper = 1e5, forearc = 1.0, min_dist = -2e5, max_dist = 3e5;
    bool adiabatic = true, spline = false, curved = false;
    double length = 8e5;   // total length of the slab
    double m_cp = -1, m_tp = -1, m_alpha = -1;   // model-level overrides of the global constants (-1: use the global value)
    int overriding = 0;   // 0 nothing above, 1 cold continental plate above the slab, 2 warm uniform layer
  };
  std::string describe(const Slab &s)
  {
    return JObj().str("model", s.model == 2 ? "plate model" : s.model == 1 ? "mass conserving / plate model reference" : "mass conserving / half space reference").num("dip", s.dip).boolean("dip_increases_along_slab", s.curved).num("subducting_velocity", s.vsub)
           .num("spreading_velocity", s.vspread).num("ridge_x", s.ridge_x).num("coupling_depth", s.coupling).num("taper_distance", s.taper).num("forearc_cooling_factor", s.forearc).num("min_distance_slab_top", s.min_dist)
           .num("max_distance_slab_top", s.max_dist).boolean("adiabatic_heating", s.adiabatic).boolean("apply_spline", s.spline).integer("overriding_plate", s.overriding).num("slab_length", s.length).num("model_specific_heat", s.m_cp).num("model_potential_mantle_temperature", s.m_tp).num("model_thermal_expansion_coefficient", s.m_alpha).done();
  }
  std::string slab_world(const Slab &s, bool with_slab_temperature)
  {
    std::string tm;
    if (s.model == 2)
      tm = "{\"model\":\"plate model\",\"specific heat\":" + num(s.m_cp) + ",\"potential mantle temperature\":" + num(s.m_tp) + ",\"thermal expansion coefficient\":" + num(s.m_alpha) + ",\"density\":3300,\"plate velocity\":" + num(s.vsub) + ",\"adiabatic heating\":" + (s.adiabatic ? "true" : "false") + ",\"min distance slab top\":" + num(s.min_dist == -5e4 ? 2e4 : 0.0) + ",\"max distance slab top\":" + num(s.max_dist == 1.5e5 ? 6e4 : 1e5) + "}";
    else
      tm = "{\"model\":\"mass conserving\",\"specific heat\":" + num(s.m_cp) + ",\"potential mantle temperature\":" + num(s.m_tp) + ",\"thermal expansion coefficient\":" + num(s.m_alpha) + ",\"density\":3300,\"thermal conductivity\":3.3,\"adiabatic heating\":" + std::string(s.adiabatic ? "true" : "false") + ",\"spreading velocity\":" + num(s.vspread) + ",\"subducting velocity\":" + num(s.vsub)
           + ",\"ridge coordinates\":[[[" + num(s.ridge_x) + ",-2e6],[" + num(s.ridge_x) + ",2e6]]],\"coupling depth\":" + num(s.coupling) + ",\"forearc cooling factor\":" + num(s.forearc) + ",\"taper distance\":" + num(s.taper)
           + ",\"min distance slab top\":" + num(s.min_dist) + ",\"max distance slab top\":" + num(s.max_dist) + ",\"reference model name\":\"" + (s.model == 1 ? "plate model" : "half space model") + "\",\"apply spline\":" + (s.spline ? "true,\"number of points in spline\":7" : "false") + "}";
    const std::string segs = s.curved ? "[{\"length\":" + num(0.375*s.length) + ",\"thickness\":[3e5],\"top truncation\":[-2e5],\"angle\":[" + num(s.dip * 0.4) + "," + num(s.dip) + "]},{\"length\":" + num(0.625*s.length) + ",\"thickness\":[3e5],\"top truncation\":[-2e5],\"angle\":[" + num(s.dip) + "]}]"
                             : "[{\"length\":" + num(s.length) + ",\"thickness\":[3e5],\"top truncation\":[-2e5],\"angle\":[" + num(s.dip) + "]}]";
    std::vector<std::string> f;
    if (s.overriding == 1) f.push_back("{\"model\":\"continental plate\",\"name\":\"C\",\"max depth\":1.2e5,\"coordinates\":[[0,-1e6],[2e6,-1e6],[2e6,1e6],[0,1e6]],\"temperature models\":[{\"model\":\"linear\",\"max depth\":1.2e5,\"top temperature\":273,\"bottom temperature\":-1}]}");
    if (s.overriding == 2) f.push_back("{\"model\":\"mantle layer\",\"name\":\"M\",\"max depth\":4e5,\"coordinates\":[[-2e6,-1e6],[2e6,-1e6],[2e6,1e6],[-2e6,1e6]],\"temperature models\":[{\"model\":\"uniform\",\"temperature\":1750}]}");
    f.push_back(std::string("{\"model\":\"subducting plate\",\"name\":\"S\",\"coordinates\":[[0,-5e5],[0,5e5]],\"dip point\":[5e6,0],\"segments\":") + segs + (with_slab_temperature ? ",\"temperature models\":[" + tm + "]" : "") + ",\"composition models\":[{\"model\":\"uniform\",\"compositions\":[0],\"min distance slab top\":-1e6}]}");
    return world(globals(false), f);
  }

  void run_slab(const Slab &s, uint64_t idx, Ctx &ctx)
  {
    static const int c_env = Ctx::counter_id("envelope_checks"), c_in = Ctx::counter_id("slab_probes_where_the_model_changes_the_temperature"), c_refused = Ctx::counter_id("slab_tuples_refused_by_an_exception");
    const std::string text = slab_world(s, true), text0 = slab_world(s, false);
    std::unique_ptr<World> w, w0;
    try { w = make_world(text, 1, "s"); w0 = make_world(text0, 1, "a"); }
    catch (const std::exception &e) { ctx.violation("C20/slab/world-rejected", JObj().str("what", std::string(e.what()).substr(0, 300)).raw("model", describe(s)).str("world", text).done()); return; }
    uint64_t changed = 0;
    for (double x = -1.5e5; x <= 7.5e5; x += 2.5e4) for (double d = 0; d <= 7e5; d += 1.25e4) for (double y : {0.0, 3.1e5})
          {
            const P3 p = {{x, y, CART_TOP - d}};
            std::vector<double> a;
            try { a = w->properties(p, d, {{{1,0,0}},{{4,0,0}}}); }
            catch (const std::exception &) { ctx.count(c_refused); return; }   // e.g. 'the age of the trench at subduction initiation is less than 0': the tuple is refused at query time, nothing to judge
            const double ambient = w0->properties(p, d, {{{1,0,0}}})[0];
            ctx.eval();
            const double t = a[0];
            if (a[1] < 0 || a[1] != static_cast<double>(s.overriding ? 1 : 0)) { if (!(t == ambient)) { ctx.violation("C20/slab/temperature-changed-outside-the-slab", JObj().raw("model", describe(s)).raw("point", jarr(p)).num("depth", d).num("temperature", t).num("without_the_slab_model", ambient).str("world", text).done()); return; } continue; }
            ctx.count(c_env);
            if (t != ambient) { ++changed; ctx.count(c_in); }
            // the hot end member: ambient temperature, the world's adiabat, and the adiabat of the model's own constants where it overrides them
            const double tp_m = s.m_tp > 0 ? s.m_tp : G_TP, al_m = s.m_alpha > 0 ? s.m_alpha : G_ALPHA, cp_m = s.m_cp > 0 ? s.m_cp : G_CP;
            const double hot = std::max(std::max(ambient, adiabat(d)), tp_m * std::exp(al_m * G_GRAV * d / cp_m)), cold = G_TSURF;
            const double tol = 1e-6 * hot;
            if (!(t >= cold - tol && t <= hot + tol))
              {
                std::string kind = !(t == t) ? "not-a-number" : t > hot ? "above-ambient-and-adiabat" : "below-the-surface-temperature";
                if (t > hot && t - hot <= 1e-5 * hot) kind += "-by-less-than-1e-5-relative";
                ctx.violation(std::string("C20/slab/") + (s.model == 2 ? "plate model" : "mass conserving") + "/" + kind + (s.model != 2 ? (s.spline ? "/with-apply-spline" : "/without-spline") : ""), JObj().str("what", "slab temperature outside [surface temperature, max(ambient temperature, background adiabat at that depth)]").raw("model", describe(s))
                              .raw("point", jarr(p)).num("depth", d).num("temperature", t).num("ambient_temperature_without_the_slab_model", ambient).num("adiabat_at_depth", adiabat(d)).num("surface_temperature", cold).str("world", text).done());
                return;
              }
          }
    if (changed > 20) ctx.nontrivial();
    if (idx % 53 == 3) ctx.sample(JObj().raw("model", describe(s)).integer("probes_changed_by_the_model", static_cast<long long>(changed)).done());
  }

  std::vector<Slab> slabs(bool th)
  {
    // deviation-bounded: all tuples that differ from the default slab in at most 2 | 3 coordinates
    const std::vector<uint64_t> radices = {3 /*model*/, 4 /*dip*/, 3 /*vsub*/, 3 /*vspread*/, 3 /*ridge*/, 3 /*coupling*/, 3 /*taper*/, 2 /*forearc*/, 3 /*min dist*/, 2 /*max dist*/, 2 /*adiabatic*/, 2 /*spline*/, 2 /*curved*/, 3 /*overriding*/, 3 /*length*/, 2 /*model cp*/, 2 /*model Tp*/, 2 /*model alpha*/};
    std::vector<Slab> v;
    for (auto &d : deviations(radices, th ? 4 : 2))
      {
        Slab s;
        s.model = static_cast<int>(d[0]);
        s.dip = std::vector<double>{45, 30, 60, 90}[d[1]];
        s.vsub = std::vector<double>{0.05, 0.01, 0.12}[d[2]];
        s.vspread = std::vector<double>{0.05, 0.01, 0.12}[d[3]];
        s.ridge_x = std::vector<double>{-4e6, -2e5, -1.2e7}[d[4]];
        s.coupling = std::vector<double>{8e4, 0, 2e5}[d[5]];
        s.taper = std::vector<double>{1e5, 0, 3e5}[d[6]];
        s.forearc = d[7] ? 20.0 : 1.0;
        s.min_dist = std::vector<double>{-2e5, 0, -5e4}[d[8]];
        s.max_dist = d[9] ? 1.5e5 : 3e5;
        s.adiabatic = d[10] == 0;
        s.spline = d[11] == 1;
        s.curved = d[12] == 1;
        s.overriding = static_cast<int>(d[13]);
        s.length = std::vector<double>{8e5, 3.5e5, 2e5}[d[14]];     // short slabs: the taper zone reaches above the coupling depth
        // model-level constants below the global ones (a colder, stiffer model inside a hotter world stays inside the world's envelope)
        s.m_cp = d[15] ? 0.8 * G_CP : -1;     // (a smaller specific heat steepens the model's own adiabat: the envelope below takes the model's adiabat into account)
        s.m_tp = d[16] ? 0.9 * G_TP : -1;
        s.m_alpha = d[17] ? 0.6 * G_ALPHA : -1;
        v.push_back(s);
      }
    // full product over the coordinates that decide where along the slab the coupling depth, the taper and the tip lie relative to each other
    for (double len : {8e5, 4e5, 2e5}) for (double cpl : {8e4, 0.0, 2e5}) for (double tap : {1e5, 0.0, 3.5e5}) for (double vs : {0.05, 0.01, 0.1}) for (double rx : {-4e6, -2e5, -1.2e7}) for (double dip : {45.0, 30.0, 60.0})
              {
                int ndev = (len != 8e5) + (cpl != 8e4) + (tap != 1e5) + (vs != 0.05) + (rx != -4e6) + (dip != 45.0);
                if (ndev <= 2 && !th) continue;      // already in the deviation-bounded part (the thorough tier varies other values there)
                Slab s; s.length = len; s.coupling = cpl; s.taper = tap; s.vsub = vs; s.ridge_x = rx; s.dip = dip;
                v.push_back(s);
              }
    return v;
  }

  // ---------- suite 3: linear models between their two boundary temperatures ----------
  struct Lin { int feature; double fmin, mlo, mhi, Tt, Tb; bool sph; };
  const char *LF[] = {"continental plate", "oceanic plate", "mantle layer", "subducting plate", "fault"};
  void run_linear(const Lin &l, uint64_t idx, Ctx &ctx)
  {
    static const int c_env = Ctx::counter_id("envelope_checks"), c_bnd = Ctx::counter_id("boundary_temperature_checks");
    const double s = l.sph ? 1.0 : 1e5, FMAX = 2e5;
    std::string f;
    if (l.feature < 3)
      f = std::string("{\"model\":\"") + LF[l.feature] + "\",\"name\":\"A\",\"min depth\":" + num(l.fmin) + ",\"max depth\":" + num(FMAX) + ",\"coordinates\":" + pts({{-5*s,-5*s},{5*s,-5*s},{5*s,5*s},{-5*s,5*s}})
          + ",\"temperature models\":[{\"model\":\"linear\",\"min depth\":" + num(l.mlo) + ",\"max depth\":" + num(l.mhi) + ",\"top temperature\":" + num(l.Tt) + ",\"bottom temperature\":" + num(l.Tb) + "}]}";
    else
      f = std::string("{\"model\":\"") + LF[l.feature] + "\",\"name\":\"A\",\"coordinates\":[[0,-4e5],[0,4e5]],\"dip point\":[5e6,0],\"segments\":[{\"length\":3e5,\"thickness\":[2e5]" + std::string(l.feature == 3 ? ",\"top truncation\":[-1e5]" : "") + ",\"angle\":[90]}],\"temperature models\":[{\"model\":\"linear\","
          + (l.feature == 3 ? "\"min distance slab top\":" + num(l.mlo) + ",\"max distance slab top\":" + num(l.mhi) + ",\"top temperature\":" + num(l.Tt) + ",\"bottom temperature\":" + num(l.Tb)
             : "\"min distance fault center\":" + num(l.mlo) + ",\"max distance fault center\":" + num(l.mhi) + ",\"center temperature\":" + num(l.Tt) + ",\"side temperature\":" + num(l.Tb)) + "}]}";
    const std::string text = world(globals(l.sph), {f});
    auto w = make_world(text);
    const double lo = std::min(l.Tt, l.Tb), hi = std::max(l.Tt, l.Tb), tol = 1e-9 * hi + 1e-9;
    auto fail = [&](const std::string &sig, double coord1, double t)
    {
      ctx.violation(std::string("C20/linear/") + LF[l.feature] + "/" + sig, JObj().str("what", "linear model outside its two boundary temperatures or boundary temperature not attained").str("feature", LF[l.feature]).num("feature_min_depth", l.fmin).num("model_range_low", l.mlo).num("model_range_high", l.mhi)
                    .num("first_temperature", l.Tt).num("second_temperature", l.Tb).num("depth_or_distance", coord1).num("temperature", t).str("world", text).done());
    };
    // the range in which the model acts: clipped to the feature for area features
    const double a = l.feature < 3 ? std::max(l.fmin, l.mlo) : l.mlo, b = l.feature < 3 ? std::min(FMAX, l.mhi) : std::min(l.feature == 3 ? 2e5 : 1e5, l.mhi);
    for (int k = 0; k <= 50; ++k)
      {
        const double c1 = a + (b - a) * k / 50.0;
        double t;
        if (l.feature < 3) t = w->properties(query_point(l.sph, 1.5*s, -2.25*s, c1), c1, {{{1,0,0}}})[0];
        else
          {
            // a millimetre off the plane itself; the slab body lies on the -x side, negative distances (above the slab surface) on the +x side
            const double cc = std::fabs(c1) < 1e-3 ? (l.mlo < 0 && c1 < 0 ? -1e-3 : 1e-3) : c1;
            t = w->properties(P3{{l.feature == 3 ? -cc : (k % 2 ? cc : -cc), 1e5, CART_TOP - 1e5}}, 1e5, {{{1,0,0}}})[0];
          }
        ctx.eval(); ctx.count(c_env);
        if (!(t >= lo - tol && t <= hi + tol)) { fail(t > hi ? "above-the-hot-boundary-temperature" : "below-the-cold-boundary-temperature", c1, t); return; }
        if (k == 0) { ctx.count(c_bnd); if (!(std::fabs(t - l.Tt) <= (l.feature >= 3 ? 1e-6 : 1e-9) * hi)) { fail("first-boundary-temperature-not-attained", c1, t); return; } }
        if (k == 50 && !(l.feature >= 3 && l.mhi > b)) { ctx.count(c_bnd); if (!(std::fabs(t - l.Tb) <= 1e-9 * hi)) { fail("second-boundary-temperature-not-attained", c1, t); return; } }
      }
    ctx.nontrivial();
    (void)idx;
  }
  std::vector<Lin> linears(bool th)
  {
    std::vector<Lin> v;
    for (int f = 0; f < 5; ++f) for (int sph = 0; sph < (f < 3 ? 2 : 1); ++sph) for (double fmin : (f < 3 ? std::vector<double>{0, 3e4} : std::vector<double>{0}))
          for (auto r : (f < 3 ? std::vector<std::array<double,2>>{{{5e4, 1.5e5}}, {{fmin, 2e5}}, {{0, 3e5}}, {{0, 1e5}}, {{1e5, 4e5}}} : (f == 3 ? std::vector<std::array<double,2>>{{{0, 8e4}}, {{2e4, 6e4}}, {{0, 2e5}}, {{-6e4, 4e4}}, {{-3e4, 8e4}}, {{-8e4, -1e4}}} : std::vector<std::array<double,2>>{{{0, 8e4}}, {{2e4, 6e4}}, {{0, 1e5}}})))
            for (auto T : (th ? std::vector<std::array<double,2>>{{{300, 1600}}, {{1600, 300}}, {{1000, 1000}}, {{1, 2500}}} : std::vector<std::array<double,2>>{{{300, 1600}}, {{1600, 300}}}))
              v.push_back({f, fmin, r[0], r[1], T[0], T[1], sph == 1});
    return v;
  }
}

int main(int argc, char **argv)
{
  Spec spec;
  spec.property = "C20";
  spec.level = "exploration";
  spec.rule = "suite oceanic: full product of model {half space, plate, constant-age plate} x (top, bottom) temperatures with top <= bottom x max depth x ridge geometry {straight, bent, two segments with transform, spherical} x spreading velocity x "
              "{uniform, varying along the ridge}; every world probed on 16 x 5 surface positions (on the ridge axis, 0.1 m / 100 m / 1 km from it, far from it, on both sides) x 43 depths. suite slabs: every parameter tuple of the mass conserving "
              "and plate model slab temperatures within 2 | 4 deviations of a default (18 coordinates: model, dip, velocities, ridge distance, coupling depth, taper, forearc cooling, distance range, adiabatic heating, spline, curved slab, overriding plate, slab length, model-level specific heat / potential mantle temperature / thermal expansion coefficient), plus the full product of slab length x coupling depth x taper distance x subducting velocity x ridge distance x dip (3^6) with the other coordinates at their defaults "
              "on a 37 x 57 x 2 probe lattice. suite linear: linear models of all five feature types x range relations x boundary temperatures. non-trivial: some probe strictly between the end members";
  spec.assumptions = {"envelope of slab models: surface temperature <= T <= max(ambient temperature, background adiabat at that depth); the ambient temperature is what the same world answers when the slab has no temperature model (twin world)",
                      "comparisons are written in negated form so that NaN counts as outside the envelope",
                      "monotone in depth / falling with age are judged along lattice lines with a slack of 1e-7 of the hot end member; falling with age only for uniform spreading velocity and away from transform faults"
                     };
  spec.counters = {"envelope_checks", "monotone_in_depth_checks", "monotone_in_age_checks", "boundary_temperature_checks", "slab_probes_where_the_model_changes_the_temperature", "slab_tuples_refused_by_an_exception"};
  spec.quick_deadline_s = 240;
  spec.thorough_deadline_s = 1500;
  return driver(argc, argv, spec, [](const std::string &tier)
  {
    const bool th = tier == "thorough";
    static std::vector<Ocean> oc; static std::vector<Slab> sl; static std::vector<Lin> li;
    oc = oceans(th); sl = slabs(th); li = linears(th);
    std::vector<Suite> s(3);
    s[0].name = "oceanic"; s[0].n = oc.size(); s[0].run = [](uint64_t i, Ctx &c) { run_ocean(oc[i], i, c); };
    s[0].bound = std::to_string(oc.size()) + " oceanic plates";
    s[0].describe = [](uint64_t i) { return describe(oc[i]); };
    s[1].name = "slabs"; s[1].n = sl.size(); s[1].run = [](uint64_t i, Ctx &c) { run_slab(sl[i], i, c); };
    s[1].bound = std::to_string(sl.size()) + " slab parameter tuples within " + (th ? "4" : "2") + " deviations of the default";
    s[1].describe = [](uint64_t i) { return describe(sl[i]); };
    s[2].name = "linear"; s[2].n = li.size(); s[2].run = [](uint64_t i, Ctx &c) { run_linear(li[i], i, c); };
    s[2].bound = std::to_string(li.size()) + " linear models";
    return s;
  });
}
