// VARIANTS: sch
// (variant sch: the library is compiled with mc/atomic_hook.h force-included, so that every std::atomic of the library is a scheduling point too)
// C14 - concurrent queries are race-free and gwb-grid output does not depend on -j.
//  (a) partition: the real ThreadPool::parallel_for for every (n, threads): every index visited exactly once
//  (b) sched:     all schedules with <= k preemptions of worker threads (real ThreadPool + real World) under a
//                 cooperative scheduler hooked into World::properties; every result equals the sequential answer
//  (c) tsan:      free-running ThreadSanitizer build of the same bodies (separate binary), any report is a violation
//  (d) jindep:    the real gwb-grid binary for every -j in 1..40 on small grids: byte-identical output files
#define SCHED_INTERPOSE
#include "coopsched.h"
#include "kit.h"
#include "worlds.h"
#include "world_builder/verif_hooks.h"
// The tool's source is compiled into this harness with std::atomic mapped onto the scheduler's hooked atomic, so that a thread pool
// which hands out work through atomics gets a scheduling point at each of them. Every standard header the tool (or a change to it) is
// likely to use is included first: the mapping must only touch the tool's own code.
#include <algorithm>
#include <array>
#include <atomic>
#include <cfenv>
#include <chrono>
#include <cmath>
#include <condition_variable>
#include <deque>
#include <fstream>
#include <functional>
#include <future>
#include <iostream>
#include <iterator>
#include <limits>
#include <list>
#include <memory>
#include <mutex>
#include <numeric>
#include <queue>
#include <shared_mutex>
#include <sstream>
#include <string>
#include <thread>
#include <vector>
#include "vtu11/vtu11.hpp"
#undef max
#undef min
namespace std { template <typename V> using verif_hooked_atomic = ::sched::atomic_hook<V>; }
#define atomic verif_hooked_atomic
#define main gwb_grid_main
#include "gwb-grid/main.cc"
#undef main
#undef atomic
using namespace kit;
using namespace wbgen;

namespace
{
  // ---------- (a) partition ----------
  void run_partition(uint64_t idx, Ctx &ctx)
  {
    static const int c_calls = Ctx::counter_id("parallel_for_calls");
    const size_t T = static_cast<size_t>(idx % 40) + 1;
    // n runs through 0..nmax, then through sizes around the powers of two a pool might treat specially
    static const size_t EXTRA_N[] = {1022, 1023, 1024, 1025, 1026, 1331, 2047, 2048, 2049, 3000, 4095, 4096, 4097, 4913, 10000};
    const size_t nmax = static_cast<size_t>(G().tier == "thorough" ? 2000 : 256);
    const size_t ni = static_cast<size_t>(idx / 40);
    const size_t n = ni <= nmax ? ni : EXTRA_N[ni - nmax - 1];
    for (size_t start : {static_cast<size_t>(0), static_cast<size_t>(3)})
      {
        std::vector<std::atomic<int>> visits(n + start + 2);
        for (auto &v : visits) v = 0;
        ThreadPool pool(T);
        pool.parallel_for(start, start + n, [&](size_t i) { if (i < visits.size()) visits[i].fetch_add(1); else visits.back().fetch_add(1000); });
        ctx.eval(); ctx.count(c_calls);
        std::string bad;
        for (size_t i = 0; i < visits.size(); ++i)
          {
            const int expect = (i >= start && i < start + n) ? 1 : 0;
            if (visits[i].load() != expect) bad += (bad.empty() ? "" : ",") + std::to_string(i) + ":" + std::to_string(visits[i].load());
          }
        if (!bad.empty())
          ctx.violation("C14/partition/index-not-visited-exactly-once", JObj().integer("range_start", static_cast<long long>(start)).integer("n", static_cast<long long>(n))
                        .integer("threads", static_cast<long long>(T)).str("index:visits (unexpected only)", bad).done());
      }
    if (n > 0 && T > 1) ctx.nontrivial();
    if (idx % 3001 == 7) ctx.sample(JObj().str("suite", "partition").integer("n", static_cast<long long>(n)).integer("threads", static_cast<long long>(T)).done());
  }

  // ---------- (a2) the thread pool alone under the scheduler ----------
  // parallel_for with a trivial body: the scheduling points are thread creation / join / exit plus every mutex and atomic operation the pool uses.
  struct PCfg { size_t threads, n; int bound; };
  void run_psched(const std::vector<PCfg> &cfgs, uint64_t idx, Ctx &ctx)
  {
    static const int c_ex = Ctx::counter_id("schedules_executed"), c_pts = Ctx::counter_id("scheduling_points"), c_pre = Ctx::counter_id("schedules_with_preemption");
    const PCfg &pc = cfgs[idx];
    const size_t start = idx % 2 ? 3 : 0;
    std::vector<int> visits;
    const std::function<void()> body = [&]()
    {
      visits.assign(pc.n + start + 2, 0);
      ThreadPool pool(pc.threads);
      pool.parallel_for(start, start + pc.n, [&](size_t i) { if (i < visits.size()) ++visits[i]; else visits.back() += 1000; });
    };
    sched::Stats st;
    const double t_end = G().deadline;
    bool reported = false;
    sched::explore(body, pc.bound, [&](const sched::Trace &x)
    {
      ctx.eval();
      std::string bad;
      for (size_t i = 0; i < visits.size() && bad.size() < 200; ++i)
        {
          const int expect = (i >= start && i < start + pc.n) ? 1 : 0;
          if (visits[i] != expect) bad += (bad.empty() ? "" : ",") + std::to_string(i) + ":" + std::to_string(visits[i]);
        }
      if (!bad.empty() && !reported)
        {
          reported = true;
          std::string ch;
          for (int c : x.choices()) ch += (ch.empty() ? "" : ",") + std::to_string(c);
          ctx.violation("C14/partition-under-scheduler/index-not-visited-exactly-once", JObj().integer("range_start", static_cast<long long>(start)).integer("n", static_cast<long long>(pc.n))
                        .integer("threads", static_cast<long long>(pc.threads)).integer("preemption_bound", pc.bound).str("index:visits (unexpected only)", bad).raw("schedule_choices", "[" + ch + "]").done());
        }
    }, st, [&]() { return reported || now() > t_end; });
    ctx.count(c_ex, st.executions); ctx.count(c_pts, st.points); ctx.count(c_pre, st.preempting_executions);
    if (now() > t_end) ctx.w->deadline_hit = ctx.w->deadline_hit + 1;
    if (st.executions > 1) ctx.nontrivial();
    if (idx % 7 == 1) ctx.sample(JObj().str("suite", "psched").integer("threads", static_cast<long long>(pc.threads)).integer("n", static_cast<long long>(pc.n)).integer("bound", pc.bound).integer("schedules", static_cast<long long>(st.executions)).done());
  }

  // ---------- (b) schedules ----------
  // world 0: three overlapping features, every node another point. world 1: an oceanic plate with the 'plate model' cooling model, the nodes visit
  // every column twice in a row (an application evaluates a point once per field): whatever a model remembers of its last column is then re-used
  struct Config { int workers, nodes, bound; bool spherical; int world = 0; };
  // one unit of work: the root schedule of a configuration, or the complete subtree below one first deviation from it
  struct Unit { size_t cfg; int point; int alt; };
  // world for the schedule exploration: three overlapping features (5 scheduling points per query)
  std::string sched_world(bool sph, int kind = 0)
  {
    const double s = sph ? 1.0 : 1e5;
    auto sq = [&](double x0, double x1, double y0, double y1) { return pts({{x0*s,y0*s},{x1*s,y0*s},{x1*s,y1*s},{x0*s,y1*s}}); };
    std::vector<std::string> f;
    f.push_back("{\"model\":\"oceanic plate\",\"name\":\"OP\",\"max depth\":1e5,\"coordinates\":" + sq(-5,5,-5,5) +
                ",\"temperature models\":[" + (kind == 1 ? "{\"model\":\"plate model\",\"max depth\":1e5,\"top temperature\":280,\"bottom temperature\":1600,\"spreading velocity\":0.04,\"ridge coordinates\":[[" + pt({4.5*s,-6*s}) + "," + pt({4.5*s,6*s}) + "]]}"
                                           : std::string("{\"model\":\"linear\",\"max depth\":1e5,\"top temperature\":280,\"bottom temperature\":1600}")) + "]"
                ",\"composition models\":[{\"model\":\"uniform\",\"compositions\":[1,0],\"fractions\":[0.75,0.25]}]"
                ",\"grains models\":[" + worlds::uniform_grains("[0,1]", 2, 25) + "]"
                ",\"velocity models\":[{\"model\":\"uniform raw\",\"velocity\":[0.06,-0.01,0.002]}]}");
    f.push_back("{\"model\":\"mantle layer\",\"name\":\"ML\",\"min depth\":1e5,\"max depth\":6e5,\"coordinates\":" + sq(-5,5,-5,5) +
                // (the adiabatic model takes the world-level constants, i.e. whatever a query keeps in the world object on its way to the models is read here)
                ",\"temperature models\":[{\"model\":\"adiabatic\",\"min depth\":1e5,\"max depth\":6e5},{\"model\":\"linear\",\"min depth\":1e5,\"max depth\":6e5,\"top temperature\":150,\"bottom temperature\":170,\"operation\":\"add\"}]"
                ",\"composition models\":[{\"model\":\"uniform\",\"compositions\":[2]}]"
                ",\"velocity models\":[{\"model\":\"uniform raw\",\"velocity\":[0.01,0.02,0.03]}]}");
    f.push_back("{\"model\":\"subducting plate\",\"name\":\"SL\",\"coordinates\":[" + pt({1*s,-4*s}) + "," + pt({1.2*s,0}) + "," + pt({1*s,4*s}) + "],\"dip point\":" + pt({20*s,0}) +
                ",\"segments\":[{\"length\":2e5,\"thickness\":[8e4],\"angle\":[30,60]},{\"length\":1.5e5,\"thickness\":[8e4,6e4],\"angle\":[60]}]"
                ",\"temperature models\":[{\"model\":\"plate model\",\"density\":3300,\"plate velocity\":0.02}]"
                ",\"composition models\":[{\"model\":\"uniform\",\"compositions\":[0,2],\"fractions\":[0.5,0.5]}]"
                ",\"grains models\":[" + worlds::uniform_grains("[0]", 1, 45) + "]"
                ",\"velocity models\":[{\"model\":\"uniform raw\",\"velocity\":[0.03,0,-0.03]}]}");
    return world(coord(sph) + ",\"cross section\":[" + pt({-4.5*s, -3.5*s}) + "," + pt({3.5*s, 2.5*s}) + "]", f);
  }
  const Request NODE_REQ[6] = {{{{1,0,0}}}, {{{1,0,0}},{{2,0,0}},{{4,0,0}}}, {{{3,0,2}},{{5,0,0}},{{1,0,0}},{{2,1,0}}}, {{{4,0,0}},{{5,0,0}}}, {{{2,2,0}},{{1,0,0}}}, {{{3,1,1}},{{4,0,0}},{{1,0,0}}}};
  const size_t NODE_PROBE[6] = {61, 97, 140, 13, 200, 150};

  // node i: even nodes use the 3-D interface, odd nodes the 2-D interface (different request lists everywhere)
  std::vector<double> node_query(const WorldBuilder::World &w, bool sph, const std::vector<worlds::Probe> &probes, const std::vector<worlds::Probe2> &probes2, size_t i, int kind = 0)
  {
    if (kind == 1)
      {
        // columns inside the oceanic plate (depths 2e4 / 8e4), each visited twice in a row
        static const size_t COL[4] = {1, 37, 73, 109};
        const auto &pr = probes[COL[(i / 2) % 4] + (i % 2)];
        return w.properties(query_point(sph, pr.x, pr.y, pr.depth), pr.depth, NODE_REQ[(i / 2) % 6]);
      }
    if (i % 2 == 0)
      {
        const auto &pr = probes[NODE_PROBE[i % 6]];
        return w.properties(query_point(sph, pr.x, pr.y, pr.depth), pr.depth, NODE_REQ[i % 6]);
      }
    const auto &p2 = probes2[(NODE_PROBE[i % 6]) % probes2.size()];
    return w.properties(std::array<double,2>{{p2.x, p2.z}}, p2.depth, NODE_REQ[i % 6]);
  }
  struct SchedHarness
  {
    Config cf;
    std::string text, file;
    std::vector<worlds::Probe> probes;
    std::vector<worlds::Probe2> probes2;
    std::vector<std::vector<double>> seq, got;
    std::vector<int> completion;
    std::function<void()> body;
    explicit SchedHarness(const Config &c) : cf(c)
    {
      text = sched_world(cf.spherical, cf.world);
      file = write_world_file(text, "s");
      probes = worlds::lattice(cf.spherical);
      probes2 = worlds::lattice2(cf.spherical);
      seq.resize(static_cast<size_t>(cf.nodes));
      got.resize(static_cast<size_t>(cf.nodes));
      // the sequential answers: every node in a brand-new thread, so that nothing a thread keeps between two queries (thread-local scratch) can shape them
      WorldBuilder::World w(file, false, "", 1, true);
      for (int i = 0; i < cf.nodes; ++i)
        std::thread([&, i]() { seq[static_cast<size_t>(i)] = node_query(w, cf.spherical, probes, probes2, static_cast<size_t>(i), cf.world); }).join();
      body = [this]()
      {
        // a brand-new world for every execution: executions are independent and replayable
        WorldBuilder::World wx(file, false, "", 1, true);
        for (auto &g : got) g.clear();
        completion.clear();
        ThreadPool pool(static_cast<size_t>(cf.workers));
        pool.parallel_for(0, static_cast<size_t>(cf.nodes), [&](size_t i)
        {
          got[i] = node_query(wx, cf.spherical, probes, probes2, i, cf.world);
          completion.push_back(static_cast<int>(i));
        });
      };
    }
  };
  void install_hook() { WorldBuilder::Verif::yield_hook = [](int site) { sched::yield(site); }; }

  // the root (no deviation) trace of each configuration, computed once when the suites are built
  std::vector<Unit> make_units(const std::vector<Config> &cfgs)
  {
    std::vector<Unit> units;
    install_hook();
    for (size_t c = 0; c < cfgs.size(); ++c)
      {
        SchedHarness h(cfgs[c]);
        const sched::Trace root = sched::run(h.body, {});
        units.push_back({c, -1, 0});
        for (size_t i = 0; i < root.points.size(); ++i)
          {
            const int cost = root.points[i].running_enabled ? 1 : 0;
            if (cost > cfgs[c].bound) continue;
            for (int alt = 1; alt < static_cast<int>(root.points[i].enabled.size()); ++alt) units.push_back({c, static_cast<int>(i), alt});
          }
      }
    WorldBuilder::Verif::yield_hook = nullptr;
    return units;
  }

  void run_sched(const std::vector<Config> &cfgs, const std::vector<Unit> &units, uint64_t idx, Ctx &ctx)
  {
    static const int c_ex = Ctx::counter_id("schedules_executed"), c_pts = Ctx::counter_id("scheduling_points"), c_pre = Ctx::counter_id("schedules_with_preemption");
    const Unit &u = units[idx];
    const Config &cf = cfgs[u.cfg];
    SchedHarness h(cf);
    install_hook();
    sched::Stats st;
    std::set<std::vector<int>> orders;
    bool replay_checked = false;
    const double t_end = G().deadline;
    auto check = [&](const sched::Trace &x)
    {
      ctx.eval();
      orders.insert(h.completion);
      for (int i = 0; i < cf.nodes; ++i)
        if (!biteq(h.got[static_cast<size_t>(i)], h.seq[static_cast<size_t>(i)]))
          {
            ctx.violation("C14/schedule/result-differs-from-sequential", JObj().integer("workers", cf.workers).integer("nodes", cf.nodes).integer("node", i)
                          .raw("schedule_choices", jarr(x.choices())).raw("observed", jarr(h.got[static_cast<size_t>(i)])).raw("sequential", jarr(h.seq[static_cast<size_t>(i)]))
                          .raw("request", jreq(NODE_REQ[i % 6])).str("world", h.text).done());
            break;
          }
      if (!replay_checked)
        {
          // replay one recorded schedule per unit and demand identical observations
          replay_checked = true;
          const std::vector<std::vector<double>> g1 = h.got;
          const std::vector<int> c1 = h.completion;
          const sched::Trace y = sched::run(h.body, x.choices());
          if (y.choices() != x.choices() || h.completion != c1 || h.got != g1)
            ctx.violation("harness/schedule-replay-diverged", JObj().raw("schedule_choices", jarr(x.choices())).done());
        }
    };
    std::vector<int> start;
    if (u.point >= 0)
      {
        const sched::Trace root = sched::run(h.body, {});
        const std::vector<int> ch = root.choices();
        if (static_cast<size_t>(u.point) >= ch.size()) { ctx.violation("harness/root-schedule-changed", "{}"); return; }
        start.assign(ch.begin(), ch.begin() + u.point);
        start.push_back(u.alt);
      }
    sched::explore(h.body, cf.bound, check, st, [&]() { return now() > t_end; }, start, u.point >= 0);
    WorldBuilder::Verif::yield_hook = nullptr;
    ctx.count(c_ex, st.executions); ctx.count(c_pts, st.points); ctx.count(c_pre, st.preempting_executions);
    // states: observable outcome of an execution = completion order of the nodes (per configuration)
    for (auto &ord : orders) { uint64_t hh = fnv(ord.data(), ord.size()*sizeof(int)); hh = fnv(&u.cfg, sizeof u.cfg, hh); ctx.key("completion_orders", hh); }
    // a subtree that the global deadline cut short is not an alarm: it is recorded as not completed (evidence: exhaustive=false, cases_cut_by_deadline)
    if (now() > t_end) ctx.w->deadline_hit = ctx.w->deadline_hit + 1;
    if (st.preempting_executions > 0 || u.point >= 0) ctx.nontrivial();
    if (idx % 29 == 1)
      ctx.sample(JObj().str("suite", "sched").integer("workers", cf.workers).integer("nodes", cf.nodes).integer("preemption_bound", cf.bound).boolean("spherical", cf.spherical)
                 .raw("subtree_prefix", jarr(start)).integer("schedules_in_subtree", static_cast<long long>(st.executions)).integer("max_scheduling_points", static_cast<long long>(st.max_points)).done());
  }

  // chunks that close on themselves (used by the tsan and the jindep suites)
  const char *CLOSED_CHUNK_3D = "grid_type = chunk\ndim = 3\ncompositions = 3\nvtu_output_format = ASCII\nx_min = -180\nx_max = 180\ny_min = -4\ny_max = 4\nz_min = 5771e3\nz_max = 6371e3\nn_cell_x = 8\nn_cell_y = 2\nn_cell_z = 2\n";
  const char *CLOSED_CHUNK_2D = "grid_type = chunk\ndim = 2\ncompositions = 3\nvtu_output_format = ASCII\nx_min = -180\nx_max = 180\ny_min = 0\ny_max = 0\nz_min = 5771e3\nz_max = 6371e3\nn_cell_x = 12\nn_cell_z = 3\n";

  // ---------- (c) tsan ----------
  void run_tsan(bool thorough, uint64_t idx, Ctx &ctx)
  {
    static const int c_q = Ctx::counter_id("tsan_free_running_queries");
    const std::string log = G().rundir + "/tsan" + std::to_string(idx) + ".log";
    std::string cmd;
    if (idx == 0)
      cmd = "TSAN_OPTIONS='halt_on_error=0 report_signal_unsafe=0 exitcode=66' /verif/build/tsan/bin/C14_tsan " + G().rundir + " " + (thorough ? "16" : "8") + " 8 " + (thorough ? "1500" : "200");
    else if (idx < 8)
      {
        // the TSan build of the real tool on the repository's own grid set-ups, 4 threads
        // (the last two once more with the filter options, whose extra passes over the nodes and cells run after / inside the parallel loop)
        const char *g[] = {"2d_cartesian_plume", "3d_plume_tip", "fault", "subducting_plate_manual3", "composition_operations", "3d_plume_tip", "composition_operations"};
        const std::string base = g[idx-1];
        const std::string filter = idx >= 6 ? "--filtered --by-tag " : "";
        const std::string dir = G().rundir + "/tsangrid" + std::to_string(idx);
        cmd = "mkdir -p " + dir + " && cd " + dir + " && TSAN_OPTIONS='halt_on_error=0 exitcode=66' /verif/build/tsan/bin/gwb-grid -j 4 " + filter + "/repo/tests/gwb-grid/" + base + ".wb /repo/tests/gwb-grid/" + base + ".grid";
      }
    if (idx >= 8)
      {
        // ... and on the closed chunks of the -j comparison (rich spherical world)
        const std::string dir = G().rundir + "/tsangrid" + std::to_string(idx);
        (void)!system(("rm -rf " + dir + " && mkdir -p " + dir).c_str());
        worlds::Opt o; o.spherical = true; o.cross_section = true;
        { std::ofstream f(dir + "/w.wb"); f << worlds::rich(o); }
        { std::ofstream f(dir + "/g.grid"); f << (idx == 8 ? CLOSED_CHUNK_3D : CLOSED_CHUNK_2D); }
        cmd = "cd " + dir + " && TSAN_OPTIONS='halt_on_error=0 exitcode=66' /verif/build/tsan/bin/gwb-grid -j 4 w.wb g.grid";
      }
    const int rc = system((cmd + " > " + log + " 2>&1").c_str());
    const std::string out = read_tail(log, 200000);
    ctx.eval();
    const size_t qpos = out.find("queries=");
    if (qpos != std::string::npos) ctx.count(c_q, strtoull(out.c_str() + qpos + 8, nullptr, 10));
    if (out.find("WARNING: ThreadSanitizer") != std::string::npos)
      {
        // signature: first frame inside the library named by the first report
        std::string where = "unknown";
        const size_t p = out.find("#0 ");
        if (p != std::string::npos) { const size_t e = out.find('\n', p); where = out.substr(p + 3, std::min<size_t>(e - p - 3, 140)); }
        const size_t r0 = out.find("WARNING: ThreadSanitizer");
        ctx.violation("C14/tsan/data-race", JObj().str("first_frame", where).str("report", out.substr(r0, 3500)).str("command", cmd).done());
      }
    else if (out.find("VALUE-MISMATCH") != std::string::npos)
      ctx.violation("C14/free-running/value-differs-from-single-thread", JObj().str("output", out.substr(0, 1500)).done());
    else if (!(WIFEXITED(rc) && WEXITSTATUS(rc) == 0))
      ctx.violation("C14/tsan/run-failed", JObj().integer("rc", rc).str("output_tail", out.size() > 1500 ? out.substr(out.size()-1500) : out).str("command", cmd).done());
    ctx.nontrivial();
    ctx.sample(JObj().str("suite", "tsan").str("command", cmd).done());
  }

  // ---------- (d) -j independence of the real tool ----------
  struct Grid { const char *name; const char *text; bool spherical; int world = 0; };   // world 1: mass conserving slabs with splines of different sizes
  const int NGRIDS = 14;
  const Grid GRIDS[NGRIDS] =
  {
    {"c2_3x3", "grid_type = cartesian\ndim = 2\ncompositions = 3\nvtu_output_format = ASCII\nx_min = -450e3\nx_max = 350e3\nz_min = 400e3\nz_max = 1000e3\nn_cell_x = 3\nn_cell_z = 3\n", false},
    {"c2_1x1", "grid_type = cartesian\ndim = 2\ncompositions = 2\nvtu_output_format = ASCII\nx_min = 0\nx_max = 350e3\nz_min = 800e3\nz_max = 1000e3\nn_cell_x = 1\nn_cell_z = 1\n", false},
    {"c3_2x3x2", "grid_type = cartesian\ndim = 3\ncompositions = 4\nvtu_output_format = ASCII\nx_min = -450e3\nx_max = 450e3\ny_min = -300e3\ny_max = 300e3\nz_min = 500e3\nz_max = 1000e3\nn_cell_x = 2\nn_cell_y = 3\nn_cell_z = 2\n", false},
    {"c3_7x6x5", "grid_type = cartesian\ndim = 3\ncompositions = 4\nvtu_output_format = ASCII\nx_min = -450e3\nx_max = 450e3\ny_min = -300e3\ny_max = 300e3\nz_min = 500e3\nz_max = 1000e3\nn_cell_x = 7\nn_cell_y = 6\nn_cell_z = 5\n", false},
    {"chunk2", "grid_type = chunk\ndim = 2\ncompositions = 3\nvtu_output_format = ASCII\nx_min = -4\nx_max = 4\ny_min = 0\ny_max = 0\nz_min = 5771e3\nz_max = 6371e3\nn_cell_x = 5\nn_cell_z = 4\n", true},
    {"chunk3", "grid_type = chunk\ndim = 3\ncompositions = 3\nvtu_output_format = ASCII\nx_min = -4\nx_max = 4\ny_min = -3\ny_max = 3\nz_min = 5771e3\nz_max = 6371e3\nn_cell_x = 3\nn_cell_y = 3\nn_cell_z = 3\n", true},
    {"annulus", "grid_type = annulus\ndim = 2\ncompositions = 3\nvtu_output_format = ASCII\nx_min = -25\nx_max = 25\ny_min = -25\ny_max = 25\nz_min = 4371000\nz_max = 6371000\nn_cell_x = 3\nn_cell_y = 3\nn_cell_z = 3\n", true},
    {"sphere", "grid_type = sphere\ndim = 3\ncompositions = 2\nvtu_output_format = ASCII\nx_min = -25\nx_max = 25\ny_min = -25\ny_max = 25\nz_min = 4371000\nz_max = 6371000\nn_cell_x = 2\nn_cell_y = 2\nn_cell_z = 2\n", true},
    // more than 1024 nodes (a pool may treat short loops differently), and slabs whose thermal model keeps a workspace (two spline sizes in one world)
    {"c3_10x10x10", "grid_type = cartesian\ndim = 3\ncompositions = 2\nvtu_output_format = ASCII\nx_min = -450e3\nx_max = 450e3\ny_min = -300e3\ny_max = 300e3\nz_min = 500e3\nz_max = 1000e3\nn_cell_x = 10\nn_cell_y = 10\nn_cell_z = 10\n", false, 0},
    {"c3_splines_12x9x8", "grid_type = cartesian\ndim = 3\ncompositions = 2\nvtu_output_format = ASCII\nx_min = -480e3\nx_max = 420e3\ny_min = -350e3\ny_max = 460e3\nz_min = 650e3\nz_max = 1000e3\nn_cell_x = 12\nn_cell_y = 9\nn_cell_z = 8\n", false, 1},
    {"chunk3_fine_over_depth_surfaces", "grid_type = chunk\ndim = 3\ncompositions = 2\nvtu_output_format = ASCII\nx_min = 3.4\nx_max = 3.88\ny_min = -2.0\ny_max = -1.52\nz_min = 6241e3\nz_max = 6371e3\nn_cell_x = 12\nn_cell_y = 12\nn_cell_z = 65\n", true, 2},
    // chunks that close on themselves (360 degrees of longitude: the last plane of nodes coincides with the first one)
    {"chunk3_closed", CLOSED_CHUNK_3D, true, 0},
    {"chunk2_closed", CLOSED_CHUNK_2D, true, 0},
    {"c2_splines_40x12", "grid_type = cartesian\ndim = 2\ncompositions = 2\nvtu_output_format = ASCII\nx_min = 0\nx_max = 900e3\nz_min = 650e3\nz_max = 1000e3\nn_cell_x = 40\nn_cell_z = 12\n", false, 1},
  };
  std::string slurp(const std::string &p) { std::ifstream f(p, std::ios::binary); std::stringstream ss; ss << f.rdbuf(); return ss.str(); }
  std::map<std::string,std::string> run_grid(const Grid &g, int j, const std::string &dir, bool &ok, std::string &msg)
  {
    (void)!system(("rm -rf " + dir + " && mkdir -p " + dir).c_str());
    worlds::Opt o; o.spherical = g.spherical; o.cross_section = true;
    if (g.world == 1) { o.slab_model = 2; o.second_slab = true; }
    if (g.world == 2) o.depth_points = true;     // columns 0.04 degrees apart, nodes every 2 km, over the top of the mantle layer, which is given at points and slopes by 700 m from column to column there (the only such surface consulted on the oceanic side)
    { std::ofstream f(dir + "/w.wb"); f << worlds::rich(o); }
    { std::ofstream f(dir + "/g.grid"); f << g.text; }
    const std::string cmd = "cd " + dir + " && /verif/build/rel/bin/gwb-grid -j " + std::to_string(j) + " --filtered --by-tag w.wb g.grid > out.log 2>&1";
    const int rc = system(cmd.c_str());
    ok = WIFEXITED(rc) && WEXITSTATUS(rc) == 0;
    msg = ok ? "" : read_tail(dir + "/out.log", 600);
    std::map<std::string,std::string> files;
    FILE *p = popen(("cd " + dir + " && ls *.vtu 2>/dev/null").c_str(), "r");
    char buf[512];
    while (p && fgets(buf, sizeof buf, p)) { std::string n = buf; while (!n.empty() && (n.back() == '\n')) n.pop_back(); files[n] = slurp(dir + "/" + n); }
    if (p) pclose(p);
    return files;
  }
  void run_jindep(uint64_t idx, Ctx &ctx)
  {
    static const int c_files = Ctx::counter_id("vtu_files_compared");
    const Grid &g = GRIDS[idx / 40];
    const int j = static_cast<int>(idx % 40) + 1;
    const std::string base = G().rundir + "/j" + std::to_string(G().shard_id);
    bool ok1, okj; std::string m1, mj;
    const auto ref = run_grid(g, 1, base + "_ref", ok1, m1);
    const auto got = run_grid(g, j, base + "_j", okj, mj);
    ctx.eval();
    if (!ok1 || ref.empty()) { ctx.violation("harness/gwb-grid-j1-failed", JObj().str("grid", g.name).str("output", m1).done()); return; }
    if (!okj) { ctx.violation("C14/gwb-grid/run-fails-for-some-j", JObj().str("grid", g.name).integer("j", j).str("output", mj).done()); return; }
    std::string diff;
    for (auto &f : ref)
      {
        ctx.count(c_files);
        auto it = got.find(f.first);
        if (it == got.end()) diff += f.first + ": missing; ";
        else if (it->second != f.second)
          {
            size_t k = 0;
            while (k < f.second.size() && k < it->second.size() && f.second[k] == it->second[k]) ++k;
            diff += f.first + ": first difference at byte " + std::to_string(k) + "; ";
          }
      }
    for (auto &f : got) if (!ref.count(f.first)) diff += f.first + ": extra; ";
    if (!diff.empty())
      ctx.violation("C14/gwb-grid/output-depends-on-j", JObj().str("grid", g.name).str("grid_file", g.text).integer("j", j).str("differences", diff).done());
    if (j > 1) ctx.nontrivial();
    if (idx % 53 == 9) ctx.sample(JObj().str("suite", "jindep").str("grid", g.name).integer("j", j).integer("files", static_cast<long long>(ref.size())).done());
  }
}

int main(int argc, char **argv)
{
  Spec spec;
  spec.property = "C14";
  spec.level = "model_checking";
  spec.rule = "partition: every (n, thread count) pair in the stated range through the real ThreadPool::parallel_for; sched: for each harness configuration ALL schedules with at most k preemptions "
              "(iterative context bounding over the yield hooks in World::properties plus interposed pthread_create/join), every execution on a brand-new world, results compared bit-for-bit with "
              "the sequential answers, one recorded schedule replayed and required to reproduce; tsan: the same bodies free-running in the ThreadSanitizer build; jindep: the real gwb-grid for every "
              "-j in 1..40 on 12 grids, all output files byte-identical to -j 1. non-trivial: more than one thread / more than one observed completion order";
  spec.assumptions = {"scheduling points: pthread_create, pthread_join, thread exit and the three GWB_VERIF_YIELD sites of World::properties; code between two points runs atomically under the scheduler, "
                      "unsynchronised accesses inside such a stretch are the job of the free-running TSan pass", "sequential consistency (the scheduler serialises threads); weaker memory orderings are covered only by TSan's happens-before analysis",
                      "worlds without random models"
                     };
  spec.counters = {"parallel_for_calls", "schedules_executed", "scheduling_points", "schedules_with_preemption", "tsan_free_running_queries", "vtu_files_compared"};
  spec.quick_deadline_s = 400; spec.thorough_deadline_s = 1700;
  spec.finalize = [](const std::map<std::string,uint64_t> &c, const std::map<std::string,size_t> &k, JObj &cov)
  {
    cov.integer("states", k.count("completion_orders") ? static_cast<long long>(k.at("completion_orders")) : 0);
    cov.integer("transitions", static_cast<long long>(c.at("scheduling_points")));
    cov.integer("traces_validated_against_impl", static_cast<long long>(c.at("schedules_executed")));
    cov.str("states_meaning", "distinct observable outcomes (completion orders of the grid nodes) reached per configuration; transitions = scheduling decisions taken; every trace is an execution of the real code");
  };
  return driver(argc, argv, spec, [](const std::string &tier)
  {
    const bool th = tier == "thorough";
    std::vector<Suite> s;
    {
      Suite a; a.name = "partition"; a.n = static_cast<uint64_t>((th ? 2001 : 257) + 15) * 40; a.run = run_partition;
      a.bound = std::string("every n in 0..") + (th ? "2000" : "256") + " and 15 sizes around 1024, 2048, 4096 up to 10000 x every thread count 1..40, range starts 0 and 3";
      s.push_back(a);
    }
    {
      auto pc = std::make_shared<std::vector<PCfg>>();
      for (size_t T : {static_cast<size_t>(2), static_cast<size_t>(3), static_cast<size_t>(4)})
        for (size_t n : {static_cast<size_t>(0), static_cast<size_t>(1), static_cast<size_t>(2), static_cast<size_t>(3), static_cast<size_t>(7), static_cast<size_t>(1023), static_cast<size_t>(1025), static_cast<size_t>(2050), static_cast<size_t>(3100), static_cast<size_t>(5000)})
          pc->push_back({T, n, T == 2 ? (th ? 4 : 3) : T == 3 ? (th ? 3 : 2) : (th ? 2 : 1)});
      Suite a; a.name = "psched"; a.n = pc->size(); a.run = [pc](uint64_t i, Ctx &c) { run_psched(*pc, i, c); };
      a.watchdog_s = 600;
      a.bound = "the real ThreadPool::parallel_for with a counting body under the cooperative scheduler (scheduling points: thread create / join / exit, every mutex and std::atomic operation of the pool): threads {2,3,4} x n {0,1,2,3,7,1023,1025,2050,3100,5000}, "
                "all schedules with <= " + std::string(th ? "4/3/2" : "3/2/1") + " preemptions; every index visited exactly once in every schedule";
      s.push_back(a);
    }
    {
      auto cfgs = std::make_shared<std::vector<Config>>();
      if (!th) *cfgs = {{2, 2, 2, false}, {2, 3, 2, false}, {2, 4, 2, true}, {3, 3, 1, false}, {3, 4, 1, true}, {2, 2, 3, true}, {2, 4, 2, false, 1}, {2, 4, 2, true, 1}};
      else *cfgs = {{2, 2, 3, false}, {2, 3, 3, false}, {2, 4, 3, true}, {3, 3, 3, false}, {3, 4, 2, true}, {3, 6, 2, false}, {2, 2, 4, true}, {4, 4, 2, false}, {2, 6, 2, true}, {2, 4, 3, false, 1}, {2, 4, 3, true, 1}, {3, 6, 2, false, 1}};
      auto units = std::make_shared<std::vector<Unit>>(make_units(*cfgs));
      Suite a; a.name = "sched"; a.n = units->size(); a.run = [cfgs, units](uint64_t i, Ctx &c) { run_sched(*cfgs, *units, i, c); };
      a.watchdog_s = 1600;
      std::string b = "configurations (workers,nodes,preemption bound): ";
      for (auto &c : *cfgs) b += "(" + std::to_string(c.workers) + "," + std::to_string(c.nodes) + "," + std::to_string(c.bound) + ") ";
      a.bound = b + "- all schedules within the bound (one unit of work per first deviation from the default schedule); world with 3 overlapping features, 5 scheduling points per query";
      s.push_back(a);
    }
    {
      Suite a; a.name = "tsan"; a.n = 10; a.run = [th](uint64_t i, Ctx &c) { run_tsan(th, i, c); };
      a.watchdog_s = 900;
      a.bound = "TSan build: 8 threads x rounds on brand-new worlds (all feature types, 2-D and 3-D, repeated points) + TSan gwb-grid -j 4 on 5 repository grids, two of them also with --filtered --by-tag";
      s.push_back(a);
    }
    {
      Suite a; a.name = "jindep"; a.n = NGRIDS*40; a.run = run_jindep;
      a.bound = "12 grids (cartesian/chunk/annulus/sphere, 2-D/3-D, 4..1331 nodes; two on a world with mass conserving slabs using splines of different sizes) x every -j in 1..40, with --filtered --by-tag";
      s.push_back(a);
    }
    return s;
  });
}
