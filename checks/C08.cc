// VARIANTS: rel
// C08 - answers are invariant under rigid motions of world plus query.
// EXTRA: -fno-access-control
#include "kit.h"
#include "worlds.h"
#include "world_builder/features/continental_plate.h"
#include "world_builder/features/oceanic_plate.h"
#include "world_builder/features/mantle_layer.h"
using namespace kit;
using namespace wbgen;
using WorldBuilder::World;

namespace
{
  const Request REQ = {{{1,0,0}},{{2,0,0}},{{2,1,0}},{{2,2,0}},{{2,3,0}},{{4,0,0}},{{3,0,1}},{{3,1,2}}};
  // slots: T=0, c0..c3=1..4, tag=5, grains(0,1)=6..15, grains(1,2)=16..35
  const size_t N_OUT = 36;

  struct Motion { double angle_deg = 0, tx = 0, ty = 0; bool exact = false; std::string name; };

  std::vector<Motion> cartesian_motions(bool thorough)
  {
    std::vector<Motion> m;
    std::vector<double> angles = {0, 90, 180, 270, 30, 45, 123.456};
    if (thorough)
      {
        // every 15 degrees plus a few irrational-looking and near-degenerate ones
        angles = {0, 90, 180, 270};
        for (int a = 15; a < 360; a += 15) if (a % 90 != 0) angles.push_back(a);
        for (double a : {123.456, -60.0, 1e-3, 359.5, 89.999, 0.5, 271.3, 33.3333}) angles.push_back(a);
      }
    const std::vector<std::array<double,2>> tr = thorough
                                                 ? std::vector<std::array<double,2>>{{{0,0}},{{1e5,0}},{{-1e5,0}},{{0,1e5}},{{0,-1e5}},{{1e7,0}},{{-1e7,1e7}},{{0,-1e7}},{{12345.678,-98765.4321}},{{3e5,-7e5}},{{-1e7,-1e7}},{{5e6,2.5e6}},
                                                                                     {{0.5e5,0.5e5}},{{-3.5e5,2e5}},{{1e8,-1e8}},{{-7.77e6,3.33e6}},{{1e3,1e3}},{{-2.5e5,-2.5e5}}}
                                                 : std::vector<std::array<double,2>>{{{0,0}},{{1e5,0}},{{0,-1e5}},{{1e7,0}},{{-1e7,1e7}},{{12345.678,-98765.4321}},{{3e5,-7e5}}};
    for (double a : angles) for (auto &t : tr)
        {
          if (a == 0 && t[0] == 0 && t[1] == 0) continue;
          Motion q;
          q.angle_deg = a; q.tx = t[0]; q.ty = t[1];
          const bool quarter = (a == 0 || a == 90 || a == 180 || a == 270);
          const bool lattice_t = std::fmod(t[0], 0.5e5) == 0 && std::fmod(t[1], 0.5e5) == 0;
          q.exact = quarter && lattice_t;
          char b[120]; snprintf(b, sizeof b, "rotate %g deg, translate (%g, %g)", a, t[0], t[1]);
          q.name = b;
          m.push_back(q);
        }
    return m;
  }
  P2 apply(const Motion &m, const P2 &p)
  {
    double c, s;
    if (m.angle_deg == 0) { c = 1; s = 0; }
    else if (m.angle_deg == 90) { c = 0; s = 1; }
    else if (m.angle_deg == 180) { c = -1; s = 0; }
    else if (m.angle_deg == 270) { c = 0; s = -1; }
    else { c = std::cos(m.angle_deg * PI / 180.0); s = std::sin(m.angle_deg * PI / 180.0); }
    return {{c*p[0] - s*p[1] + m.tx, s*p[0] + c*p[1] + m.ty}};
  }

  const int N_BASES = 8;
  worlds::Opt base_opt(int b, bool spherical)
  {
    worlds::Opt o;
    o.spherical = spherical;
    if (b == 1) o.variant = 1;
    if (b == 2) o.depth_points = true;
    if (b == 3) o.force_surface = true;
    if (b == 4) o.area_only = true;
    if (b == 5) o.multi_ridge = true;
    if (b == 6) { o.area_only = true; o.long_traces = true; }
    if (b == 7) { o.area_only = true; o.many_depth_points = true; }
    return o;
  }
  const char *BASE_NAMES[] = {"rich world", "rich world, other constants and geometry", "rich world with depth surfaces given at points", "rich world with forced surface temperature", "area features only", "rich world whose oceanic plate has two oblique ridge segments with a transform fault and spreading velocities varying along them",
                              "area features with three small faults and a small slab on long traces running along x, along y and diagonally", "area features whose depth surfaces (continental and oceanic max depth, mantle layer min depth) are given at 30 points each in general position"
                             };

  struct ProbePt { double x, y, depth; bool boundary; };
  std::vector<ProbePt> probes(bool spherical, bool area_only, bool long_traces = false, bool many_depth_points = false)
  {
    std::vector<ProbePt> v;
    for (auto &q : worlds::lattice(spherical)) v.push_back({q.x, q.y, q.depth, false});
    const double s = spherical ? 1.0 : 1e5;
    // more points around the curved trench, the fault and the plume
    for (double x : {0.75, 1.0, 1.2, 1.75, 2.25, 3.0, -3.5, -2.5, -1.5, -2.2})
      for (double y : {-3.5, -2.0, 0.0, 1.0, 2.2, 3.5, -1.25})
        for (double d : {1e4, 5e4, 1.5e5, 2e5, 3e5})
          v.push_back({x*s, y*s, d, false});
    if (!area_only)
      // a dense patch over the plume between its cross sections: the orientation of its elliptical section is interpolated there (0.3 -> 0.9 -> 0.8 eccentricity in the second base world)
      for (double x = -3.7; x < -0.6; x += 0.2) for (double y = 1.0; y < 3.7; y += 0.2)
          for (double d : {1.3e5, 1.7e5, 2.3e5, 2.7e5, 3.3e5, 3.7e5})
            v.push_back({x*s, y*s, d, false});
    if (long_traces)
      {
        // along the four traces (straight between the coordinates; the curve through them stays within the half thickness), shallow enough to be inside
        const std::vector<std::vector<P2>> traces = {{{{-4,-4}},{{0,-3.2}},{{4,-4.2}}}, {{{-4.5,4}},{{-4.3,0}},{{-4.5,-2.5}}}, {{{1,4.5}},{{4.5,1}}}, {{{4.2,-2}},{{4.4,1}},{{4.2,3.5}}}};
        for (auto &tr : traces) for (size_t i = 0; i + 1 < tr.size(); ++i) for (double t = 0.04; t < 1.0; t += 0.0613)
              for (double d : {2e3, 8e3})
                v.push_back({(tr[i][0] + t*(tr[i+1][0]-tr[i][0]))*s, (tr[i][1] + t*(tr[i+1][1]-tr[i][1]))*s, d, false});
      }
    if (many_depth_points)
      for (double x = -4.75; x < 5; x += 0.5) for (double y = -4.75; y < 5; y += 0.5)
          for (double d : {0.62e5, 0.74e5, 0.86e5, 0.97e5, 1.08e5, 1.18e5, 1.29e5, 1.37e5, 1.52e5, 1.71e5, 1.88e5, 2.1e5})
            v.push_back({x*s, y*s, d, false});
    if (area_only && !many_depth_points)
      // points exactly on polygon edges and corners (and on the depth limits): exact motions must preserve them
      for (double x : {-5.0, 0.0, 5.0, -2.5, 2.5}) for (double y : {-5.0, 0.0, 5.0, 1.0})
          for (double d : {0.0, 1e5, 1.5e5, 4e5, 0.5e5})
            v.push_back({x*s, y*s, d, true});
    return v;
  }

  struct BaseData { std::string threw; std::string text; std::vector<std::vector<double>> ans; std::vector<char> robust; std::vector<std::vector<double>> ans2; std::vector<char> robust2; };

  bool same_class(const std::vector<double> &a, const std::vector<double> &b)
  {
    for (size_t k = 1; k <= 5; ++k) if (a[k] != b[k]) return false;
    // the grains as well (a layer covered by a plate still shows in the grains of its own composition); within a slab or fault the rotation matrices vary in the last bits
    for (size_t k = 6; k < a.size() && k < b.size(); ++k) if (!(std::fabs(a[k] - b[k]) <= 1e-9)) return false;
    // a jump of the temperature (e.g. across the prolongation of a transform fault between two ridge segments) is a boundary as well
    if (!(std::fabs(a[0] - b[0]) <= 1e-4 * std::max(1.0, std::fabs(a[0])))) return false;
    return true;
  }

  const BaseData &base_data(int b, bool spherical)
  {
    static std::map<int, BaseData> cache;
    const int key = b * 2 + (spherical ? 1 : 0);
    auto it = cache.find(key);
    if (it != cache.end()) return it->second;
    BaseData d;
    const worlds::Opt o = base_opt(b, spherical);
    d.text = worlds::rich(o);
    auto w = make_world(d.text, 1, "base");
    const auto pr = probes(spherical, o.area_only, o.long_traces, o.many_depth_points);
    try
      {
    const double delta_h = spherical ? 1e-6 : 0.1, delta_v = 0.1;   // degrees / metres
    for (auto &q : pr)
      {
        const wbgen::P3 p = query_point(spherical, q.x, q.y, q.depth);
        d.ans.push_back(w->properties(p, q.depth, REQ));
        bool rob = true;
        for (int k = 0; k < 6 && rob; ++k)
          {
            const double dx = k == 0 ? delta_h : k == 1 ? -delta_h : 0, dy = k == 2 ? delta_h : k == 3 ? -delta_h : 0, dd = k == 4 ? delta_v : k == 5 ? -delta_v : 0;
            const double depth = q.depth + dd;
            rob = same_class(d.ans.back(), w->properties(query_point(spherical, q.x + dx, q.y + dy, depth), depth, REQ));
          }
        // small temperature jumps exactly at the probe (e.g. on the prolongation of a transform fault where both ridge segments give
        // nearly the same age): neighbours at one hundredth of the distance must agree to 1e-7 relative
        for (int k = 0; k < 4 && rob; ++k)
          {
            const double dx = k == 0 ? delta_h*0.01 : k == 1 ? -delta_h*0.01 : 0, dy = k == 2 ? delta_h*0.01 : k == 3 ? -delta_h*0.01 : 0;
            const double Tn = w->properties(query_point(spherical, q.x + dx, q.y + dy, q.depth), q.depth, {{{1,0,0}}})[0];
            rob = std::fabs(Tn - d.ans.back()[0]) <= 1e-7 * std::max(1.0, std::fabs(d.ans.back()[0]));
          }
        d.robust.push_back(rob);
      }
    for (auto &q : worlds::lattice2(spherical))
      {
        d.ans2.push_back(w->properties(std::array<double,2>{{q.x, q.z}}, q.depth, REQ));
        bool rob = true;
        const double dh = spherical ? 1e-8 * R_EARTH : 0.1;
        for (int k = 0; k < 4 && rob; ++k)
          {
            // neighbours along the section (and in depth): x -> x +- dh (cartesian), rotation by +-1e-8 rad (spherical)
            double x = q.x, z = q.z, depth = q.depth;
            if (k < 2)
              {
                const double sgn = k == 0 ? 1 : -1;
                if (!spherical) x += sgn * dh;
                else { const double a = sgn * 1e-8; const double nx = x*std::cos(a) - z*std::sin(a), nz = x*std::sin(a) + z*std::cos(a); x = nx; z = nz; }
              }
            else depth += (k == 2 ? 0.1 : -0.1);
            if (k >= 2)
              {
                if (!spherical) z -= (k == 2 ? 0.1 : -0.1);
                else { const double r = std::sqrt(x*x + z*z), f = (r - (k == 2 ? 0.1 : -0.1)) / r; x *= f; z *= f; }
              }
            rob = same_class(d.ans2.back(), w->properties(std::array<double,2>{{x, z}}, depth, REQ));
          }
        d.robust2.push_back(rob);
      }
      }
    catch (const std::exception &e) { d.threw = std::string(e.what()).substr(0, 600); }
    return cache.emplace(key, d).first->second;
  }

  struct Tally { uint64_t compared = 0, skipped = 0, exact = 0; double max_dT = 0; };

  // compares one answer of the moved world with the base answer
  void compare(const std::vector<double> &got, const std::vector<double> &want, bool exact_required, const std::string &sigbase0, const std::function<std::string()> &detail, Ctx &ctx, Tally &t,
               const std::function<std::string(int, int)> &classify = nullptr)
  {
    const std::string sigbase = sigbase0 + (classify && got.size() == want.size() ? classify(static_cast<int>(want[5]), static_cast<int>(got[5])) : std::string());
    if (got.size() != want.size()) { ctx.violation(sigbase + "/output-size", detail()); return; }
    ++t.compared;
    if (exact_required) ++t.exact;
    // tag and compositions: equal (compositions of distance-based models within 1e-9)
    static const char *TAGS[] = {"background", "mantle-layer", "continental-plate", "oceanic-plate", "plume", "subducting-plate", "fault"};
    auto tn = [&](double t) { const int i = static_cast<int>(t) + 1; return std::string(i >= 0 && i < 7 ? TAGS[i] : "other"); };
    if (got[5] != want[5]) { ctx.violation(sigbase + "/tag/" + tn(want[5]) + "-becomes-" + tn(got[5]), detail()); return; }
    for (size_t k = 1; k <= 4; ++k)
      if (!(std::fabs(got[k] - want[k]) <= (exact_required ? 0.0 : 1e-7))) { ctx.violation(sigbase + "/composition/in-" + tn(want[5]), detail()); return; }
    const double dT = std::fabs(got[0] - want[0]);
    t.max_dT = std::max(t.max_dT, dT / std::max(1.0, std::fabs(want[0])));
    if (!(dT <= 1e-6 * std::max(1.0, std::fabs(want[0])))) { ctx.violation(sigbase + "/temperature/in-" + tn(want[5]) + (dT > 1e-3 * std::max(1.0, std::fabs(want[0])) ? "/more-than-1e-3-relative" : "/below-1e-3-relative"), detail()); return; }
    for (size_t k = 6; k < N_OUT; ++k)
      if (!(std::fabs(got[k] - want[k]) <= 1e-9)) { ctx.violation(sigbase + "/grains/in-" + tn(want[5]), detail()); return; }
  }

  // Depth surfaces of the moved world: is a triangulation incomplete (sum of its triangle areas smaller than the feature's polygon), and if so, are the
  // nodes degenerate up to rounding (three of them collinear / four cocircular within 1e-12 relative)? delaunator-cpp, which the library uses, has
  // non-robust predicates and is known to give up in that situation (known finding); an incomplete triangulation of nodes in general position is not known.
  std::string surface_defect(WorldBuilder::World &w)
  {
    using namespace WorldBuilder;
    std::string worst;
    auto scan = [&](const std::vector<Point<2>> &poly, const Objects::Surface &s)
    {
      if (s.constant_value || s.triangles.empty()) return;
      long double pa = 0;
      for (size_t i = 0; i < poly.size(); ++i) { const auto &a = poly[i], &b = poly[(i+1)%poly.size()]; pa += static_cast<long double>(a[0])*b[1] - static_cast<long double>(b[0])*a[1]; }
      pa = fabsl(pa) / 2;
      long double ta = 0;
      std::vector<std::array<double,2>> nodes;
      for (auto &q : poly) nodes.push_back({{q[0], q[1]}});
      for (auto &t : s.triangles)
        {
          ta += fabsl((static_cast<long double>(t[1][0])-t[0][0])*(static_cast<long double>(t[2][1])-t[0][1]) - (static_cast<long double>(t[2][0])-t[0][0])*(static_cast<long double>(t[1][1])-t[0][1])) / 2;
          for (int k = 0; k < 3; ++k) { const std::array<double,2> n = {{t[k][0], t[k][1]}}; if (std::find(nodes.begin(), nodes.end(), n) == nodes.end()) nodes.push_back(n); }
        }
      if (!(ta < pa * (1 - 1e-9L))) return;
      std::string cause = "nodes-in-general-position";
      const size_t n = nodes.size();
      bool cocircular = false, collinear = false;
      for (size_t a = 0; a < n; ++a) for (size_t b = a+1; b < n; ++b) for (size_t c = b+1; c < n; ++c)
            {
              const long double ux = static_cast<long double>(nodes[b][0])-nodes[a][0], uy = static_cast<long double>(nodes[b][1])-nodes[a][1], vx = static_cast<long double>(nodes[c][0])-nodes[a][0], vy = static_cast<long double>(nodes[c][1])-nodes[a][1];
              const long double cr = fabsl(ux*vy - uy*vx), sc = std::max(ux*ux+uy*uy, vx*vx+vy*vy);
              if (cr <= 1e-12L * sc) collinear = true;
              for (size_t d = c+1; d < n && !collinear; ++d)
                {
                  // in-circle determinant of d relative to the circle through a, b, c (coordinates relative to d)
                  const long double ax = static_cast<long double>(nodes[a][0])-nodes[d][0], ay = static_cast<long double>(nodes[a][1])-nodes[d][1], bx = static_cast<long double>(nodes[b][0])-nodes[d][0], by = static_cast<long double>(nodes[b][1])-nodes[d][1],
                                    cx = static_cast<long double>(nodes[c][0])-nodes[d][0], cy = static_cast<long double>(nodes[c][1])-nodes[d][1];
                  const long double det = (ax*ax+ay*ay)*(bx*cy-by*cx) - (bx*bx+by*by)*(ax*cy-ay*cx) + (cx*cx+cy*cy)*(ax*by-ay*bx);
                  const long double m = std::max(std::max(ax*ax+ay*ay, bx*bx+by*by), cx*cx+cy*cy);
                  if (fabsl(det) <= 1e-12L * m * m) cocircular = true;
                }
            }
      if (collinear) cause = "three-nodes-collinear-up-to-rounding";
      else if (cocircular) cause = "four-nodes-cocircular-up-to-rounding";
      if (worst.empty() || cause == "nodes-in-general-position") worst = cause;
    };
    for (auto &f : w.parameters.features)
      {
        if (auto *p = dynamic_cast<Features::ContinentalPlate *>(f.get())) { scan(p->coordinates, p->min_depth_surface); scan(p->coordinates, p->max_depth_surface); }
        if (auto *p = dynamic_cast<Features::OceanicPlate *>(f.get())) { scan(p->coordinates, p->min_depth_surface); scan(p->coordinates, p->max_depth_surface); }
        if (auto *p = dynamic_cast<Features::MantleLayer *>(f.get())) { scan(p->coordinates, p->min_depth_surface); scan(p->coordinates, p->max_depth_surface); }
      }
    return worst.empty() ? std::string() : "/moved-world-has-an-incomplete-depth-surface-triangulation/" + worst;
  }

  void run_cartesian(const std::vector<Motion> &motions, uint64_t idx, Ctx &ctx)
  {
    static const int c_cmp = Ctx::counter_id("answers_compared"), c_skip = Ctx::counter_id("skipped_near_boundary"), c_exact = Ctx::counter_id("exact_comparisons_incl_boundary_points"), c_2d = Ctx::counter_id("answers_compared_2d");
    const int b = static_cast<int>(idx % N_BASES);
    const Motion &m = motions[idx / N_BASES];
    if (!base_data(b, false).threw.empty())
      { ctx.violation("C08/cartesian/query-on-the-unmoved-world-throws", JObj().str("what", base_data(b, false).threw).str("base", BASE_NAMES[b]).str("world", base_data(b, false).text).done()); return; }
    const BaseData &base = base_data(b, false);
    worlds::Opt o = base_opt(b, false);
    o.map = [&m](const P2 &p) { return apply(m, p); };
    o.plume_azimuth_shift = -m.angle_deg;   // azimuths are clockwise from north: a counter-clockwise turn of the world lowers them
    const std::string text = worlds::rich(o);
    auto w = make_world(text);
    const auto pr = probes(false, o.area_only, o.long_traces, o.many_depth_points);
    Tally t;
    // class of a query that throws on the moved world: which lookup gave up; every signature of this case also says whether a depth surface of the
    // moved world came out incompletely triangulated and whether its nodes are degenerate up to rounding (see surface_defect)
    auto throw_class = [&](const std::string &what)
    {
      std::string c;
      if (what.find("not in any triangle") != std::string::npos) c += "/depth-surface-lookup-finds-no-triangle";
      return c;
    };
    static const int c_defect = Ctx::counter_id("moved_worlds_with_an_incomplete_depth_surface_triangulation");
    const std::string defect = surface_defect(*w);
    if (!defect.empty()) ctx.count(c_defect);
    const std::string CART = "C08/cartesian" + defect;
    for (size_t i = 0; i < pr.size(); ++i)
      {
        const bool exact = m.exact && o.area_only;
        if (!base.robust[i] && !exact) { ++t.skipped; continue; }
        const P2 q = apply(m, {{pr[i].x, pr[i].y}});
        const wbgen::P3 p = {{q[0], q[1], CART_TOP - pr[i].depth}};
        std::vector<double> got;
        try { got = w->properties(p, pr[i].depth, REQ); }
        catch (const std::exception &e)
          {
            ctx.violation(CART + "/query-on-moved-world-throws" + throw_class(e.what()), JObj().str("what", std::string(e.what()).substr(0, 500)).str("motion", m.name).str("base", BASE_NAMES[b]).raw("moved_point", jarr(p)).num("depth", pr[i].depth).str("moved_world", text).done());
            continue;
          }
        ctx.eval();
        const bool exact_cmp = exact && !base.robust[i];
        compare(got, base.ans[i], exact_cmp, CART + "/" + (exact_cmp ? "exact-motion-boundary-point" : "3d"), [&]()
        {
          return JObj().str("motion", m.name).str("base", BASE_NAMES[b]).raw("base_point", jarr(query_point(false, pr[i].x, pr[i].y, pr[i].depth))).raw("moved_point", jarr(p)).num("depth", pr[i].depth)
                 .raw("base_answer", jarr(base.ans[i])).raw("moved_answer", jarr(got)).raw("request", jreq(REQ)).str("moved_world", text).str("base_world", base.text).done();
        }, ctx, t);
      }
    // the cross section moves with the world: 2-D queries keep their answers
    const auto pr2 = worlds::lattice2(false);
    uint64_t n2 = 0;
    for (size_t i = 0; i < pr2.size(); ++i)
      {
        if (!base.robust2[i]) { ++t.skipped; continue; }
        const std::array<double,2> q = {{pr2[i].x, pr2[i].z}};
        std::vector<double> got;
        try { got = w->properties(q, pr2[i].depth, REQ); }
        catch (const std::exception &e)
          {
            ctx.violation(CART + "/2d-query-on-moved-world-throws" + throw_class(e.what()), JObj().str("what", std::string(e.what()).substr(0, 500)).str("motion", m.name).str("base", BASE_NAMES[b]).raw("point_2d", jarr(q)).num("depth", pr2[i].depth).str("moved_world", text).done());
            continue;
          }
        ctx.eval();
        ++n2;
        compare(got, base.ans2[i], false, CART + "/2d", [&]()
        {
          return JObj().str("motion", m.name).str("base", BASE_NAMES[b]).raw("point_2d", jarr(q)).num("depth", pr2[i].depth).raw("base_answer", jarr(base.ans2[i])).raw("moved_answer", jarr(got))
                 .raw("request", jreq(REQ)).str("moved_world", text).str("base_world", base.text).done();
        }, ctx, t);
      }
    ctx.count(c_cmp, t.compared); ctx.count(c_skip, t.skipped); ctx.count(c_exact, t.exact); ctx.count(c_2d, n2);
    if (t.compared > 50) ctx.nontrivial();
    if (idx % 97 == 11) ctx.sample(JObj().str("motion", m.name).str("base", BASE_NAMES[b]).integer("compared", static_cast<long long>(t.compared)).integer("skipped_near_boundary", static_cast<long long>(t.skipped)).num("max_relative_temperature_difference", t.max_dT).done());
  }

  // spherical: common longitude offset; query longitudes L and L +- 360
  std::vector<double> offsets(bool thorough)
  {
    if (thorough)
      {
        // every 7.5 degrees over the admissible range (the dip point of the slab sits 20 units east of the world: |offset| <= 339), finer around +-180
        std::vector<double> o;
        for (double a = -337.5; a <= 337.5; a += 7.5) if (a != 0) o.push_back(a);
        for (double a : {174.5, 176.0, 178.0, 179.5, 181.5, 183.0, 185.0, -174.5, -176.0, -178.0, -179.5, -181.5, -183.0, -185.0, 339.0, -339.0, 0.5, -0.5}) o.push_back(a);
        return o;
      }
    return {10, -10, 90, -90, 170, 175, 178, 180, 185, -175, -180, 300, -300, 339, -339};
  }

  void run_spherical(const std::vector<double> &offs, uint64_t idx, Ctx &ctx)
  {
    static const int c_cmp = Ctx::counter_id("answers_compared"), c_skip = Ctx::counter_id("skipped_near_boundary"), c_alias = Ctx::counter_id("longitude_alias_queries"), c_2d = Ctx::counter_id("answers_compared_2d");
    const int b = static_cast<int>(idx % N_BASES);
    const size_t io = idx / N_BASES;
    // io == offs.size(): offset 0 (the base world itself), queried through longitude aliases only
    const double off = io < offs.size() ? offs[io] : 0.0;
    const BaseData &base = base_data(b, true);
    if (!base.threw.empty())
      { ctx.violation("C08/spherical/query-on-the-unmoved-world-throws", JObj().str("what", base.threw).str("base", BASE_NAMES[b]).str("world", base.text).done()); return; }
    worlds::Opt o = base_opt(b, true);
    o.shift = off;
    const std::string text = worlds::rich(o);
    auto w = make_world(text);
    const auto pr = probes(true, o.area_only, o.long_traces, o.many_depth_points);
    Tally t;
    uint64_t aliases = 0;
    // is the trench of the slab (tag 4) / fault (tag 5) written with longitudes outside (-180,180]?
    const double vs = (o.variant == 1 ? 0.5 : 0.0) + off;
    auto outside = [](double lon) { return !(lon > -180.0 && lon <= 180.0); };
    const bool slab_out = o.long_traces ? (outside(4.2 + vs) || outside(4.4 + vs)) : (outside(1 + vs) || outside(1.2 + vs));
    const bool fault_out = o.long_traces ? (outside(-4.5 + vs) || outside(4.5 + vs)) : (outside(-4 + vs) || outside(-1 + vs));
    const std::function<std::string(int, int)> classify = [=](int want_tag, int got_tag)
    {
      if (((want_tag == 4 || got_tag == 4) && slab_out) || ((want_tag == 5 || got_tag == 5) && fault_out)) return std::string("/trench-longitudes-outside-(-180,180]");
      return std::string("/all-involved-longitudes-within-(-180,180]");
    };
    for (size_t i = 0; i < pr.size(); ++i)
      {
        if (!base.robust[i]) { ++t.skipped; continue; }
        for (int alias : {0, 1, -1})
          {
            const double lon = pr[i].x + off + 360.0 * alias;
            if (io == offs.size() && alias == 0) continue;
            const wbgen::P3 p = sph(lon, pr[i].y, R_EARTH - pr[i].depth);
            std::vector<double> got;
            try { got = w->properties(p, pr[i].depth, REQ); }
            catch (const std::exception &e)
              {
                ctx.violation("C08/spherical/query-on-moved-world-throws", JObj().str("what", std::string(e.what()).substr(0, 500)).num("longitude_offset", off).str("base", BASE_NAMES[b]).raw("moved_point", jarr(p)).num("depth", pr[i].depth).str("moved_world", text).done());
                continue;
              }
            ctx.eval();
            if (alias) ++aliases;
            compare(got, base.ans[i], false, std::string("C08/spherical/") + (alias ? "longitude-alias" : "3d"), [&]()
            {
              return JObj().num("longitude_offset", off).integer("query_alias_times_360", alias).str("base", BASE_NAMES[b]).num("base_longitude", pr[i].x).num("latitude", pr[i].y).num("depth", pr[i].depth)
                     .raw("moved_point", jarr(p)).raw("base_answer", jarr(base.ans[i])).raw("moved_answer", jarr(got)).raw("request", jreq(REQ)).str("moved_world", text).str("base_world", base.text).done();
            }, ctx, t, classify);
          }
      }
    const auto pr2 = worlds::lattice2(true);
    uint64_t n2 = 0;
    for (size_t i = 0; i < pr2.size(); ++i)
      {
        if (!base.robust2[i]) { ++t.skipped; continue; }
        const std::array<double,2> q = {{pr2[i].x, pr2[i].z}};
        const std::vector<double> got = w->properties(q, pr2[i].depth, REQ);
        ctx.eval();
        ++n2;
        compare(got, base.ans2[i], false, "C08/spherical/2d", [&]()
        {
          return JObj().num("longitude_offset", off).str("base", BASE_NAMES[b]).raw("point_2d", jarr(q)).num("depth", pr2[i].depth).raw("base_answer", jarr(base.ans2[i])).raw("moved_answer", jarr(got))
                 .raw("request", jreq(REQ)).str("moved_world", text).str("base_world", base.text).done();
        }, ctx, t, classify);
      }
    ctx.count(c_cmp, t.compared); ctx.count(c_skip, t.skipped); ctx.count(c_alias, aliases); ctx.count(c_2d, n2);
    if (t.compared > 50) ctx.nontrivial();
    if (idx % 23 == 5) ctx.sample(JObj().num("longitude_offset", off).str("base", BASE_NAMES[b]).integer("compared", static_cast<long long>(t.compared)).integer("skipped_near_boundary", static_cast<long long>(t.skipped)).num("max_relative_temperature_difference", t.max_dT).done());
  }
}

int main(int argc, char **argv)
{
  Spec spec;
  spec.property = "C08";
  spec.level = "exploration";
  spec.rule = "full product of base worlds (6: all feature and model types, curved trench, ridge, cross section, depth surfaces at points, forced surface temperature, area features only, two-segment ridge with varying spreading velocity) x rigid motions "
              "(cartesian: rotation angle x translation, incl. exact quarter turns and lattice translations; spherical: common longitude offsets incl. ones that carry features across +-180, plus query longitudes L, L+360, L-360); "
              "every coordinate of the file (feature coordinates, dip points, ridge coordinates, depth-surface points, cross section; plume azimuths for rotations) is moved and every probe is queried at the moved point; "
              "non-trivial: more than 50 answers compared for the (base, motion) pair";
  spec.assumptions = {"'up to rounding': tag equal, compositions within 1e-7, temperature within 1e-6 relative, grains within 1e-9, at robust points (the 6 neighbours at 0.1 m / 1e-6 degree have the same tag and compositions and a temperature within 1e-4 relative in the base world); other points are counted as skipped",
                      "exact motions (quarter turns, translations by multiples of half a lattice unit) of the area-feature world must reproduce tag and compositions exactly at points ON polygon edges, corners and depth limits as well",
                      "velocities are not compared (vectors are not invariant under rotation and the property does not list them)"
                     };
  spec.counters = {"answers_compared", "skipped_near_boundary", "exact_comparisons_incl_boundary_points", "longitude_alias_queries", "answers_compared_2d", "moved_worlds_with_an_incomplete_depth_surface_triangulation"};
  spec.quick_deadline_s = 240;
  spec.thorough_deadline_s = 1200;
  return driver(argc, argv, spec, [](const std::string &tier)
  {
    const bool th = tier == "thorough";
    static std::vector<Motion> motions;
    static std::vector<double> offs;
    motions = cartesian_motions(th);
    offs = offsets(th);
    std::vector<Suite> s(2);
    s[0].name = "cartesian";
    s[0].n = motions.size() * N_BASES;
    s[0].run = [](uint64_t i, Ctx &c) { run_cartesian(motions, i, c); };
    s[0].bound = std::to_string(motions.size()) + " motions (" + (th ? "32 angles x 18 translations" : "7 angles x 7 translations") + " minus identity) x 8 base worlds x " + std::to_string(probes(false, false).size()) + "+ 3-D probes and 54 2-D probes";
    s[1].name = "spherical";
    s[1].n = (offs.size() + 1) * N_BASES;
    s[1].run = [](uint64_t i, Ctx &c) { run_spherical(offs, i, c); };
    s[1].bound = std::to_string(offs.size()) + " longitude offsets (+ offset 0 with aliases only) x 6 base worlds x probes x query longitude aliases {L, L+360, L-360}";
    return s;
  });
}
