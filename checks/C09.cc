// VARIANTS: rel
// C09 - the 2-D cross-section interface equals the 3-D interface along the section.
#include "kit.h"
#include "worlds.h"
using namespace kit;
using namespace wbgen;
using WorldBuilder::World;

namespace
{
  const std::vector<std::array<unsigned,3>> ATOMS = {{{1,0,0}},{{2,0,0}},{{2,1,0}},{{3,0,1}},{{3,0,3}},{{3,1,2}},{{4,0,0}},{{5,0,0}}};
  size_t atom_size(const std::array<unsigned,3> &a) { return a[0] == 3 ? 10*a[2] : a[0] == 5 ? 3 : 1; }
  const char *ATOMN[] = {"temperature","composition","composition","grains","grains","grains","tag","velocity"};
  // origins (lattice units) and directions
  const P2 ORIG[] = {{{-4.5,-3.5}}, {{0,0}}, {{-2,3}}, {{3,-1}}, {{-4,2}}};
  // (the last two: second point 340 resp. 200 units of x away - in spherical worlds more than half a turn of longitude; the section still runs the way it is written)
  const P2 DIR[] = {{{1,0}}, {{0,1}}, {{-1,0}}, {{3,4}}, {{-5,12}}, {{1,1}}, {{4,-3}}, {{136,8}}, {{-80,-12}}};
  const size_t NORIG = 5, NDIR = 9;

  std::vector<Request> requests()
  {
    std::vector<Request> r;
    for (auto &a : ATOMS) r.push_back({a});
    for (auto &a : ATOMS) for (auto &b : ATOMS) r.push_back({a, b});
    return r;
  }

  struct Sec { bool sph; P2 c0, c1; int variant; bool force; };
  Sec decode(uint64_t idx, bool thorough)
  {
    Sec s;
    s.sph = idx % 2; idx /= 2;
    s.force = idx % 2; idx /= 2;
    const size_t io = idx % NORIG; idx /= NORIG;
    const size_t id = idx % NDIR; idx /= NDIR;
    s.variant = thorough ? static_cast<int>(idx % 2) : 0;
    const double len = 2.5;
    s.c0 = ORIG[io];
    s.c1 = {{ORIG[io][0] + len*DIR[id][0], ORIG[io][1] + len*DIR[id][1]}};
    return s;
  }

  // the 3-D point the statement assigns to the 2-D point (x,z)
  P3 point3d(const Sec &s, double x, double z)
  {
    const double unit = s.sph ? PI/180.0 : 1e5;   // file units: degrees resp. lattice of 100 km
    const double ax = s.c0[0]*(s.sph ? 1.0 : 1e5)*(s.sph ? PI/180.0 : 1.0), ay = s.c0[1]*(s.sph ? 1.0 : 1e5)*(s.sph ? PI/180.0 : 1.0);
    const double bx = s.c1[0]*(s.sph ? 1.0 : 1e5)*(s.sph ? PI/180.0 : 1.0), by = s.c1[1]*(s.sph ? 1.0 : 1e5)*(s.sph ? PI/180.0 : 1.0);
    (void)unit;
    const double n = std::sqrt((bx-ax)*(bx-ax) + (by-ay)*(by-ay));
    const double ux = (bx-ax)/n, uy = (by-ay)/n;
    if (!s.sph) return {{ax + x*ux, ay + x*uy, z}};
    const double ang = std::atan2(z, x), r = std::sqrt(x*x + z*z);
    const double lon = ax + ang*ux, lat = ay + ang*uy;
    return {{r*std::cos(lat)*std::cos(lon), r*std::cos(lat)*std::sin(lon), r*std::sin(lat)}};
  }
  P2 direction(const Sec &s)
  {
    const double n = std::sqrt((s.c1[0]-s.c0[0])*(s.c1[0]-s.c0[0]) + (s.c1[1]-s.c0[1])*(s.c1[1]-s.c0[1]));
    return {{(s.c1[0]-s.c0[0])/n, (s.c1[1]-s.c0[1])/n}};
  }

  void run_section(bool thorough, uint64_t idx, Ctx &ctx)
  {
    static const int c_cmp = Ctx::counter_id("blocks_compared"), c_skip = Ctx::counter_id("skipped_near_boundary"), c_vel = Ctx::counter_id("velocity_projections_checked"),
                     c_pairs = Ctx::counter_id("adjacent_double_pairs_checked");
    static const std::vector<Request> REQS = requests();
    const Sec sc = decode(idx, thorough);
    worlds::Opt o; o.spherical = sc.sph; o.cross_section = true; o.custom_cs = true; o.cs0 = sc.c0; o.cs1 = sc.c1; o.variant = sc.variant; o.force_surface = sc.force;
    const std::string text = worlds::rich(o);
    auto w = make_world(text);
    const P2 u = direction(sc);
    const std::string sdesc = JObj().boolean("spherical", sc.sph).boolean("forced_surface_temperature", sc.force).raw("section_from", jarr(sc.c0)).raw("section_to", jarr(sc.c1)).done();
    // 2-D lattice
    std::vector<std::array<double,3>> pts2;   // x, z, depth
    // depths include points just above / at / just below the reference surface (an application with topography asks for negative depths)
    const std::vector<double> depths = {0.0, 2e4, 8e4, 1.2e5, 2.5e5, 5e5, -5.0, -1e-9, 1e-16};
    if (!sc.sph) for (double x = -2e5; x <= 12.1e5; x += 0.7e5) for (double d : depths) pts2.push_back({{x, CART_TOP - d, d}});
    else for (double a = -2.0; a <= 12.05; a += 0.7) for (double d : depths) { const double r = R_EARTH - d; pts2.push_back({{r*std::cos(a*PI/180), r*std::sin(a*PI/180), d}}); }
    bool any_feature = false;
    auto compare = [&](const std::array<double,3> &q, const Request &req, const char *ctxname) -> bool
    {
      const std::array<double,2> p2 = {{q[0], q[1]}};
      const P3 p3 = point3d(sc, q[0], q[1]);
      const std::vector<double> a = w->properties(p2, q[2], req);
      const std::vector<double> b = w->properties(p3, q[2], req);
      ctx.eval();
      if (a.size() != b.size()) { ctx.violation(std::string("C09/size/") + ctxname, JObj().raw("section", sdesc).raw("request", jreq(req)).done()); return false; }
      size_t slot = 0;
      bool ok = true;
      for (size_t ip = 0; ip < req.size() && ok; ++ip)
        {
          const size_t n = atom_size(req[ip]);
          bool same = true;
          if (req[ip][0] == 5)
            {
              if (!sc.sph)
                {
                  ctx.count(c_vel);
                  const double e0 = b[slot]*u[0] + b[slot+1]*u[1], e1 = b[slot+2];
                  same = std::fabs(a[slot]-e0) <= 1e-12*(1+std::fabs(e0)) && std::fabs(a[slot+1]-e1) <= 1e-12*(1+std::fabs(e1)) && a[slot+2] == 0.0;
                }
            }
          else if (req[ip][0] == 1) same = std::fabs(a[slot]-b[slot]) <= 1e-9*std::fabs(b[slot]);
          else for (size_t k = 0; k < n; ++k) if (!(std::fabs(a[slot+k]-b[slot+k]) <= 1e-12*(1+std::fabs(b[slot+k])))) same = false;
          ctx.count(c_cmp);
          if (!same)
            {
              // robust point? all six neighbours of the 3-D point must carry the same tag and compositions
              const double dl = 1e-6 * (sc.sph ? R_EARTH : 1e5);
              const std::vector<double> base = w->properties(p3, q[2], {{{4,0,0}},{{2,0,0}},{{2,1,0}},{{2,2,0}},{{2,3,0}}});
              bool robust = true;
              for (int ax = 0; ax < 3 && robust; ++ax) for (double sg : {-1.0, 1.0})
                  {
                    P3 pn = p3; pn[static_cast<size_t>(ax)] += sg*dl;
                    if (!biteq(w->properties(pn, q[2], {{{4,0,0}},{{2,0,0}},{{2,1,0}},{{2,2,0}},{{2,3,0}}}), base)) robust = false;
                  }
              for (double sg : {-1.0, 1.0}) if (!biteq(w->properties(p3, q[2] + sg*dl, {{{4,0,0}},{{2,0,0}},{{2,1,0}},{{2,2,0}},{{2,3,0}}}), base)) robust = false;
              if (!robust) { ctx.count(c_skip); ok = false; break; }
              ctx.violation(std::string("C09/") + (sc.sph ? "spherical/" : "cartesian/") + ATOMN[req[ip][0] == 1 ? 0 : req[ip][0] == 2 ? 1 : req[ip][0] == 3 ? 3 : req[ip][0] == 4 ? 6 : 7] + "/" + ctxname,
                            JObj().str("what", "2-D answer differs from the 3-D answer at the point the statement assigns to it").raw("section", sdesc).raw("point_2d", jarr(p2)).num("depth", q[2])
                            .raw("point_3d", jarr(p3)).raw("request", jreq(req)).raw("answer_2d", jarr(a)).raw("answer_3d", jarr(b)).str("world", text).done());
              ok = false;
            }
          slot += n;
        }
      return ok;
    };
    for (auto &q : pts2)
      {
        if (w->properties(point3d(sc, q[0], q[1]), q[2], {{{4,0,0}}})[0] != -1) any_feature = true;
        for (auto &req : REQS) compare(q, req, "lattice");
        // the single-property entry points of the two interfaces
        {
          const std::array<double,2> p2 = {{q[0], q[1]}};
          const P3 p3 = point3d(sc, q[0], q[1]);
          auto entry_bad = [&](const char *fn, double v2, double v3)
          {
            ctx.violation(std::string("C09/entry-point/") + fn + (q[2] < 0 ? "/negative-depth" : q[2] < 1e-12 ? "/surface" : ""),
                          JObj().str("what", std::string("2-D ") + fn + "() differs from 3-D " + fn + "() at the point the statement assigns to it").raw("section", sdesc).raw("point_2d", jarr(p2))
                          .num("depth", q[2]).raw("point_3d", jarr(p3)).num("answer_2d", v2).num("answer_3d", v3).str("world", text).done());
          };
          const std::vector<double> tb = w->properties(p3, q[2], {{{4,0,0}},{{2,0,0}},{{2,1,0}}}), ta = w->properties(p2, q[2], {{{4,0,0}},{{2,0,0}},{{2,1,0}}});
          if (biteq(ta, tb))     // (a disagreement here is reported, or skipped as non-robust, by the lattice comparison above)
            {
              const double t2 = w->temperature(p2, q[2]), t3 = w->temperature(p3, q[2]);
              ctx.eval(3);
              if (!(std::fabs(t2 - t3) <= 1e-9*std::fabs(t3))) entry_bad("temperature", t2, t3);
              for (unsigned c = 0; c < 2; ++c)
                {
                  const double c2 = w->composition(p2, q[2], c), c3 = w->composition(p3, q[2], c);
                  if (!(std::fabs(c2 - c3) <= 1e-12*(1+std::fabs(c3)))) entry_bad("composition", c2, c3);
                }
            }
        }
      }
    // pairs of adjacent doubles along the section that straddle a feature boundary (bisection on the 3-D tag); queried
    // in -> out -> in through the 2-D interface, every answer compared with the 3-D interface
    {
      const Request treq = {{{4,0,0}},{{1,0,0}},{{2,0,0}},{{5,0,0}}};
      int found = 0;
      for (double d : {2e4, 8e4, 2.5e5})
        {
          auto q_at = [&](double t) -> std::array<double,3>
          {
            if (!sc.sph) return {{t*1e5, CART_TOP - d, d}};
            const double r = R_EARTH - d; return {{r*std::cos(t*PI/180), r*std::sin(t*PI/180), d}};
          };
          auto tag3 = [&](double t) { const auto q = q_at(t); return w->properties(point3d(sc, q[0], q[1]), d, {{{4,0,0}}})[0]; };
          for (double t0 = -2.0; t0 < 12.0 && found < 6; t0 += 1.0)
            {
              double a = t0, b = t0 + 1.0;
              const double ta = tag3(a);
              if (tag3(b) == ta) continue;
              for (int it = 0; it < 200; ++it) { const double m = a + 0.5*(b-a); if (m == a || m == b) break; if (tag3(m) == ta) a = m; else b = m; }
              ++found;
              ctx.count(c_pairs);
              compare(q_at(a), treq, "adjacent-pair");
              compare(q_at(b), treq, "adjacent-pair");
              compare(q_at(a), treq, "adjacent-pair");
              compare(q_at(b), {{{1,0,0}}}, "adjacent-pair");
            }
        }
    }
    if (any_feature) ctx.nontrivial();
    if (idx % 7 == 2) ctx.sample(sdesc);
  }

  void run_nosection(uint64_t idx, Ctx &ctx)
  {
    worlds::Opt o; o.spherical = idx % 2 == 1; o.cross_section = false; o.force_surface = (idx / 2) % 2 == 1;
    const std::string text = worlds::rich(o);
    auto w = make_world(text);
    int thrown = 0, asked = 0;
    for (const std::array<double,2> &p : {std::array<double,2>{{1e5, 1e5}}, std::array<double,2>{{0.0, CART_TOP}}, std::array<double,2>{{R_EARTH, 0.0}}})
      for (double depth : {1e4, 0.0, -0.0, 1e-17, -1e-17, -5.0, 5e5})
        {
          auto expect_throw = [&](const char *name, const std::function<void()> &f)
          {
            ctx.eval(); ++asked;
            const std::string cls = std::string(o.force_surface ? "/forced-surface-temperature" : "") + (std::fabs(depth) < 1e-12 ? "/at-the-surface" : depth < 0 ? "/negative-depth" : "");
            try { f(); ctx.violation(std::string("C09/no-cross-section/") + name + "-does-not-throw" + cls, JObj().boolean("spherical", o.spherical).boolean("forced_surface_temperature", o.force_surface).raw("point_2d", jarr(p)).num("depth", depth).str("world", text).done()); }
            catch (const std::exception &) { ++thrown; }
            catch (...) { ctx.violation(std::string("C09/no-cross-section/") + name + "-throws-non-standard-exception", "{}"); }
          };
          expect_throw("properties", [&]() { (void)w->properties(p, depth, {{{1,0,0}}}); });
          expect_throw("properties-batched", [&]() { (void)w->properties(p, depth, {{{4,0,0}},{{1,0,0}},{{5,0,0}}}); });
          expect_throw("temperature", [&]() { (void)w->temperature(p, depth); });
          expect_throw("temperature-gravity", [&]() { (void)w->temperature(p, depth, 9.81); });
          expect_throw("composition", [&]() { (void)w->composition(p, depth, 0); });
          expect_throw("grains", [&]() { (void)w->grains(p, depth, 0, 2); });
        }
    if (thrown == asked) ctx.nontrivial();
    ctx.sample(JObj().str("suite", "no cross section").boolean("spherical", o.spherical).boolean("forced_surface_temperature", o.force_surface).integer("queries_refused", thrown).integer("queries", asked).done());
  }
}

int main(int argc, char **argv)
{
  Spec spec;
  spec.property = "C09";
  spec.level = "exploration";
  spec.rule = "full product of cross sections (5 origins x 9 directions incl. oblique, negative and Pythagorean ones and two whose second point lies more than half a turn of longitude away x both coordinate systems [x 2 world files in thorough]) on a rich world with every "
              "feature type; per section a 2-D lattice (21 positions x 6 depths) x all request lists of length <= 2 over 8 atoms: the 2-D answer is compared with the 3-D answer at the point computed "
              "from the statement; plus adjacent-double pairs straddling feature boundaries queried in->out->in. non-trivial: the section crosses at least one feature; tuples distinct by construction";
  spec.assumptions = {"spherical sections follow the straight line in (longitude, latitude) from the first towards the second point", "a mismatch is only a violation at robust points (6 spatial neighbours and 2 depth neighbours at 1e-6 scale give the same tag/compositions); others are counted as skipped_near_boundary",
                      "velocity projection is claimed for cartesian worlds only (as in the property)"
                     };
  spec.counters = {"blocks_compared", "skipped_near_boundary", "velocity_projections_checked", "adjacent_double_pairs_checked"};
  return driver(argc, argv, spec, [](const std::string &tier)
  {
    const bool th = tier == "thorough";
    std::vector<Suite> s;
    Suite a; a.name = "sections"; a.n = 2*2*NORIG*NDIR*(th ? 2 : 1); a.run = [th](uint64_t i, Ctx &c) { run_section(th, i, c); };
    a.bound = "2 coordinate systems x forced surface temperature {off,on} x 5 origins x 9 directions" + std::string(th ? " x 2 world files" : "") + "; 189 2-D points (9 depths incl. just above/at/below the surface) x 72 request lists each, plus the temperature/composition entry points";
    s.push_back(a);
    Suite b; b.name = "nosection"; b.n = 4; b.run = run_nosection; b.bound = "worlds without cross section (cartesian, spherical) x forced surface temperature {off,on}: all six 2-D entry points must throw std::exception at 3 points x 7 depths (incl. 0, +-1e-17, negative)";
    s.push_back(b);
    return s;
  });
}
