// VARIANTS: tsan
// C16 (free-running ThreadSanitizer pass): several threads use ONE C handle and ONE C++ wrapper object at the same time,
// as an application with a thread pool does with the native (const) World; any TSan report is a violation, and every value
// is compared with the native world's single-threaded answer.
// usage: C16_tsan <rundir> <rounds> <threads> <queries-per-thread>
#include <atomic>
#include <thread>
#include "kit.h"
#include "worlds.h"
#include "world_builder/wrapper_c.h"
#include "world_builder/wrapper_cpp.h"
using namespace wbgen;
using WorldBuilder::World;

int main(int argc, char **argv)
{
  if (argc < 5) return 2;
  kit::G().rundir = argv[1];
  const int rounds = atoi(argv[2]), nthreads = atoi(argv[3]), nq = atoi(argv[4]);
  unsigned long long total = 0;
  for (int round = 0; round < rounds; ++round)
    {
      worlds::Opt o;
      o.spherical = round % 2 == 1;
      o.variant = (round / 2) % 2;
      o.cross_section = true;
      const std::string text = worlds::rich(o);
      const std::string file = kit::write_world_file(text, "c16tsan");
      World native(file, false, "", 1);
      void *cw = nullptr;
      create_world(&cw, file.c_str(), nullptr, nullptr, 1);
      wrapper_cpp::WorldBuilderWrapper cpp(file, false, "", 1);
      const auto probes = worlds::lattice(o.spherical);
      const auto probes2 = worlds::lattice2(o.spherical);
      std::vector<double> rT(probes.size()), rT2(probes2.size());
      std::vector<std::array<double,4>> rC(probes.size()), rC2(probes2.size());
      // three request lists of different lengths: thread t uses list t % 3 (whatever the wrapper keeps of a request between the call and the query must not be shared)
      const kit::Request REQS[3] = {{{{2,1,0}},{{1,0,0}},{{4,0,0}}}, {{{1,0,0}}}, {{{4,0,0}},{{2,0,0}},{{2,1,0}},{{1,0,0}},{{5,0,0}},{{2,3,0}}}};
      std::vector<std::array<std::vector<double>,3>> rB(probes.size());
      for (size_t ip = 0; ip < probes.size(); ++ip)
        {
          const P3 p = query_point(o.spherical, probes[ip].x, probes[ip].y, probes[ip].depth);
          rT[ip] = native.temperature(p, probes[ip].depth);
          for (unsigned c = 0; c < 4; ++c) rC[ip][c] = native.composition(p, probes[ip].depth, c);
          for (int k = 0; k < 3; ++k) rB[ip][k] = native.properties(p, probes[ip].depth, REQS[k]);
        }
      for (size_t i2 = 0; i2 < probes2.size(); ++i2)
        {
          const std::array<double,2> p2 = {{probes2[i2].x, probes2[i2].z}};
          rT2[i2] = native.temperature(p2, probes2[i2].depth);
          for (unsigned c = 0; c < 4; ++c) rC2[i2][c] = native.composition(p2, probes2[i2].depth, c);
        }
      std::atomic<int> ready{0};
      std::atomic<unsigned long long> mismatches{0}, done{0};
      std::vector<std::thread> th;
      for (int t = 0; t < nthreads; ++t)
        th.emplace_back([&, t]()
        {
          ready.fetch_add(1);
          while (ready.load() < nthreads) {}
          for (int q = 0; q < nq; ++q)
            {
              // all threads sweep the same points in different orders and ask for different compositions
              const size_t ip = (static_cast<size_t>(q) * 7 + static_cast<size_t>(t) * 13) % probes.size();
              const P3 p = query_point(o.spherical, probes[ip].x, probes[ip].y, probes[ip].depth);
              const double d = probes[ip].depth;
              const unsigned c = static_cast<unsigned>(q + t) % 4;
              bool ok = true;
              double v = 0;
              temperature_3d(cw, p[0], p[1], p[2], d, &v);                 ok = ok && kit::biteq(v, rT[ip]);
              composition_3d(cw, p[0], p[1], p[2], d, c, &v);              ok = ok && kit::biteq(v, rC[ip][c]);
              ok = ok && kit::biteq(cpp.temperature_3d(p[0], p[1], p[2], d), rT[ip]);
              ok = ok && kit::biteq(cpp.composition_3d(p[0], p[1], p[2], d, c), rC[ip][c]);
              const int k = t % 3;
              unsigned raw[6][3];
              for (size_t a = 0; a < REQS[k].size(); ++a) for (int b = 0; b < 3; ++b) raw[a][b] = REQS[k][a][static_cast<size_t>(b)];
              std::vector<double> got(rB[ip][k].size() + 8, -12345.0);   // (room behind the expected block: a longer answer must not run over the end)
              properties_3d(cw, p[0], p[1], p[2], d, raw, static_cast<unsigned>(REQS[k].size()), got.data());
              ok = ok && std::equal(rB[ip][k].begin(), rB[ip][k].end(), got.begin(), [](double a, double b) { return kit::biteq(a, b); }) && got[rB[ip][k].size()] == -12345.0;
              ok = ok && properties_output_size(cw, raw, static_cast<unsigned>(REQS[k].size())) == rB[ip][k].size();
              const size_t i2 = (static_cast<size_t>(q) * 5 + static_cast<size_t>(t)) % probes2.size();
              const double x = probes2[i2].x, z = probes2[i2].z, d2 = probes2[i2].depth;
              temperature_2d(cw, x, z, d2, &v);                              ok = ok && kit::biteq(v, rT2[i2]);
              composition_2d(cw, x, z, d2, c, &v);                           ok = ok && kit::biteq(v, rC2[i2][c]);
              ok = ok && kit::biteq(cpp.temperature_2d(x, z, d2), rT2[i2]);
              ok = ok && kit::biteq(cpp.composition_2d(x, z, d2, c), rC2[i2][c]);
              if (!ok) mismatches.fetch_add(1);
              done.fetch_add(9);
            }
        });
      for (auto &x : th) x.join();
      release_world(cw);
      total += done.load();
      if (mismatches.load() > 0) printf("VALUE-MISMATCH round=%d count=%llu world=%s\n", round, static_cast<unsigned long long>(mismatches.load()), o.spherical ? "spherical" : "cartesian");
    }
  printf("tsan-pass rounds=%d threads=%d queries=%llu\n", rounds, nthreads, total);
  return 0;
}
