// VARIANTS: rel
// C10 - segment models are inherited and sections interpolate only between neighbours.
#include "kit.h"
#include "wbgen.h"
using namespace kit;
using namespace wbgen;
using WorldBuilder::World;

namespace
{
  const Request REQ = {{{1,0,0}},{{2,0,0}},{{2,1,0}},{{2,2,0}},{{2,3,0}},{{3,0,1}},{{4,0,0}},{{5,0,0}}};
  const size_t SLOT_T = 0, SLOT_C = 1, SLOT_TAG = 15;

  // gently bent trench along y; slab / fault dips towards +x
  std::vector<P2> trench(unsigned n)
  {
    std::vector<P2> c;
    for (unsigned i = 0; i < n; ++i) c.push_back({{(i % 2) ? 0.1e5 : 0.0, i * 2e5}});
    return c;
  }
  const std::string DIP_POINT = "[5e6,0]";

  // ---- the four kinds of models of the logical world ----
  std::string models_json(bool fault, int kind)
  {
    const std::string dist = fault ? "fault center" : "slab top";
    switch (kind)
      {
        case 0:
          return fault ? "\"temperature models\":[{\"model\":\"linear\",\"max distance fault center\":4e4,\"center temperature\":500,\"side temperature\":1300},{\"model\":\"uniform\",\"temperature\":50,\"operation\":\"add\"}]"
                 : "\"temperature models\":[{\"model\":\"linear\",\"max distance slab top\":1e5,\"top temperature\":500,\"bottom temperature\":1300},{\"model\":\"uniform\",\"temperature\":50,\"operation\":\"add\"}]";
        case 1:
          return "\"composition models\":[{\"model\":\"uniform\",\"compositions\":[0,2],\"fractions\":[0.25,0.75]},{\"model\":\"uniform\",\"compositions\":[1],\"fractions\":[0.5],\"operation\":\"add\",\"max distance " + dist + "\":3e4}]";
        case 2:
          return "\"grains models\":[{\"model\":\"uniform\",\"compositions\":[0],\"Euler angles z-x-z\":[[10,20,30]],\"grain sizes\":[0.25]}]";
        default:
          return "\"velocity models\":[{\"model\":\"uniform raw\",\"velocity\":[0.01,0.02,-0.03]}]";
      }
  }
  // geometry part of segment s of the default list
  std::string seg_geom(unsigned s, bool fault)
  {
    if (s == 0) return "\"length\":2e5,\"thickness\":[1e5],\"angle\":[45]" + std::string(fault ? "" : ",\"top truncation\":[-1e4]");
    return "\"length\":1.5e5,\"thickness\":[1e5,0.6e5],\"angle\":[45,60]";
  }

  // place: 0 feature, 1 section, 2 segment, 3 mixed: the feature and every segment of the default list declare the models, the segments of the
  // explicit section entries (and those entries) declare none and fall through to the feature level
  struct Layout { bool fault; unsigned n, nseg; unsigned place[4]; unsigned sigma; };
  const unsigned NPLACE = 4, NPLACEMENTS = 4*4*4*4;

  std::string layout_world(const Layout &L)
  {
    const unsigned all = (1u << L.n) - 1;
    auto segments = [&](bool in_section = false)
    {
      std::string s = "[";
      for (unsigned i = 0; i < L.nseg; ++i)
        {
          s += (i ? ",{" : "{") + seg_geom(i, L.fault);
          for (int k = 0; k < 4; ++k)
            {
              // the second segment always carries its own temperature model: explicit segment models win over inherited ones
              if (i == 1 && k == 0) { s += ",\"temperature models\":[{\"model\":\"uniform\",\"temperature\":999}]"; continue; }
              if (L.place[k] == 2 || (L.place[k] == 3 && !in_section)) s += "," + models_json(L.fault, k);
            }
          s += "}";
        }
      return s + "]";
    };
    std::string f = std::string("{\"model\":\"") + (L.fault ? "fault" : "subducting plate") + "\",\"name\":\"F\",\"coordinates\":" + pts(trench(L.n)) + ",\"dip point\":" + DIP_POINT + ",\"segments\":" + segments();
    for (int k = 0; k < 4; ++k)
      if (L.place[k] == 0 || L.place[k] == 3 || (L.place[k] == 1 && L.sigma != all)) f += "," + models_json(L.fault, k);
    if (L.sigma)
      {
        f += ",\"sections\":[";
        bool first = true;
        // listed in descending coordinate order on purpose: the order of section entries carries no meaning
        for (int i = static_cast<int>(L.n) - 1; i >= 0; --i)
          {
            if (!(L.sigma & (1u << i))) continue;
            f += std::string(first ? "" : ",") + "{\"coordinate\":" + std::to_string(i) + ",\"segments\":" + segments(true);
            for (int k = 0; k < 4; ++k) if (L.place[k] == 1) f += "," + models_json(L.fault, k);
            f += "}";
            first = false;
          }
        f += "]";
      }
    f += "}";
    // a mantle layer underneath gives the slab something to add to / replace
    const std::string ml = "{\"model\":\"mantle layer\",\"name\":\"ML\",\"coordinates\":[[-1e6,-1e6],[2e6,-1e6],[2e6,2e6],[-1e6,2e6]],\"temperature models\":[{\"model\":\"uniform\",\"temperature\":1600}],"
                           "\"composition models\":[{\"model\":\"uniform\",\"compositions\":[3]}]}";
    return world(coord(false), {ml, f});
  }

  struct Pt { double x, y, depth; };
  std::vector<Pt> lattice(unsigned n)
  {
    std::vector<Pt> v;
    for (double x = -1e5; x <= 4.01e5; x += 0.5e5)
      for (double y = -0.5e5; y <= (n - 1) * 2e5 + 0.51e5; y += 0.37e5)
        for (double d : {1e4, 5e4, 1e5, 1.5e5, 2e5, 2.5e5, 3e5, 3.4e5})
          v.push_back({x, y, d});
    return v;
  }

  std::vector<std::vector<double>> answers(World &w, const std::vector<Pt> &pts_)
  {
    std::vector<std::vector<double>> a;
    for (auto &p : pts_) a.push_back(w.properties(P3{{p.x, p.y, CART_TOP - p.depth}}, p.depth, REQ));
    return a;
  }

  // ---------- suite 1: all layouts of one logical world ----------
  void run_layout(const std::vector<unsigned> &ns, uint64_t idx, Ctx &ctx)
  {
    static const int c_cmp = Ctx::counter_id("answers_compared"), c_inside = Ctx::counter_id("answers_inside_the_feature");
    // idx -> (type, nseg, n, sigma, placement)
    Layout L;
    uint64_t r = idx;
    L.fault = r % 2; r /= 2;
    L.nseg = 1 + static_cast<unsigned>(r % 2); r /= 2;
    for (int k = 0; k < 4; ++k) { L.place[k] = static_cast<unsigned>(r % NPLACE); r /= NPLACE; }
    // remaining: (n, sigma) pairs in order
    unsigned ni = 0;
    while (r >= (1ull << ns[ni])) { r -= (1ull << ns[ni]); ++ni; }
    L.n = ns[ni];
    L.sigma = static_cast<unsigned>(r);
    static std::map<unsigned, std::vector<std::vector<double>>> canon;
    static std::map<unsigned, std::string> canon_text;
    const unsigned key = (L.fault ? 1 : 0) + 2 * L.nseg + 8 * L.n;
    const auto pts_ = lattice(L.n);
    if (!canon.count(key))
      {
        Layout C = L;
        for (int k = 0; k < 4; ++k) C.place[k] = 0;
        C.sigma = 0;
        canon_text[key] = layout_world(C);
        auto w = make_world(canon_text[key], 1, "canon");
        canon[key] = answers(*w, pts_);
      }
    const std::string text = layout_world(L);
    auto w = make_world(text);
    const auto got = answers(*w, pts_);
    const auto &want = canon[key];
    uint64_t inside = 0;
    for (size_t i = 0; i < pts_.size(); ++i)
      {
        ctx.eval();
        if (want[i][SLOT_TAG] == 1) ++inside;
        if (!biteq(got[i], want[i]))
          {
            size_t slot = 0;
            while (slot < got[i].size() && slot < want[i].size() && biteq(got[i][slot], want[i][slot])) ++slot;
            const std::string what = slot == SLOT_T ? "temperature" : slot < 5 ? "composition" : slot < SLOT_TAG ? "grains" : slot == SLOT_TAG ? "tag" : "velocity";
            std::string where;
            const char *K[] = {"T", "C", "G", "V"}, *PL[] = {"feature", "section", "segment", "feature+default-segments-only"};
            for (int k = 0; k < 4; ++k) where += std::string(k ? "," : "") + K[k] + "@" + PL[L.place[k]];
            ctx.violation(std::string("C10/layout/") + (L.fault ? "fault" : "subducting plate") + "/" + what + "-differs-from-feature-level-layout",
                          JObj().str("what", "a re-layout of the same logical world answers differently").str("placement", where).integer("coordinates", L.n).integer("segments", L.nseg)
                          .integer("coordinates_with_explicit_section_bitmask", L.sigma).raw("point", jarr(P3{{pts_[i].x, pts_[i].y, CART_TOP - pts_[i].depth}})).num("depth", pts_[i].depth)
                          .integer("first_differing_slot", static_cast<long long>(slot)).raw("layout_answer", jarr(got[i])).raw("canonical_answer", jarr(want[i])).raw("request", jreq(REQ))
                          .str("layout_world", text).str("canonical_world", canon_text[key]).done());
            break;
          }
      }
    ctx.count(c_cmp, pts_.size());
    ctx.count(c_inside, inside);
    if (inside > 20) ctx.nontrivial();
    if (idx % 501 == 17) ctx.sample(JObj().boolean("fault", L.fault).integer("coordinates", L.n).integer("segments", L.nseg).integer("section_bitmask", L.sigma)
                                      .raw("placement_T_C_G_V", "[" + std::to_string(L.place[0]) + "," + std::to_string(L.place[1]) + "," + std::to_string(L.place[2]) + "," + std::to_string(L.place[3]) + "]").integer("probes_inside", static_cast<long long>(inside)).done());
  }

  // ---------- suite 2: section overrides are local, interpolation is convex ----------
  // every coordinate has its own section entry; per-section values come from the tables below
  struct SecWorld
  {
    bool fault; unsigned n;
    std::vector<double> thick, length, trunc, temp, angle;
    std::vector<double> thick2, trunc2;   // values at the lower end of the segment (two-valued thickness / top truncation)
    std::vector<double> lengthB;          // non-empty: a second segment with the same dip, thickness and truncation, of this length
    std::vector<int> comp;   // composition painted by the section (uniform, fraction 1)
    std::string feature_temperature;   // non-empty: the sections carry no temperature models, the feature carries this one (a model that depends on the slab length)
    bool additive = false;   // section models use operation add: temperature += temp[j] - 1000, composition 0 += 0.25 (j+1)
  };
  SecWorld base_secworld(bool fault, unsigned n)
  {
    SecWorld s;
    s.fault = fault; s.n = n;
    s.thick.assign(n, 1e5); s.length.assign(n, 4e5); s.trunc.assign(n, 0.0); s.angle.assign(n, 60.0);
    for (unsigned i = 0; i < n; ++i) { s.temp.push_back(1000 + 100.0 * i); s.comp.push_back(0); }
    s.thick2 = s.thick; s.trunc2 = s.trunc;
    return s;
  }
  std::string secworld_text(const SecWorld &s)
  {
    auto seg = [&](unsigned i)
    {
      const bool two = !s.lengthB.empty();
      // with a second segment the two-valued quantities are not used (they would restart in every segment)
      const std::string th = s.thick2[i] == s.thick[i] ? "[" + num(s.thick[i]) + "]" : "[" + num(s.thick[i]) + "," + num(s.thick2[i]) + "]";
      const std::string tr = s.trunc2[i] == s.trunc[i] ? "[" + num(s.trunc[i]) + "]" : "[" + num(s.trunc[i]) + "," + num(s.trunc2[i]) + "]";
      const std::string rest = ",\"thickness\":" + th + ",\"angle\":[" + num(s.angle[i]) + "]" + (s.fault ? std::string() : ",\"top truncation\":" + tr);
      return "[{\"length\":" + num(s.length[i]) + rest + "}" + (two ? ",{\"length\":" + num(s.lengthB[i]) + rest + "}" : std::string()) + "]";
    };
    std::string f = std::string("{\"model\":\"") + (s.fault ? "fault" : "subducting plate") + "\",\"name\":\"F\",\"coordinates\":" + pts(trench(s.n)) + ",\"dip point\":" + DIP_POINT + ",\"segments\":" + seg(0) + ",\"sections\":[";
    for (unsigned i = 0; i < s.n; ++i)
      f += std::string(i ? "," : "") + "{\"coordinate\":" + std::to_string(i) + ",\"segments\":" + seg(i) + "," + (s.feature_temperature.empty() ? "\"temperature models\":[{\"model\":\"uniform\",\"temperature\":" + num(s.additive ? s.temp[i] - 1000 : s.temp[i]) + (s.additive ? ",\"operation\":\"add\"" : "") + "}]," : std::string()) +
           "\"composition models\":[{\"model\":\"uniform\",\"compositions\":[" + std::to_string(s.comp[i]) + "]" + (s.additive ? ",\"fractions\":[" + num(0.25 * (i + 1)) + "],\"operation\":\"add\"" : "") + (s.fault ? "" : ",\"min distance slab top\":-1e6") + "}]}";
    f += "]" + (s.feature_temperature.empty() ? std::string() : ",\"temperature models\":[" + s.feature_temperature + "]") + "}";
    return world(coord(false), {f});
  }
  // classifier: section j paints composition j; thick and long enough to contain every probe any variant contains
  std::string classifier_text(bool fault, unsigned n, const std::vector<double> &angle)
  {
    SecWorld s = base_secworld(fault, n);
    s.thick.assign(n, fault ? 8e5 : 4e5); s.length.assign(n, 9e5); s.trunc.assign(n, -4e5); s.angle = angle;
    s.thick2 = s.thick; s.trunc2 = s.trunc;
    for (unsigned i = 0; i < n; ++i) s.comp[i] = static_cast<int>(i);
    return secworld_text(s);
  }
  Request marker_request(unsigned n) { Request r; for (unsigned i = 0; i < n; ++i) r.push_back({{2,i,0}}); r.push_back({{4,0,0}}); return r; }

  const char *OVERRIDES[] = {"thickness", "length", "top truncation", "uniform temperature", "composition", "dip angle", "two-valued top truncation", "two-valued thickness",
                             "first of two segments has length zero", "second of two segments has length zero"
                            };
  const int N_OVERRIDES = 10;

  void run_sections(const std::vector<unsigned> &ns, uint64_t idx, Ctx &ctx)
  {
    static const int c_cmp = Ctx::counter_id("answers_compared"), c_changed = Ctx::counter_id("probes_changed_by_an_override"), c_far = Ctx::counter_id("probes_outside_the_neighbour_range_checked_unchanged"),
                     c_convex = Ctx::counter_id("convexity_checks"), c_member = Ctx::counter_id("membership_checks_against_interpolated_extent"), c_skip = Ctx::counter_id("skipped_near_boundary");
    uint64_t r = idx;
    const bool fault = r % 2; r /= 2;
    const int kind = static_cast<int>(r % (N_OVERRIDES + 2)); r /= (N_OVERRIDES + 2);    // N_OVERRIDES: no override, convexity of the base world only; N_OVERRIDES + 1: the same with additive section models
    unsigned ni = 0;
    while (r >= ns[ni]) { r -= ns[ni]; ++ni; }
    const unsigned n = ns[ni], k = static_cast<unsigned>(r);
    if (fault && (kind == 2 || kind == 6)) return;   // faults have no top truncation
    SecWorld base = base_secworld(fault, n);
    if (kind == 8 || kind == 9) { base.length.assign(n, 1.5e5); base.lengthB.assign(n, 2.5e5); }
    SecWorld var = base;
    if (kind == N_OVERRIDES + 1) { var.additive = true; if (k != 0) return; }
    if (kind == 0) var.thick[k] = 1.6e5;
    if (kind == 1) var.length[k] = 1e5;
    if (kind == 2) var.trunc[k] = 0.3e5;
    if (kind == 3) var.temp[k] = 2000;
    if (kind == 4) var.comp[k] = 1;
    if (kind == 5) var.angle[k] = 35;
    if (kind == 6) { var.trunc[k] = 0.1e5; var.trunc2[k] = 0.5e5; }
    if (kind == 7) { var.thick[k] = 0.7e5; var.thick2[k] = 1.7e5; }
    if (kind == 8) { var.length[k] = 0; var.lengthB[k] = 3e5; }
    if (kind == 9) { var.lengthB[k] = 0; var.length[k] = 2e5; }
    const std::string base_text = secworld_text(base), var_text = secworld_text(var);
    auto wb = make_world(base_text, 1, "b"), wv = make_world(var_text, 1, "v");
    // section weights come from classifier worlds with the same trench and the same dip tables
    const std::string cls_base_text = classifier_text(fault, n, base.angle), cls_var_text = classifier_text(fault, n, var.angle);
    auto cb = make_world(cls_base_text, 1, "cb"), cv = make_world(cls_var_text, 1, "cv");
    const Request mreq = marker_request(n);
    const auto pts_ = lattice(n);
    uint64_t changed = 0, far = 0;
    const std::string fname = fault ? "fault" : "subducting plate";
    for (auto &q : pts_)
      {
        const P3 p = {{q.x, q.y, CART_TOP - q.depth}};
        const std::vector<double> ab = wb->properties(p, q.depth, REQ), av = wv->properties(p, q.depth, REQ);
        const std::vector<double> mb = cb->properties(p, q.depth, mreq), mv = cv->properties(p, q.depth, mreq);
        ctx.eval();
        auto detail = [&](const std::string &what)
        {
          return JObj().str("what", what).str("override", kind < N_OVERRIDES ? OVERRIDES[kind] : kind == N_OVERRIDES ? "none" : "none, additive section models").integer("overridden_coordinate", k).integer("coordinates", n).raw("point", jarr(p)).num("depth", q.depth)
                 .raw("base_answer", jarr(ab)).raw("overridden_answer", jarr(av)).raw("section_weights_base", jarr(mb)).raw("section_weights_overridden", jarr(mv)).raw("request", jreq(REQ))
                 .str("base_world", base_text).str("overridden_world", var_text).str("classifier_world", cls_var_text).done();
        };
        // --- weights: convex, on two adjacent sections only ---
        for (const auto *m : {&mb, &mv})
          if ((*m)[n] >= 0)
            {
              ctx.count(c_convex);
              double sum = 0; int first = -1, last = -1;
              bool ok = true;
              for (unsigned j = 0; j < n; ++j)
                {
                  const double wj = (*m)[j];
                  if (!(wj >= 0 && wj <= 1)) ok = false;
                  sum += wj;
                  if (wj != 0) { if (first < 0) first = static_cast<int>(j); last = static_cast<int>(j); }
                }
              if (!(std::fabs(sum - 1) <= 1e-12) || first < 0 || last - first > 1) ok = false;
              if (!ok) { ctx.violation("C10/sections/" + fname + "/interpolation-weights-not-convex-on-two-neighbours", detail("uniform marker compositions of the sections are not a convex combination of two adjacent sections")); break; }
            }
        // --- locality ---
        if (kind < N_OVERRIDES)
          {
            const bool inside_cls = mb[n] >= 0 || mv[n] >= 0;
            const bool weight_on_k = (mb[n] >= 0 && mb[k] != 0) || (mv[n] >= 0 && mv[k] != 0);
            const bool differs = !biteq(ab, av);
            if (differs) ++changed;
            if (!weight_on_k)
              {
                ++far;
                if (differs)
                  {
                    ctx.violation("C10/sections/" + fname + "/override-of-" + sanitize(OVERRIDES[kind]) + "-changes-answers-outside-the-neighbouring-sections" + (inside_cls ? "" : "/outside-the-feature"),
                                  detail("overriding the section of one coordinate changed the answer at a point whose trench parameter is not between that coordinate's neighbours"));
                    break;
                  }
              }
          }
        // --- interpolated values are the convex combination given by the weights ---
        {
          const SecWorld &s = var;
          const std::vector<double> &a = av, &m = mv;
          World &w = *wv;
          if (m[n] >= 0)
            {
              double thick = 0, len = 0, trunc = 0, temp = 0, c0 = 0, c1 = 0, thick2 = 0, trunc2 = 0;
              for (unsigned j = 0; j < n; ++j)
                {
                  thick += m[j]*s.thick[j]; thick2 += m[j]*s.thick2[j]; trunc += m[j]*s.trunc[j]; trunc2 += m[j]*s.trunc2[j]; temp += m[j]*s.temp[j]; (s.comp[j] == 0 ? c0 : c1) += m[j];
                  len += m[j]*(s.length[j] + (s.lengthB.empty() ? 0.0 : s.lengthB[j]));
                }
              const auto pd = w.distance_to_plane(p, q.depth, "F");
              const double dfrom = pd.get_distance_from_surface(), dalong = pd.get_distance_along_surface();
              // coarse, independent geometry (all sections dip alike): the body is a plane through the (gently bent) trench; a membership that is
              // off by more than 25 km is a violation whatever the library's own distances say (also when it reports no distance at all)
              if (kind != 5)
                {
                  const auto tr = trench(n);
                  size_t seg_i = 0;
                  while (seg_i + 2 < tr.size() && q.y > tr[seg_i+1][1]) ++seg_i;
                  const double ty = std::min(1.0, std::max(0.0, (q.y - tr[seg_i][1]) / (tr[seg_i+1][1] - tr[seg_i][1])));
                  const double h = q.x - (tr[seg_i][0] + ty * (tr[seg_i+1][0] - tr[seg_i][0]));
                  const double th = s.angle[0] * PI / 180.0;
                  const double along_ref = h * std::cos(th) + q.depth * std::sin(th), from_ref = -h * std::sin(th) + q.depth * std::cos(th);
                  const double M = 2.5e4;
                  const double tmin = std::min(thick, thick2), tmax = std::max(thick, thick2), rmin = std::min(trunc, trunc2), rmax = std::max(trunc, trunc2);
                  const double lo_in = fault ? -0.5 * tmin : rmax, hi_in = fault ? 0.5 * tmin : tmin, lo_out = fault ? -0.5 * tmax : rmin, hi_out = fault ? 0.5 * tmax : tmax;
                  static const int c_coarse = Ctx::counter_id("coarse_planar_geometry_checks");
                  if (q.y > tr.front()[1] + 1e4 && q.y < tr.back()[1] - 1e4)
                    {
                      ctx.count(c_coarse);
                      const bool surely_in = from_ref >= lo_in + M && from_ref <= hi_in - M && along_ref >= M && along_ref <= len - M;
                      const bool surely_out = from_ref < lo_out - M || from_ref > hi_out + M || along_ref < -M || along_ref > len + M;
                      const bool is_in_ = a[SLOT_TAG] >= 0;
                      if ((surely_in && !is_in_) || (surely_out && is_in_))
                        { ctx.violation("C10/sections/" + fname + "/membership-disagrees-with-the-planar-geometry-by-more-than-25-km", detail(std::string("planar construction: distance from plane ") + num(from_ref) + ", along plane " + num(along_ref) + ", interpolated length " + num(len) + (surely_in ? ": inside" : ": outside"))); break; }
                      if (is_in_ && std::isfinite(dalong) && std::fabs(dalong - along_ref) > M)
                        { ctx.violation("C10/sections/" + fname + "/distance-along-the-plane-off-by-more-than-25-km", detail("distance_to_plane reports " + num(dalong) + " along the plane, the planar construction gives " + num(along_ref))); break; }
                    }
                }
              if (std::isfinite(dfrom) && std::isfinite(dalong))
                {
                  // two-valued quantities vary linearly along the (single) segment
                  const double sfrac = len > 0 ? std::min(1.0, std::max(0.0, dalong / len)) : 0.0;
                  const double thick_l = thick + sfrac * (thick2 - thick), trunc_l = trunc + sfrac * (trunc2 - trunc);
                  const double lo = fault ? -0.5 * thick_l : trunc_l, hi = fault ? 0.5 * thick_l : thick_l;
                  const double margin = std::min(std::min(std::fabs(dfrom - lo), std::fabs(dfrom - hi)), std::min(std::fabs(dalong), std::fabs(dalong - len)));
                  if (margin < 1e-3) ctx.count(c_skip);
                  else
                    {
                      ctx.count(c_member);
                      const bool expect_in = dfrom >= lo && dfrom <= hi && dalong >= 0 && dalong <= len;
                      const bool is_in = a[SLOT_TAG] >= 0;
                      if (expect_in != is_in)
                        { ctx.violation("C10/sections/" + fname + "/extent-is-not-the-interpolation-of-the-neighbouring-sections", detail(std::string("membership disagrees with thickness / top truncation / length interpolated with the section weights; expected ") + (expect_in ? "inside" : "outside"))); break; }
                      if (is_in && s.additive)
                        {
                          // background at this depth, from a point far away from the feature
                          const double Tbg = w.properties(P3{{-5e6, -5e6, CART_TOP - q.depth}}, q.depth, {{{1,0,0}}})[0];
                          double add_t = 0, add_c = 0;
                          for (unsigned j = 0; j < n; ++j) { add_t += m[j] * (s.temp[j] - 1000); add_c += m[j] * 0.25 * (j + 1); }
                          if (!(std::fabs(a[SLOT_T] - (Tbg + add_t)) <= 1e-9 * (Tbg + add_t))) { ctx.violation("C10/sections/" + fname + "/additive-temperature-is-not-the-interpolation-of-the-neighbouring-sections", detail("with 'add' models the temperature is not background + convex combination of the two sections' offsets")); break; }
                          if (!(std::fabs(a[SLOT_C] - add_c) <= 1e-12)) { ctx.violation("C10/sections/" + fname + "/additive-composition-is-not-the-interpolation-of-the-neighbouring-sections", detail("with 'add' models the composition is not the convex combination of the two sections' offsets")); break; }
                        }
                      else if (is_in)
                        {
                          if (!(std::fabs(a[SLOT_T] - temp) <= 1e-9 * temp)) { ctx.violation("C10/sections/" + fname + "/temperature-is-not-the-interpolation-of-the-neighbouring-sections", detail("temperature is not the convex combination of the two sections' uniform temperatures")); break; }
                          if (!(std::fabs(a[SLOT_C] - c0) <= 1e-12 && std::fabs(a[SLOT_C+1] - c1) <= 1e-12)) { ctx.violation("C10/sections/" + fname + "/composition-is-not-the-interpolation-of-the-neighbouring-sections", detail("composition is not the convex combination of the two sections' compositions")); break; }
                          // a section's own value at its coordinate
                          for (unsigned j = 0; j < n; ++j) if (m[j] == 1 && a[SLOT_T] != s.temp[j]) { ctx.violation("C10/sections/" + fname + "/own-value-at-own-coordinate", detail("with full weight on one section the temperature is not that section's value")); break; }
                        }
                    }
                }
            }
        }
      }
    ctx.count(c_cmp, pts_.size());
    ctx.count(c_changed, changed);
    ctx.count(c_far, far);
    if (kind >= N_OVERRIDES || changed > 0) ctx.nontrivial();
    if (idx % 37 == 3) ctx.sample(JObj().boolean("fault", fault).integer("coordinates", n).integer("overridden_coordinate", k).str("override", kind < N_OVERRIDES ? OVERRIDES[kind] : kind == N_OVERRIDES ? "none" : "none, additive section models")
                                    .integer("probes_changed", static_cast<long long>(changed)).integer("probes_required_unchanged", static_cast<long long>(far)).done());
  }
  // ---------- suite 3: a feature-level model that depends on the slab length sees the length of the section it is evaluated in ----------
  // mass conserving temperature (tip taper placed relative to the total length) on a slab whose section k is longer than the others: next to a coordinate
  // the answer must be that of a slab which has that coordinate's length everywhere (up to the small weight of the neighbouring section)
  void run_length_model(uint64_t idx, Ctx &ctx)
  {
    static const int c_cmp = Ctx::counter_id("answers_compared");
    const unsigned n = 3, k = static_cast<unsigned>(idx % 3);
    const double LB = 6e5, LO = 1e6;
    const std::string mc = "{\"model\":\"mass conserving\",\"density\":3300,\"spreading velocity\":0.05,\"subducting velocity\":0.05,\"ridge coordinates\":[[[-3e6,-2e6],[-3e6,2e6]]],\"coupling depth\":8e4,\"taper distance\":2e5,"
                           "\"min distance slab top\":-1e5,\"max distance slab top\":1e5,\"adiabatic heating\":" + std::string(idx / 3 ? "false" : "true") + "}";
    SecWorld var = base_secworld(false, n), ub = var, uo = var;
    var.feature_temperature = ub.feature_temperature = uo.feature_temperature = mc;
    var.length.assign(n, LB); ub.length.assign(n, LB); uo.length.assign(n, LO);
    var.length[k] = LO;
    const std::string tv = secworld_text(var), tb = secworld_text(ub), to = secworld_text(uo), tc = classifier_text(false, n, var.angle);
    auto wv = make_world(tv, 1, "v"), wb = make_world(tb, 1, "b"), wo = make_world(to, 1, "o"), wc = make_world(tc, 1, "c");
    const Request mreq = marker_request(n);
    uint64_t judged = 0, sensitive = 0;
    for (unsigned i = 0; i < n; ++i) for (double dy : {-2e3, 2e3}) for (double x = 0.5e5; x <= 6.5e5; x += 0.5e5) for (double d = 2.5e4; d <= 9.5e5; d += 5e4)
            {
              const double y = i * 2e5 + dy;
              if (y < 1e3 || y > (n - 1) * 2e5 - 1e3) continue;
              const P3 p = {{x, y, CART_TOP - d}};
              const std::vector<double> m = wc->properties(p, d, mreq);
              if (m[n] < 0) continue;
              unsigned j = 0; for (unsigned q = 1; q < n; ++q) if (m[q] > m[j]) j = q;
              if (m[j] < 0.98) continue;
              const std::vector<double> av = wv->properties(p, d, {{{1,0,0}},{{4,0,0}}});
              ctx.eval(); ctx.count(c_cmp);
              if (av[1] < 0) continue;
              // the slab that has the interpolated length of this location everywhere (one world per distinct length)
              double Lstar = 0;
              for (unsigned q = 0; q < n; ++q) Lstar += m[q] * var.length[q];
              SecWorld us = ub; us.length.assign(n, Lstar);
              const std::string tu = secworld_text(us);
              auto wu = make_world(tu, 1, "u");
              const std::vector<double> au = wu->properties(p, d, {{{1,0,0}},{{4,0,0}}});
              if (au[1] < 0) continue;
              const double spread = std::fabs(wo->properties(p, d, {{{1,0,0}}})[0] - wb->properties(p, d, {{{1,0,0}}})[0]);
              ++judged;
              if (spread > 1) ++sensitive;
              if (!(std::fabs(av[0] - au[0]) <= 1e-6 * std::fabs(au[0])))
                {
                  ctx.violation("C10/length-model/temperature-is-not-that-of-a-slab-with-the-interpolated-length",
                                JObj().str("what", "feature-level mass conserving temperature differs from the slab that has the length interpolated for this location everywhere")
                                .integer("longer_coordinate", k).integer("nearest_coordinate", j).num("weight_on_it", m[j]).num("interpolated_length", Lstar).raw("point", jarr(p)).num("depth", d).num("temperature", av[0]).num("uniform_slab_with_that_length", au[0])
                                .num("difference_between_600km_and_1000km_slabs_there", spread).str("world", tv).str("uniform_world", tu).done());
                  return;
                }
            }
    if (judged > 20 && sensitive > 0) ctx.nontrivial();
    ctx.sample(JObj().str("suite", "length model").integer("longer_coordinate", k).integer("probes_judged", static_cast<long long>(judged)).done());
  }

  // ---------- suite noop: a section without models of a kind takes part in the interpolation along strike with the incoming value ----------
  // World A: only the section entry of coordinate k carries a model of the kind (no feature-level model, none in the other sections).
  // World B: the other coordinates get explicit section entries with a model that does nothing (adds zero). The two worlds are the same logical world.
  void run_noop(uint64_t idx, Ctx &ctx)
  {
    static const int c_cmp = Ctx::counter_id("noop_probes_compared");
    // kind 0: composition, 1: temperature, 2: composition as in kind 0 next to a temperature model that world A inherits from the feature while world B writes it out in every section entry,
    // 3: velocity (uniform raw in the section of coordinate k; the other sections add the zero vector in world B)
    const bool fault = idx % 2; const int kind = static_cast<int>(idx / 2) % 4; const unsigned k = static_cast<unsigned>(idx / 8) % 3;
    const std::string seg0 = "{\"length\":3e5,\"thickness\":[1e5],\"angle\":[90]";
    const std::string tm900 = "\"temperature models\":[{\"model\":\"uniform\",\"temperature\":900}]";
    const std::string real = kind == 3 ? ",\"velocity models\":[{\"model\":\"uniform raw\",\"velocity\":[0.07,0.08,0.09]}]" : kind != 1 ? ",\"composition models\":[{\"model\":\"uniform\",\"compositions\":[0],\"fractions\":[0.8]}]" : "," + tm900;
    const std::string noop = kind == 3 ? ",\"velocity models\":[{\"model\":\"uniform raw\",\"velocity\":[0,0,0],\"operation\":\"add\"}]" : kind != 1 ? ",\"composition models\":[{\"model\":\"uniform\",\"compositions\":[0],\"fractions\":[0],\"operation\":\"add\"}]" : ",\"temperature models\":[{\"model\":\"uniform\",\"temperature\":0,\"operation\":\"add\"}]";
    auto feature = [&](bool with_noops)
    {
      std::string sec = "[";
      bool first = true;
      for (unsigned c = 0; c < 3; ++c)
        {
          if (c != k && !with_noops) continue;
          sec += std::string(first ? "" : ",") + "{\"coordinate\":" + std::to_string(c) + ",\"segments\":[" + seg0 + (c == k ? real : noop) + (kind == 2 && with_noops ? "," + tm900 : std::string()) + "}]}";
          first = false;
        }
      sec += "]";
      return std::string("{\"model\":\"") + (fault ? "fault" : "subducting plate") + "\",\"name\":\"F\",\"coordinates\":[[0,-3e5],[2e4,0],[0,3e5]],\"dip point\":[5e6,0],\"segments\":[" + seg0 + "}],"
             + (kind == 2 && !with_noops ? tm900 + "," : std::string()) + "\"sections\":" + sec + "}";
    };
    const std::string under = "{\"model\":\"mantle layer\",\"name\":\"U\",\"coordinates\":[[-9e5,-9e5],[9e5,-9e5],[9e5,9e5],[-9e5,9e5]],\"composition models\":[{\"model\":\"uniform\",\"compositions\":[0],\"fractions\":[0.25]}]}";
    const std::string ta = world(coord(false), {under, feature(false)}), tb = world(coord(false), {under, feature(true)});
    std::unique_ptr<World> a, b;
    try { a = make_world(ta, 1, "na"); b = make_world(tb, 1, "nb"); }
    catch (const std::exception &e) { ctx.violation("harness/world-rejected", JObj().str("what", std::string(e.what()).substr(0, 300)).str("world", ta).done()); return; }
    const Request req = {{{1,0,0}},{{2,0,0}},{{4,0,0}},{{5,0,0}}};
    size_t inside = 0, differing_from_background = 0, moving = 0;
    for (double x : {-4e4, -1e4, 1.5e4, 3e4}) for (double y = -2.9e5; y <= 2.9e5; y += 1.25e4) for (double d : {5e4, 1.5e5, 2.5e5})
          {
            const P3 p = query_point(false, x, y, d);
            const std::vector<double> va = a->properties(p, d, req), vb = b->properties(p, d, req);
            ctx.eval(); ctx.count(c_cmp);
            if (va[2] != 0) ++inside;
            if (kind != 1 && kind != 3 ? std::fabs(va[1] - 0.25) > 1e-3 : false) ++differing_from_background;
            if (std::fabs(va[3]) + std::fabs(va[4]) + std::fabs(va[5]) > 1e-3) ++moving;
            const bool same = va[2] == vb[2] && std::fabs(va[0] - vb[0]) <= 1e-9 * std::max(1.0, std::fabs(va[0])) && std::fabs(va[1] - vb[1]) <= 1e-12
                              && std::fabs(va[3] - vb[3]) <= 1e-12 && std::fabs(va[4] - vb[4]) <= 1e-12 && std::fabs(va[5] - vb[5]) <= 1e-12;
            if (!same)
              {
                ctx.violation(std::string("C10/noop/") + (fault ? "fault" : "subducting plate") + (kind == 0 ? "/composition" : kind == 1 ? "/temperature" : kind == 3 ? "/velocity" : "/composition-with-an-inherited-temperature-model") + "/sections-without-a-model-differ-from-sections-with-a-model-that-adds-zero",
                              JObj().integer("coordinate_carrying_the_model", k).raw("point", jarr(p)).num("depth", d).raw("only_one_section_has_a_model", jarr(va)).raw("other_sections_add_zero", jarr(vb)).str("world_a", ta).str("world_b", tb).done());
                return;
              }
          }
    if (inside > 50 && (kind == 1 || (kind == 3 ? moving > 10 : differing_from_background > 10))) ctx.nontrivial();
  }

  // ---------- suite reverse: the same trench listed from the other end (section entries renumbered) is the same body ----------
  void run_reverse(uint64_t idx, Ctx &ctx)
  {
    static const int c_cmp = Ctx::counter_id("reverse_probes_compared");
    const bool fault = idx % 2; const unsigned pattern = 1 + static_cast<unsigned>(idx / 2) % 7; const int shape = static_cast<int>(idx / 14) % 2;
    // thickness per coordinate: bit c of the pattern set -> 100 km, otherwise 0 (the body tapers out along strike towards that coordinate)
    const std::vector<P2> tr = shape == 0 ? std::vector<P2>{{{0,-3e5}},{{4e4,0}},{{0,3e5}}} : std::vector<P2>{{{-1e5,-3e5}},{{3e4,-0.5e5}},{{-2e4,3e5}}};
    auto feature = [&](bool reversed)
    {
      std::vector<P2> c = tr; if (reversed) std::reverse(c.begin(), c.end());
      std::string sec = "[";
      for (unsigned j = 0; j < 3; ++j)
        {
          const unsigned orig = reversed ? 2 - j : j;
          const double th = (pattern >> orig) & 1 ? 1e5 : 0.0;
          sec += std::string(j ? "," : "") + "{\"coordinate\":" + std::to_string(j) + ",\"segments\":[{\"length\":3e5,\"thickness\":[" + num(th) + "],\"angle\":[60],\"temperature models\":[{\"model\":\"uniform\",\"temperature\":" + num(600 + 100.0*orig) + "}]}]}";
        }
      sec += "]";
      return std::string("{\"model\":\"") + (fault ? "fault" : "subducting plate") + "\",\"name\":\"F\",\"coordinates\":" + pts(c) + ",\"dip point\":[5e6,0],\"segments\":[{\"length\":3e5,\"thickness\":[1e5],\"angle\":[60]}],\"sections\":" + sec + "}";
    };
    const std::string ta = world(coord(false), {feature(false)}), tb = world(coord(false), {feature(true)});
    std::unique_ptr<World> a, b;
    try { a = make_world(ta, 1, "ra"); b = make_world(tb, 1, "rb"); }
    catch (const std::exception &e) { ctx.violation("harness/world-rejected", JObj().str("what", std::string(e.what()).substr(0, 300)).str("world", ta).done()); return; }
    const Request req = {{{1,0,0}},{{4,0,0}}};
    size_t inside = 0;
    for (double x = -1.3e5; x <= 2.6e5; x += 1.3e4) for (double y = -2.93e5; y <= 2.95e5; y += 2.1e4) for (double d : {2e4, 8e4, 1.6e5, 2.4e5})
          {
            const P3 p = query_point(false, x, y, d);
            const std::vector<double> va = a->properties(p, d, req), vb = b->properties(p, d, req);
            ctx.eval(); ctx.count(c_cmp);
            if (va[1] != -1) ++inside;
            const bool same = va[1] == vb[1] && std::fabs(va[0] - vb[0]) <= 1e-6 * std::max(1.0, std::fabs(va[0]));
            if (!same)
              {
                // a probe within 1 m of the body's surface may fall on either side
                bool robust = true;
                for (double dx : {-1.0, 1.0}) for (double dd : {-1.0, 1.0}) { const P3 q = query_point(false, x + dx, y, d + dd); if (a->properties(q, d + dd, req)[1] != va[1]) robust = false; }
                if (!robust) continue;
                ctx.violation(std::string("C10/reverse/") + (fault ? "fault" : "subducting plate") + "/trench-listed-from-the-other-end-gives-another-body",
                              JObj().integer("thickness_pattern_bits", pattern).raw("point", jarr(p)).num("depth", d).raw("listed_forward", jarr(va)).raw("listed_backward", jarr(vb)).str("world_forward", ta).str("world_backward", tb).done());
                return;
              }
          }
    if (inside > 50) ctx.nontrivial();
  }

  // ---------- suite emptylists: a section that declares empty model lists has no models of that kind, wherever the empty lists are written ----------
  // The feature carries temperature and composition models; the section entry of coordinate k switches them off with empty lists, written
  // at the level of the section entry (world A) or inside its segment (world B).
  void run_emptylists(uint64_t idx, Ctx &ctx)
  {
    static const int c_cmp = Ctx::counter_id("noop_probes_compared");
    const bool fault = idx % 2; const unsigned k = static_cast<unsigned>(idx / 2) % 3;
    const std::string geo = "\"length\":3e5,\"thickness\":[1e5],\"angle\":[90]";
    const std::string empty = "\"temperature models\":[],\"composition models\":[]";
    auto feature = [&](bool in_segment)
    {
      const std::string sec = in_segment ? "[{\"coordinate\":" + std::to_string(k) + ",\"segments\":[{" + geo + "," + empty + "}]}]"
                                          : "[{\"coordinate\":" + std::to_string(k) + "," + empty + ",\"segments\":[{" + geo + "}]}]";
      return std::string("{\"model\":\"") + (fault ? "fault" : "subducting plate") + "\",\"name\":\"F\",\"coordinates\":[[0,-3e5],[2e4,0],[0,3e5]],\"dip point\":[5e6,0],\"segments\":[{" + geo + "}],"
             "\"temperature models\":[{\"model\":\"uniform\",\"temperature\":700}],\"composition models\":[{\"model\":\"uniform\",\"compositions\":[1]}],\"sections\":" + sec + "}";
    };
    const std::string ta = world(coord(false), {feature(false)}), tb = world(coord(false), {feature(true)});
    std::unique_ptr<World> a, b;
    try { a = make_world(ta, 1, "ea"); b = make_world(tb, 1, "eb"); }
    catch (const std::exception &e) { ctx.violation("harness/world-rejected", JObj().str("what", std::string(e.what()).substr(0, 300)).str("world", ta).done()); return; }
    const Request req = {{{1,0,0}},{{2,1,0}},{{4,0,0}}};
    size_t inside = 0, switched_off = 0;
    for (double x : {-4e4, -1e4, 1.5e4, 3e4}) for (double y = -2.9e5; y <= 2.9e5; y += 1.25e4) for (double d : {5e4, 1.5e5, 2.5e5})
          {
            const P3 p = query_point(false, x, y, d);
            const std::vector<double> va = a->properties(p, d, req), vb = b->properties(p, d, req);
            ctx.eval(); ctx.count(c_cmp);
            if (vb[2] == 0) { ++inside; if (vb[1] < 0.99) ++switched_off; }
            const bool same = va[2] == vb[2] && std::fabs(va[0] - vb[0]) <= 1e-9 * std::max(1.0, std::fabs(va[0])) && std::fabs(va[1] - vb[1]) <= 1e-12;
            if (!same)
              {
                ctx.violation(std::string("C10/emptylists/") + (fault ? "fault" : "subducting plate") + "/empty-lists-in-the-section-entry-differ-from-empty-lists-in-its-segment",
                              JObj().integer("coordinate_with_the_empty_lists", k).raw("point", jarr(p)).num("depth", d).raw("empty_lists_in_the_section_entry", jarr(va)).raw("empty_lists_in_the_segment", jarr(vb)).str("world_a", ta).str("world_b", tb).done());
                return;
              }
          }
    if (inside > 50 && switched_off > 10) ctx.nontrivial();
  }
}

int main(int argc, char **argv)
{
  Spec spec;
  spec.property = "C10";
  spec.level = "exploration";
  spec.rule = "suite layouts: full product {slab, fault} x {1,2} segments x placement of each of the four model kinds in {feature, section entries, every segment, feature + default segments only (explicit sections fall through to the feature)} (4^4) x every subset of coordinates carrying an explicit section entry "
              "(2^n, n = 2,3 | 2,3,4,5); every layout is compared bit-for-bit with the feature-level layout of the same logical world. suite sections: {slab, fault} x n coordinates x overridden coordinate k x override kind "
              "{thickness, length, top truncation, uniform temperature, composition, dip angle, two-valued top truncation, two-valued thickness, first / second of two segments with length zero at that coordinate, none, none with additive (operation add) section models}; section weights are read through classifier worlds whose section j paints composition j. "
              "non-trivial: more than 20 probes inside the feature (layouts) / the override changed at least one probe (sections)";
  spec.assumptions = {"the trench parameter of a probe is observed, not computed: a classifier world with the same trench and dips paints composition j in section j, so the returned compositions are the interpolation weights",
                      "locality: a probe with zero weight on the overridden section must answer bit-identically; extent: membership must equal top truncation <= distance from plane <= thickness and 0 <= distance along plane <= length with the three quantities interpolated with the observed weights (probes within 1 mm of a limit are skipped and counted)",
                      "trenches are gently bent (no three collinear coordinates: see the known C19 finding about exactly collinear coordinates)"
                     };
  spec.counters = {"noop_probes_compared", "reverse_probes_compared", "answers_compared", "answers_inside_the_feature", "probes_changed_by_an_override", "probes_outside_the_neighbour_range_checked_unchanged", "convexity_checks", "membership_checks_against_interpolated_extent", "skipped_near_boundary", "coarse_planar_geometry_checks"};
  spec.quick_deadline_s = 240;
  spec.thorough_deadline_s = 1200;
  return driver(argc, argv, spec, [](const std::string &tier)
  {
    const bool th = tier == "thorough";
    static std::vector<unsigned> ns, ns2;
    ns = th ? std::vector<unsigned>{2, 3, 4, 5} : std::vector<unsigned>{2, 3};
    ns2 = th ? std::vector<unsigned>{2, 3, 4, 5, 6} : std::vector<unsigned>{3, 4};
    uint64_t subsets = 0, ks = 0;
    for (unsigned n : ns) subsets += 1ull << n;
    for (unsigned n : ns2) ks += n;
    std::vector<Suite> s(6);
    s[5].name = "emptylists"; s[5].n = 6; s[5].run = run_emptylists;
    s[5].bound = "{slab, fault} x the coordinate of three whose section entry switches the feature-level temperature and composition models off with empty lists: written in the section entry vs written in its segment, 564 probes each";
    s[4].name = "reverse"; s[4].n = 28; s[4].run = run_reverse;
    s[4].bound = "{slab, fault} x 7 patterns of {100 km, 0} thickness at the three coordinates (the body tapers out along strike) x 2 bent trenches: the world with the coordinates listed from the other end and the section entries renumbered, 3480 probes each";
    s[3].name = "noop"; s[3].n = 24; s[3].run = run_noop;
    s[3].bound = "{slab, fault} x {composition, temperature, composition next to a temperature model inherited from the feature (written out in every section entry of the twin)} x the one coordinate of three whose section entry carries a model: compared with the world whose other section entries carry a model that adds zero, 564 probes each";
    s[2].name = "lengthmodel"; s[2].n = 6; s[2].run = run_length_model;
    s[2].bound = "slab with 3 coordinates, section k in {0,1,2} 1000 km long, the others 600 km, feature-level mass conserving temperature (adiabatic heating on / off): probes within 2 km of every coordinate x 25 down-dip positions x 19 depths each compared with the uniform slab that has the interpolated length of that location";
    s[0].name = "layouts";
    s[0].n = 2 * 2 * NPLACEMENTS * subsets;
    s[0].run = [](uint64_t i, Ctx &c) { run_layout(ns, i, c); };
    s[0].bound = "{slab, fault} x {1, 2} segments x 4^4 placements x all subsets of coordinates with explicit sections for n in " + std::string(th ? "{2,3,4,5}" : "{2,3}") + " coordinates";
    s[1].name = "sections";
    s[1].n = 2 * (N_OVERRIDES + 2) * ks;
    s[1].run = [](uint64_t i, Ctx &c) { run_sections(ns2, i, c); };
    s[1].bound = "{slab, fault} x 12 kinds (10 overrides, none, none with additive section models) x every coordinate k of trenches with n in " + std::string(th ? "{2,3,4,5,6}" : "{3,4}") + " coordinates";
    return s;
  });
}
