// VARIANTS: san
// C13 - queries on a built world are total and return finite numbers (ASan+UBSan build).
// Worlds: sane-parameter worlds of every family plus schema-valid degenerate parameters; points chosen ON the
// degenerate loci (vertices, edge midpoints, trench points and ends, slab tip, joints, arc centres, depth 0 and the
// min/max depths, poles, +-180 meridian, centre of the sphere, plume axis and rim).
#include "kit.h"
#include "worlds.h"
using namespace kit;
using namespace wbgen;
using WorldBuilder::World;

namespace
{
  struct Pt { double x, y, depth; bool raw_cartesian; P3 raw; const char *what; };
  struct WCase { std::string family, text; bool sph; std::vector<Pt> pts; bool has_cs; };

  const std::vector<Request> REQS =
  {
    {{{1,0,0}}}, {{{2,0,0}}}, {{{2,1,0}}}, {{{3,0,1}}}, {{{3,1,3}}}, {{{4,0,0}}}, {{{5,0,0}}},
    {{{1,0,0}},{{2,0,0}},{{4,0,0}},{{5,0,0}}}, {{{3,0,2}},{{5,0,0}},{{1,0,0}}}, {{{4,0,0}},{{2,1,0}},{{3,1,1}},{{1,0,0}},{{1,0,0}}}
  };

  void add_lattice(WCase &w, double s, const std::vector<double> &depths)
  {
    for (double x : {-4.5, -2.0, 0.0, 0.5, 1.0, 1.5, 2.5, 4.5, 7.0}) for (double y : {-4.0, -1.2, 0.0, 0.5, 2.0, 6.0}) for (double d : depths)
          w.pts.push_back({x*s, y*s, d, false, {{0,0,0}}, "lattice"});
  }
  void add_special(WCase &w, const std::vector<P2> &xy, const std::vector<double> &depths, const char *what)
  {
    for (auto &p : xy) for (double d : depths) w.pts.push_back({p[0], p[1], d, false, {{0,0,0}}, what});
  }
  void add_global_specials(WCase &w)
  {
    if (w.sph)
      {
        for (double d : {0.0, 1e5}) for (double lat : {90.0, -90.0}) w.pts.push_back({0, lat, d, false, {{0,0,0}}, "pole"});
        for (double d : {0.0, 1e5}) for (double lat : {0.0, 45.0}) { w.pts.push_back({180, lat, d, false, {{0,0,0}}, "meridian +180"}); w.pts.push_back({-180, lat, d, false, {{0,0,0}}, "meridian -180"}); }
        w.pts.push_back({0, 0, R_EARTH, true, {{0,0,0}}, "centre of the sphere"});
        w.pts.push_back({0, 0, R_EARTH - 1.0, true, {{0,0,1.0}}, "1 m from the centre"});
        // depth and position are independent arguments: the centre of the planet with a small depth (radius + depth - min depth = 0 inside some models)
        for (double d : {0.0, 1.0, 5e4, 1e5}) w.pts.push_back({0, 0, d, true, {{0,0,0}}, "centre of the sphere, depth given independently"});
      }
    else
      {
        // cartesian points whose height plus depth is zero (the surface height a slab derives from the query)
        w.pts.push_back({0, 0, 1e5, true, {{1e5, 0, -1e5}}, "z + depth = 0"});
        w.pts.push_back({0, 0, 0, true, {{1.1e5, 2e5, 0}}, "z = depth = 0"});
        w.pts.push_back({0, 0, 5e4, true, {{1.5e5, -2e5, -5e4}}, "z + depth = 0"});
      }
  }

  // ---- family 1: rich worlds ----
  void family_rich(std::vector<WCase> &out)
  {
    for (int k = 0; k < 6; ++k)
      {
        worlds::Opt o;
        o.spherical = k % 2 == 1; o.variant = (k / 2) % 2; o.force_surface = k >= 4; o.random_models = k >= 4; o.cross_section = true;
        WCase w; w.family = "rich"; w.sph = o.spherical; w.has_cs = true; w.text = worlds::rich(o);
        const double s = o.spherical ? 1.0 : 1e5;
        const std::vector<double> depths = {0.0, 2e4, 1e5, 1.5e5, 3.5e5, 4e5, 6e5};
        add_lattice(w, s, depths);
        const double sh = o.variant == 1 ? 0.5 : 0.0;
        add_special(w, {{{(-5+sh)*s,-5*s}}, {{(0+sh)*s,-5*s}}, {{(5+sh)*s,5*s}}, {{(0+sh)*s,0}}, {{(-2.5+sh)*s,-5*s}}, {{(5+sh)*s,0}}}, depths, "polygon vertex / edge midpoint");
        add_special(w, {{{(1+sh)*s,-4*s}}, {{(1.2+sh)*s,0}}, {{(1+sh)*s,4*s}}, {{(1.1+sh)*s,-2*s}}, {{(-4+sh)*s,-1*s}}, {{(-1+sh)*s,-1.5*s}}, {{(-2.5+sh)*s,-1.25*s}}}, {0.0, 1e3, 1e5, 2e5, 3.5e5}, "trench coordinate / trench midpoint");
        add_special(w, {{{(-2+sh)*s,2*s}}, {{(-2.2+sh)*s,2.1*s}}, {{(-2.5+sh)*s,2.5*s}}, {{(-0.8+sh)*s,2*s}}}, {2e4, 1e5, 2e5, 4e5, 6e5}, "plume axis / rim");
        add_special(w, {{{(20+sh)*s,0}}, {{(0+sh)*s,-20*s}}}, {0.0, 1e5}, "dip point");
        add_global_specials(w);
        out.push_back(w);
      }
  }

  // ---- family 2: slabs and faults, sane and degenerate segment tables ----
  void family_line(std::vector<WCase> &out, bool thorough)
  {
    struct Seg { const char *name; std::string segs; bool degenerate; };
    const std::vector<Seg> tables =
    {
      {"straight 45", "[{\"length\":2e5,\"thickness\":[1e5],\"angle\":[45]}]", false},
      {"arc 30-60 + straight", "[{\"length\":2e5,\"thickness\":[8e4],\"angle\":[30,60]},{\"length\":1.5e5,\"thickness\":[8e4,6e4],\"angle\":[60]}]", false},
      {"vertical", "[{\"length\":2e5,\"thickness\":[1e5],\"angle\":[90]}]", false},
      {"overturning arc 90-120", "[{\"length\":1e5,\"thickness\":[1e5],\"angle\":[90]},{\"length\":1e5,\"thickness\":[1e5],\"angle\":[90,120]}]", false},
      {"top truncation", "[{\"length\":2e5,\"thickness\":[1e5],\"top truncation\":[-2e4,3e4],\"angle\":[45]}]", false},
      {"zero thickness", "[{\"length\":2e5,\"thickness\":[0],\"angle\":[45]}]", true},
      {"zero length", "[{\"length\":0,\"thickness\":[1e5],\"angle\":[45]}]", true},
      {"zero length second segment", "[{\"length\":2e5,\"thickness\":[1e5],\"angle\":[45]},{\"length\":0,\"thickness\":[1e5],\"angle\":[45]}]", true},
      {"dip 0", "[{\"length\":2e5,\"thickness\":[1e5],\"angle\":[0]}]", true},
      {"dip 180", "[{\"length\":2e5,\"thickness\":[1e5],\"angle\":[180]}]", true},
      {"dip 0 to 90 arc", "[{\"length\":2e5,\"thickness\":[1e5],\"angle\":[0,90]}]", true},
      {"nearly equal dips", "[{\"length\":2e5,\"thickness\":[1e5],\"angle\":[45,45.0000001]}]", true},
    };
    const std::vector<std::pair<const char *, std::string>> tmodels_slab =
    {
      {"linear", "{\"model\":\"linear\",\"max distance slab top\":1e5}"},
      {"plate model", "{\"model\":\"plate model\",\"density\":3300,\"plate velocity\":0.02}"},
      {"mass conserving", "{\"model\":\"mass conserving\",\"density\":3300,\"spreading velocity\":0.05,\"subducting velocity\":0.05,\"ridge coordinates\":[[[RX0,-10UY],[RX0,10UY]]],\"coupling depth\":8e4,\"taper distance\":5e4,\"min distance slab top\":-2e5,\"max distance slab top\":3e5}"},
      {"plate model v=0", "{\"model\":\"plate model\",\"density\":3300,\"plate velocity\":0}"},
      {"mass conserving v=0", "{\"model\":\"mass conserving\",\"density\":3300,\"spreading velocity\":0,\"subducting velocity\":0,\"ridge coordinates\":[[[RX0,-10UY],[RX0,10UY]]],\"min distance slab top\":-2e5,\"max distance slab top\":3e5}"},
    };
    for (int sph = 0; sph < 2; ++sph) for (int fault = 0; fault < 2; ++fault) for (size_t it = 0; it < tables.size(); ++it)
          {
            if (!thorough && tables[it].degenerate && sph == 1 && fault == 1) continue;
            const size_t ntm = fault ? 1 : tmodels_slab.size();
            for (size_t im = 0; im < ntm; ++im)
              {
                if (im >= 1 && it >= 2 && !thorough) continue;          // quick: thermal models on the two sane arcs only
                if (im >= 3 && !thorough && it != 0) continue;
                const double s = sph ? 1.0 : 1e5;
                WCase w; w.sph = sph; w.has_cs = false;
                w.family = std::string(fault ? "fault/" : "slab/") + tables[it].name + "/" + (fault ? "linear" : tmodels_slab[im].first);
                std::string tm = fault ? "{\"model\":\"linear\",\"max distance fault center\":5e4,\"center temperature\":900,\"side temperature\":1100}" : tmodels_slab[im].second;
                auto rep = [&](std::string &t, const std::string &a, const std::string &b) { size_t p; while ((p = t.find(a)) != std::string::npos) t.replace(p, a.size(), b); };
                rep(tm, "RX0", num(-6*s)); rep(tm, "UY", "*" ); // placeholder handled below
                // ridge coordinates: x = -6 units, y from -10 to 10 units
                { size_t p; while ((p = tm.find("-10*")) != std::string::npos) tm.replace(p, 4, num(-10*s)); while ((p = tm.find("10*")) != std::string::npos) tm.replace(p, 3, num(10*s)); }
                const std::string feat = "{\"model\":\"" + std::string(fault ? "fault" : "subducting plate") + "\",\"name\":\"L\",\"coordinates\":[" + pt({0,-3*s}) + "," + pt({0.5*s,0}) + "," + pt({0,3*s}) +
                                         "],\"dip point\":" + pt({9*s,0}) + ",\"segments\":" + tables[it].segs + ",\"temperature models\":[" + tm + "],"
                                         "\"composition models\":[{\"model\":\"uniform\",\"compositions\":[0]}],\"grains models\":[" + worlds::uniform_grains("[1]", 1, 20) + "],"
                                         "\"velocity models\":[{\"model\":\"uniform raw\",\"velocity\":[0.01,0,-0.01]}]}";
                const std::string ocean = "{\"model\":\"oceanic plate\",\"name\":\"O\",\"max depth\":1e5,\"coordinates\":" + pts({{-8*s,-8*s},{8*s,-8*s},{8*s,8*s},{-8*s,8*s}}) +
                                          ",\"temperature models\":[{\"model\":\"half space model\",\"max depth\":1e5,\"spreading velocity\":0.05,\"ridge coordinates\":[[" + pt({-6*s,-10*s}) + "," + pt({-6*s,10*s}) + "]]}]}";
                w.text = world(coord(sph), {ocean, feat});
                const std::vector<double> depths = {0.0, 1.0, 5e4, 1e5, 1.41421356e5, 2e5, 3e5};
                add_special(w, {{{0,-3*s}}, {{0.5*s,0}}, {{0,3*s}}, {{0.25*s,-1.5*s}}, {{0.25*s,1.5*s}}}, depths, "trench coordinate / trench midpoint");
                // straight below / along the slab: tip (45 degree, length 2e5 -> horizontal 1.414e5, depth 1.414e5), joints, arc centres
                for (double off : {0.0, 0.5, 1.0, 1.41421356, 2.0, 3.0, -1.0})
                  for (double y : {0.0, -1.5, 3.0, 3.0000001, -3.5})
                    for (double d : depths) w.pts.push_back({(0.5 + off)*s, y*s, d, false, {{0,0,0}}, "down-dip of the trench (tip, joints, arc centres)"});
                add_special(w, {{{9*s,0}}}, {0.0, 1e5}, "dip point");
                add_global_specials(w);
                out.push_back(w);
              }
          }
  }

  // ---- family 3: area features and plumes with degenerate geometry / parameters ----
  void family_area_in(std::vector<WCase> &out, bool sph)
  {
    struct A { const char *name; std::string feat_cart; };
    const double s = sph ? 1.0 : 1e5;
    auto sqs = [&](double x0, double x1, double y0, double y1) { return pts({{x0*s,y0*s},{x1*s,y0*s},{x1*s,y1*s},{x0*s,y1*s}}); };
    const std::string ridge = "\"ridge coordinates\":[[" + pt({1*s,-6*s}) + "," + pt({1*s,6*s}) + "]]";
    const std::vector<A> feats =
    {
      {"collinear polygon", "{\"model\":\"continental plate\",\"name\":\"A\",\"coordinates\":" + pts({{0,0},{2*s,0},{4*s,0}}) + ",\"temperature models\":[{\"model\":\"uniform\",\"temperature\":500}]}"},
      {"duplicate vertex", "{\"model\":\"continental plate\",\"name\":\"A\",\"coordinates\":" + pts({{0,0},{4*s,0},{4*s,0},{4*s,4*s},{0,4*s}}) + ",\"temperature models\":[{\"model\":\"linear\",\"max depth\":1e5}]}"},
      {"min depth = max depth", "{\"model\":\"mantle layer\",\"name\":\"A\",\"min depth\":1e5,\"max depth\":1e5,\"coordinates\":" + sqs(0,4,0,4) + ",\"temperature models\":[{\"model\":\"linear\",\"min depth\":1e5,\"max depth\":1e5,\"top temperature\":300,\"bottom temperature\":400}]}"},
      {"linear model max depth 0", "{\"model\":\"continental plate\",\"name\":\"A\",\"max depth\":1e5,\"coordinates\":" + sqs(0,4,0,4) + ",\"temperature models\":[{\"model\":\"linear\",\"max depth\":0}]}"},
      {"half space, zero spreading velocity", "{\"model\":\"oceanic plate\",\"name\":\"A\",\"max depth\":1e5,\"coordinates\":" + sqs(0,4,0,4) + ",\"temperature models\":[{\"model\":\"half space model\",\"max depth\":1e5,\"spreading velocity\":0," + ridge + "}]}"},
      {"plate model, zero spreading velocity", "{\"model\":\"oceanic plate\",\"name\":\"A\",\"max depth\":1e5,\"coordinates\":" + sqs(0,4,0,4) + ",\"temperature models\":[{\"model\":\"plate model\",\"max depth\":1e5,\"spreading velocity\":0," + ridge + "}]}"},
      {"plate model on the ridge", "{\"model\":\"oceanic plate\",\"name\":\"A\",\"max depth\":1e5,\"coordinates\":" + sqs(0,4,0,4) + ",\"temperature models\":[{\"model\":\"plate model\",\"max depth\":1e5,\"spreading velocity\":0.05," + ridge + "}]}"},
      {"half space on the ridge", "{\"model\":\"oceanic plate\",\"name\":\"A\",\"max depth\":1e5,\"coordinates\":" + sqs(0,4,0,4) + ",\"temperature models\":[{\"model\":\"half space model\",\"max depth\":1e5,\"spreading velocity\":0.05," + ridge + "}]}"},
      {"plate model constant age 0", "{\"model\":\"oceanic plate\",\"name\":\"A\",\"max depth\":1e5,\"coordinates\":" + sqs(0,4,0,4) + ",\"temperature models\":[{\"model\":\"plate model constant age\",\"max depth\":1e5,\"plate age\":0}]}"},
      {"plate model max depth 0", "{\"model\":\"oceanic plate\",\"name\":\"A\",\"max depth\":1e5,\"coordinates\":" + sqs(0,4,0,4) + ",\"temperature models\":[{\"model\":\"plate model\",\"max depth\":0,\"spreading velocity\":0.05," + ridge + "}]}"},
      {"linear layer starting at the plate bottom", "{\"model\":\"continental plate\",\"name\":\"A\",\"max depth\":1e5,\"coordinates\":" + sqs(0,4,0,4) + ",\"temperature models\":[{\"model\":\"linear\",\"min depth\":1e5,\"max depth\":2e5,\"top temperature\":300,\"bottom temperature\":1500}]}"},
      {"linear layer ending at the plate top", "{\"model\":\"continental plate\",\"name\":\"A\",\"min depth\":1e5,\"max depth\":2e5,\"coordinates\":" + sqs(0,4,0,4) + ",\"temperature models\":[{\"model\":\"linear\",\"min depth\":0,\"max depth\":1e5,\"top temperature\":300,\"bottom temperature\":-1}]}"},
      {"oceanic linear layer starting at the plate bottom", "{\"model\":\"oceanic plate\",\"name\":\"A\",\"max depth\":1e5,\"coordinates\":" + sqs(0,4,0,4) + ",\"temperature models\":[{\"model\":\"linear\",\"min depth\":1e5,\"max depth\":2e5,\"top temperature\":300,\"bottom temperature\":1500}]}"},
      {"mantle linear layer ending at the layer top", "{\"model\":\"mantle layer\",\"name\":\"A\",\"min depth\":1e5,\"max depth\":2e5,\"coordinates\":" + sqs(0,4,0,4) + ",\"temperature models\":[{\"model\":\"linear\",\"min depth\":0,\"max depth\":1e5,\"top temperature\":-1,\"bottom temperature\":1500}]}"},
      {"chapman layer starting at the plate bottom", "{\"model\":\"continental plate\",\"name\":\"A\",\"max depth\":1e5,\"coordinates\":" + sqs(0,4,0,4) + ",\"temperature models\":[{\"model\":\"chapman\",\"min depth\":1e5,\"max depth\":2e5}]}"},
      {"chapman", "{\"model\":\"continental plate\",\"name\":\"A\",\"max depth\":2e5,\"coordinates\":" + sqs(0,4,0,4) + ",\"temperature models\":[{\"model\":\"chapman\",\"max depth\":2e5}]}"},
      {"depth surface with one point", "{\"model\":\"continental plate\",\"name\":\"A\",\"max depth\":[[1e5,[" + pt({2*s,2*s}) + "]]],\"coordinates\":" + sqs(0,4,0,4) + ",\"temperature models\":[{\"model\":\"linear\",\"max depth\":[[1e5,[" + pt({2*s,2*s}) + "]]]}]}"},
      {"depth surface on a corner", "{\"model\":\"oceanic plate\",\"name\":\"A\",\"max depth\":[[2e5],[1e5,[" + pt({0,0}) + "," + pt({4*s,4*s}) + "]]],\"coordinates\":" + sqs(0,4,0,4) + ",\"temperature models\":[{\"model\":\"uniform\",\"temperature\":500}]}"},
      {"plume eccentricity 1", "{\"model\":\"plume\",\"name\":\"A\",\"coordinates\":[" + pt({2*s,2*s}) + "," + pt({2*s,2*s}) + "],\"cross section depths\":[1e5,3e5],\"semi-major axis\":[1e5,1e5],\"eccentricity\":[1,1],\"rotation angles\":[0,0],\"temperature models\":[{\"model\":\"gaussian\",\"centerline temperatures\":[100],\"gaussian sigmas\":[0.3],\"depths\":[0]}]}"},
      {"plume zero axis", "{\"model\":\"plume\",\"name\":\"A\",\"coordinates\":[" + pt({2*s,2*s}) + "," + pt({2*s,2*s}) + "],\"cross section depths\":[1e5,3e5],\"semi-major axis\":[0,1e5],\"eccentricity\":[0,0],\"rotation angles\":[0,0],\"temperature models\":[{\"model\":\"uniform\",\"temperature\":1800}]}"},
      {"plume one section, head of zero height", "{\"model\":\"plume\",\"name\":\"A\",\"min depth\":1e5,\"coordinates\":[" + pt({2*s,2*s}) + "],\"cross section depths\":[1e5],\"semi-major axis\":[1e5],\"eccentricity\":[0.5],\"rotation angles\":[30],\"temperature models\":[{\"model\":\"gaussian\",\"centerline temperatures\":[100,200],\"gaussian sigmas\":[0.3,0.3],\"depths\":[0,2e5]}]}"},
      {"plume equal section depths", "{\"model\":\"plume\",\"name\":\"A\",\"coordinates\":[" + pt({2*s,2*s}) + "," + pt({2.5*s,2*s}) + "],\"cross section depths\":[1e5,1e5],\"semi-major axis\":[1e5,2e5],\"eccentricity\":[0,0.5],\"rotation angles\":[0,90],\"temperature models\":[{\"model\":\"uniform\",\"temperature\":1800}]}"},
      {"gaussian equal depths", "{\"model\":\"plume\",\"name\":\"A\",\"coordinates\":[" + pt({2*s,2*s}) + "," + pt({2*s,2*s}) + "],\"cross section depths\":[1e5,3e5],\"semi-major axis\":[1e5,1e5],\"eccentricity\":[0,0],\"rotation angles\":[0,0],\"temperature models\":[{\"model\":\"gaussian\",\"centerline temperatures\":[100,200],\"gaussian sigmas\":[0.3,0.3],\"depths\":[2e5,2e5]}]}"},
    };
    for (auto &f : feats)
      {
        WCase w; w.sph = sph; w.has_cs = false; w.family = std::string(sph ? "area (spherical)/" : "area/") + f.name;
        w.text = world(coord(sph), {f.feat_cart});
        const std::vector<double> depths = {0.0, 1.0, 5e4, 1e5, 1.5e5, 2e5, 3e5, 4e5};
        add_special(w, {{{0,0}}, {{4*s,0}}, {{4*s,4*s}}, {{0,4*s}}, {{2*s,0}}, {{2*s,2*s}}, {{1*s,2*s}}, {{1*s,0}}, {{3*s,2*s}}, {{2.5*s,2*s}}, {{2*s,3*s}}, {{2*s,2.5*s}}, {{9*s,9*s}}, {{2.0000001*s,2*s}}}, depths, "vertices, edges, ridge, plume axis and rim");
        add_global_specials(w);
        out.push_back(w);
      }
  }

  void family_area(std::vector<WCase> &out, bool thorough)
  {
    (void)thorough;
    family_area_in(out, false);
    family_area_in(out, true);
  }

  // ---- family 4: degenerate cross section (2-D interface) ----
  void family_cs(std::vector<WCase> &out)
  {
    for (int sph = 0; sph < 2; ++sph)
      {
        worlds::Opt o; o.spherical = sph; o.cross_section = true; o.custom_cs = true; o.cs0 = {{1, 1}}; o.cs1 = {{1, 1}};   // both section points coincide
        WCase w; w.sph = sph; w.has_cs = true; w.family = "cross section with coincident points"; w.text = worlds::rich(o);
        add_lattice(w, sph ? 1.0 : 1e5, {0.0, 1e5});
        out.push_back(w);
      }
  }

  // ---- family 5: slabs and faults next to a pole, queried on and around the rotation axis ----
  // At a pole the longitude of the query point is arbitrary and the closest-point iteration on the trench curve may not converge:
  // a std::exception is fine, a crash or a hang is not.
  void family_polar(std::vector<WCase> &out)
  {
    struct Tr { const char *name; std::string coords; };
    const std::vector<Tr> trenches =
    {
      {"short nearly east-west trench at latitude 80", "[[10,80],[10.1,79.99999]]"},
      {"short east-west trench at latitude 85", "[[-30,85],[-29.8,85]]"},
      {"trench along a meridian ending 2 degrees from the pole", "[[40,80],[40,88]]"},
      {"bent trench around the pole", "[[0,86],[90,87],[180,86]]"},
      {"short nearly east-west trench at latitude -80", "[[100,-80],[100.1,-79.99999]]"},
    };
    for (int fault = 0; fault < 2; ++fault) for (auto &tr : trenches)
        {
          WCase w; w.sph = true; w.has_cs = false;
          w.family = std::string(fault ? "fault" : "slab") + " near a pole/" + tr.name;
          const std::string feat = "{\"model\":\"" + std::string(fault ? "fault" : "subducting plate") + "\",\"name\":\"L\",\"coordinates\":" + tr.coords + ",\"dip point\":[0,0],"
                                   "\"segments\":[{\"length\":1.5e6,\"thickness\":[1e5],\"angle\":[45]}],\"temperature models\":[{\"model\":\"uniform\",\"temperature\":600}],"
                                   "\"composition models\":[{\"model\":\"uniform\",\"compositions\":[0]}]}";
          w.text = world(coord(true), {feat});
          const double south = tr.coords.find("-80") != std::string::npos ? -1.0 : 1.0;
          for (double d : {0.0, 1e5, 5e5, 1e6})
            {
              const double r = R_EARTH - d;
              w.pts.push_back({0, 0, d, true, {{0, 0, south*r}}, "exactly on the rotation axis"});
              for (int k = 0; k < 24; ++k)
                for (double off : {1e-6, 1e-3, 1.0, 1e3})
                  w.pts.push_back({0, 0, d, true, {{off*std::cos(k*PI/12), off*std::sin(k*PI/12), south*std::sqrt(r*r - off*off)}}, "next to the rotation axis"});
              for (double lon : {0.0, 10.05, 90.0, 180.0, -90.0}) for (double lat : {89.999999, 89.9, 89.0, 85.0, 80.0})
                  w.pts.push_back({lon, south*lat, d, false, {{0,0,0}}, "polar cap"});
            }
          out.push_back(w);
        }
  }

  // ---- family 6: thermal models of slabs with parameters at zero where zero is a meaningful setting ----
  void family_zero_parameters(std::vector<WCase> &out)
  {
    struct Z { const char *name; std::string extra; };
    const std::vector<Z> zs =
    {
      {"forearc cooling factor 0", "\"forearc cooling factor\":0"},
      {"coupling depth 0", "\"coupling depth\":0"},
      {"taper distance 0", "\"taper distance\":0"},
      {"forearc cooling factor 0, coupling depth 0, taper distance 0", "\"forearc cooling factor\":0,\"coupling depth\":0,\"taper distance\":0"},
      {"taper longer than the slab", "\"taper distance\":9e5"},
      {"coupling depth below the slab tip", "\"coupling depth\":9e5"},
      {"spline", "\"apply spline\":true,\"number of points in spline\":5"},
      {"spline with one point", "\"apply spline\":true,\"number of points in spline\":1"},
    };
    for (int sph = 0; sph < 2; ++sph) for (double ridge_x : {-0.2, -6.0}) for (auto &z : zs)
          {
            const double s = sph ? 1.0 : 1e5;
            WCase w; w.sph = sph; w.has_cs = false;
            w.family = std::string("slab/mass conserving with ") + z.name + (ridge_x > -1 ? ", ridge next to the trench" : ", ridge far from the trench");
            const std::string ridge = "[[" + pt({ridge_x*s, -10*s}) + "," + pt({ridge_x*s, 10*s}) + "]]";
            const std::string tm = "{\"model\":\"mass conserving\",\"density\":3300,\"spreading velocity\":0.05,\"subducting velocity\":0.05,\"ridge coordinates\":" + ridge + ",\"min distance slab top\":-2e5,\"max distance slab top\":3e5," + z.extra + "}";
            const std::string feat = "{\"model\":\"subducting plate\",\"name\":\"L\",\"coordinates\":[" + pt({0,-3*s}) + "," + pt({0.5*s,0}) + "," + pt({0,3*s}) + "],\"dip point\":" + pt({9*s,0}) +
                                     ",\"segments\":[{\"length\":4e5,\"thickness\":[1e5],\"top truncation\":[-1e5],\"angle\":[30,60]}],\"temperature models\":[" + tm + "]}";
            const std::string ocean = "{\"model\":\"oceanic plate\",\"name\":\"O\",\"max depth\":1e5,\"coordinates\":" + pts({{-8*s,-8*s},{8*s,-8*s},{8*s,8*s},{-8*s,8*s}}) +
                                      ",\"temperature models\":[{\"model\":\"half space model\",\"max depth\":1e5,\"spreading velocity\":0.05,\"ridge coordinates\":" + ridge + "}]}";
            w.text = world(coord(sph), {ocean, feat});
            for (double x : {-0.5, 0.0, 0.25, 0.5, 0.6, 0.75, 1.0, 1.5, 2.0, 2.5, 3.0, 3.5, 4.0})
              for (double y : {0.0, -1.5, 2.9})
                for (double d : {0.0, 1.0, 1e4, 3e4, 5e4, 8e4, 1e5, 1.5e5, 2e5, 2.5e5, 3e5, 3.5e5})
                  w.pts.push_back({x*s, y*s, d, false, {{0,0,0}}, "across the slab and the wedge above it"});
            out.push_back(w);
          }
  }

  // ---- family 7: 'tian water content' compositions (temperature and pressure dependent) over extreme temperatures and pressure cut-offs ----
  void family_water(std::vector<WCase> &out)
  {
    const char *LITH[] = {"sediment", "MORB", "gabbro", "peridotite"};
    struct TM { const char *name; const char *area; const char *slab; };
    const std::vector<TM> tms =
    {
      {"uniform 0 K", "{\"model\":\"uniform\",\"temperature\":0}", "{\"model\":\"uniform\",\"temperature\":0}"},
      {"uniform 1e-300 K", "{\"model\":\"uniform\",\"temperature\":1e-300}", "{\"model\":\"uniform\",\"temperature\":1e-300}"},
      {"uniform 1e5 K", "{\"model\":\"uniform\",\"temperature\":1e5}", "{\"model\":\"uniform\",\"temperature\":1e5}"},
      {"cooling model", "{\"model\":\"plate model\",\"max depth\":1e5,\"spreading velocity\":0.05,\"ridge coordinates\":[[[-5e5,-1e6],[-5e5,1e6]]]}", "{\"model\":\"mass conserving\",\"density\":3300,\"spreading velocity\":0.05,\"subducting velocity\":0.05,\"ridge coordinates\":[[[-5e5,-1e6],[-5e5,1e6]]]}"},
      {"no temperature model", "", ""},
    };
    for (int slab = 0; slab < 2; ++slab) for (int il = 0; il < 4; ++il) for (auto &tm : tms) for (double cutoff : {10.0, 0.0, 1e4}) for (double density : {3000.0, 0.0})
              {
                if (density == 0 && cutoff != 10.0) continue;
                WCase w; w.sph = false; w.has_cs = false;
                w.family = std::string("water content/") + (slab ? "subducting plate/" : "oceanic plate/") + LITH[il] + "/" + tm.name + "/cutoff pressure " + num(cutoff) + (density == 0 ? "/density 0" : "");
                const std::string wm = std::string("{\"model\":\"tian water content\",\"compositions\":[0],\"lithology\":\"") + LITH[il] + "\",\"initial water content\":3,\"cutoff pressure\":" + num(cutoff) + ",\"density\":" + num(density) + "}";
                const std::string t = slab ? tm.slab : tm.area;
                std::string feat;
                if (slab)
                  feat = "{\"model\":\"subducting plate\",\"name\":\"S\",\"coordinates\":[[0,-3e5],[0.5e5,0],[0,3e5]],\"dip point\":[9e5,0],\"segments\":[{\"length\":4e5,\"thickness\":[1e5],\"angle\":[45]}],"
                         + (t.empty() ? std::string() : "\"temperature models\":[" + t + "],") + "\"composition models\":[" + wm + "]}";
                else
                  feat = "{\"model\":\"oceanic plate\",\"name\":\"O\",\"max depth\":1e5,\"coordinates\":[[-4e5,-4e5],[4e5,-4e5],[4e5,4e5],[-4e5,4e5]],"
                         + (t.empty() ? std::string() : "\"temperature models\":[" + t + "],") + "\"composition models\":[" + wm + "]}";
                w.text = world(coord(false), {feat});
                for (double x : {-3e5, 0.0, 0.25e5, 1e5, 2e5, 3.5e5}) for (double y : {0.0, 1.7e5}) for (double d : {0.0, 1.0, 1e3, 1.7e4, 5e4, 1e5, 2e5, 3e5})
                      w.pts.push_back({x, y, d, false, {{0,0,0}}, "across the hydrated feature"});
                out.push_back(w);
              }
  }

  // ---- family 8: every model plugin of every feature type with nothing but its required entries (all optional parameters at their defaults) ----
  void family_defaults(std::vector<WCase> &out)
  {
    struct M { int feature; const char *kind, *model, *required; };   // feature: 0 continental plate, 1 fault, 2 mantle layer, 3 oceanic plate, 4 plume, 5 subducting plate
    const std::vector<M> models =
    {
      {0,"temperature","adiabatic",""}, {0,"temperature","chapman",""}, {0,"temperature","linear","\"max depth\":1e5"}, {0,"temperature","uniform","\"temperature\":500"},
      {0,"composition","random","\"compositions\":[0]"}, {0,"composition","uniform","\"compositions\":[0]"},
      {0,"grains","random uniform distribution","\"compositions\":[0]"}, {0,"grains","random uniform distribution deflected","\"compositions\":[0]"}, {0,"grains","uniform","\"compositions\":[0]"}, {0,"velocity","uniform raw","\"velocity\":[1,2,3]"},
      {1,"temperature","adiabatic",""}, {1,"temperature","linear","\"max distance fault center\":5e4"}, {1,"temperature","uniform","\"temperature\":500"},
      {1,"composition","smooth","\"compositions\":[0]"}, {1,"composition","uniform","\"compositions\":[0]"},
      {1,"grains","random uniform distribution","\"compositions\":[0]"}, {1,"grains","random uniform distribution deflected","\"compositions\":[0]"}, {1,"grains","uniform","\"compositions\":[0]"}, {1,"velocity","uniform raw","\"velocity\":[1,2,3]"},
      {2,"temperature","adiabatic",""}, {2,"temperature","linear","\"max depth\":1e5"}, {2,"temperature","uniform","\"temperature\":500"}, {2,"composition","uniform","\"compositions\":[0]"},
      {2,"grains","random uniform distribution","\"compositions\":[0]"}, {2,"grains","random uniform distribution deflected","\"compositions\":[0]"}, {2,"grains","uniform","\"compositions\":[0]"}, {2,"velocity","uniform raw","\"velocity\":[1,2,3]"},
      {3,"temperature","adiabatic",""}, {3,"temperature","half space model","\"ridge coordinates\":[[[RX,-RY],[RX,RY]]],\"spreading velocity\":0.05,\"max depth\":1e5"}, {3,"temperature","linear","\"max depth\":1e5"},
      {3,"temperature","plate model","\"max depth\":1e5"}, {3,"temperature","plate model constant age","\"max depth\":1e5"}, {3,"temperature","uniform","\"temperature\":500"},
      {3,"composition","tian water content","\"compositions\":[0]"}, {3,"composition","uniform","\"compositions\":[0]"},
      {3,"grains","random uniform distribution","\"compositions\":[0]"}, {3,"grains","random uniform distribution deflected","\"compositions\":[0]"}, {3,"grains","uniform","\"compositions\":[0]"}, {3,"velocity","uniform raw","\"velocity\":[1,2,3]"},
      {4,"temperature","gaussian","\"centerline temperatures\":[100]"}, {4,"temperature","uniform","\"temperature\":500"}, {4,"composition","uniform","\"compositions\":[0]"},
      {4,"grains","random uniform distribution deflected","\"compositions\":[0]"}, {4,"grains","uniform","\"compositions\":[0]"}, {4,"velocity","uniform raw","\"velocity\":[1,2,3]"},
      {5,"temperature","adiabatic",""}, {5,"temperature","linear","\"max distance slab top\":5e4"}, {5,"temperature","mass conserving","\"spreading velocity\":0.05,\"subducting velocity\":0.05"}, {5,"temperature","plate model","\"plate velocity\":0.05"},
      {5,"temperature","uniform","\"temperature\":500"}, {5,"composition","smooth","\"compositions\":[0]"}, {5,"composition","tian water content","\"compositions\":[0]"}, {5,"composition","uniform","\"compositions\":[0]"},
      {5,"grains","random uniform distribution","\"compositions\":[0]"}, {5,"grains","random uniform distribution deflected","\"compositions\":[0]"}, {5,"grains","uniform","\"compositions\":[0]"}, {5,"velocity","uniform raw","\"velocity\":[1,2,3]"},
    };
    const char *FN[] = {"continental plate", "fault", "mantle layer", "oceanic plate", "plume", "subducting plate"};
    for (int sph = 0; sph < 2; ++sph) for (auto &m : models)
        {
          const double s = sph ? 1.0 : 1e5;
          WCase w; w.sph = sph; w.has_cs = false;
          w.family = std::string("defaults") + (sph ? " (spherical)/" : "/") + FN[m.feature] + "/" + m.kind + "/" + m.model;
          std::string req = m.required;
          auto rep = [&](const std::string &a, const std::string &b) { size_t p; while ((p = req.find(a)) != std::string::npos) req.replace(p, a.size(), b); };
          rep("-RY", num(-6*s)); rep("RY", num(6*s)); rep("RX", num(-3*s));
          const std::string model = std::string("\"") + m.kind + " models\":[{\"model\":\"" + m.model + "\"" + (req.empty() ? "" : "," + req) + "}]";
          std::string f = std::string("{\"model\":\"") + FN[m.feature] + "\",\"name\":\"F\",";
          if (m.feature == 0 || m.feature == 2 || m.feature == 3) f += "\"coordinates\":" + pts({{-4*s,-4*s},{4*s,-4*s},{4*s,4*s},{-4*s,4*s}}) + ",";
          else if (m.feature == 4) f += "\"coordinates\":[" + pt({0,0}) + "," + pt({0.5*s,0}) + "],\"cross section depths\":[1e5,3e5],\"semi-major axis\":[" + num(2*s) + "," + num(s) + "],\"eccentricity\":[0.5,0],\"rotation angles\":[30,60],";
          else f += "\"coordinates\":[" + pt({0,-3*s}) + "," + pt({0.5*s,0}) + "," + pt({0,3*s}) + "],\"dip point\":" + pt({9*s,0}) + ",\"segments\":[{\"length\":3e5,\"thickness\":[1e5],\"angle\":[30,60]}],";
          f += model + "}";
          w.text = world(coord(sph), {f});
          for (double x : {-3.5, -1.0, 0.0, 0.25, 0.5, 1.0, 2.0, 3.5, 6.0}) for (double y : {0.0, -1.5, 3.9}) for (double d : {0.0, 1.0, 5e4, 1e5, 1.5e5, 2.5e5, 5e5})
                w.pts.push_back({x*s, y*s, d, false, {{0,0,0}}, "across the feature"});
          add_global_specials(w);
          out.push_back(w);
        }
  }

  // ---- family 9: grains given as rotation matrices that are orthonormal only to two digits (typed by hand), and fast, long slabs with the plate model ----
  void family_hand_typed(std::vector<WCase> &out)
  {
    for (int sph = 0; sph < 2; ++sph) for (int fault = 0; fault < 2; ++fault) for (const char *c45 : {"0.71", "0.70", "0.7071067811865476"})
          {
            const double s = sph ? 1.0 : 1e5;
            WCase w; w.sph = sph; w.has_cs = false;
            w.family = std::string(fault ? "fault" : "slab") + "/uniform grains given as rotation matrices with cos 45 written " + c45;
            const std::string m = std::string("[[") + c45 + "," + c45 + ",0],[-" + c45 + "," + c45 + ",0],[0,0,1]]";
            const std::string seg = "{\"length\":3e5,\"thickness\":[1e5],\"angle\":[45],\"grains models\":[{\"model\":\"uniform\",\"compositions\":[0,1],\"rotation matrices\":[" + m + "," + m + "],\"grain sizes\":[0.5,-1]}]}";
            const std::string feat = std::string("{\"model\":\"") + (fault ? "fault" : "subducting plate") + "\",\"name\":\"L\",\"coordinates\":[" + pt({0,-3*s}) + "," + pt({0.4*s,0}) + "," + pt({0,3*s}) + "],\"dip point\":" + pt({9*s,0}) +
                                     ",\"segments\":[" + seg + "],\"sections\":[{\"coordinate\":1,\"segments\":[" + seg + "]}]}";
            w.text = world(coord(sph), {feat});
            for (double x : {-0.5, 0.0, 0.2, 0.5, 1.0, 1.5, 2.0}) for (double y : {0.0, -1.5, 1.0, 2.9}) for (double d : {1e3, 3e4, 1e5, 1.5e5, 2e5})
                  w.pts.push_back({x*s, y*s, d, false, {{0,0,0}}, "across the feature"});
            out.push_back(w);
          }
    for (int sph = 0; sph < 2; ++sph) for (double v : {0.08, 0.15, 0.02})
        {
          const double s = sph ? 1.0 : 1e5;
          WCase w; w.sph = sph; w.has_cs = false;
          w.family = "slab/plate model on a slab 1200 km long, plate velocity " + num(v);
          const std::string feat = "{\"model\":\"subducting plate\",\"name\":\"L\",\"coordinates\":[" + pt({0,-3*s}) + "," + pt({0.4*s,0}) + "," + pt({0,3*s}) + "],\"dip point\":" + pt({9*s,0}) +
                                   ",\"segments\":[{\"length\":1.2e6,\"thickness\":[1e5],\"angle\":[50]}],\"temperature models\":[{\"model\":\"plate model\",\"density\":3300,\"plate velocity\":" + num(v) + "}]}";
          w.text = world(coord(sph), {feat});
          for (double al : {1e4, 1e5, 2.5e5, 4e5, 6e5, 9e5, 1.15e6}) for (double off : {1e4, 5e4, 9e4}) for (double y : {0.0, 1.5})
                {
                  // a point 'al' along the 50-degree plane and 'off' below it (cartesian: exact; spherical: close enough to be inside)
                  const double c = std::cos(50*PI/180), sn = std::sin(50*PI/180);
                  const double h = al*c - off*sn, d = al*sn + off*c;
                  w.pts.push_back({(0.2 + (sph ? h/111e3 : h/1e5))*s, y*s, d, false, {{0,0,0}}, "down the slab"});
                }
          out.push_back(w);
        }
  }

  void run_world(const std::shared_ptr<std::vector<WCase>> &cases, uint64_t idx, Ctx &ctx)
  {
    static const int c_q = Ctx::counter_id("queries"), c_ex = Ctx::counter_id("queries_refused_with_exception"), c_rej = Ctx::counter_id("worlds_rejected_at_construction"), c_2d = Ctx::counter_id("queries_2d");
    const WCase &wc = (*cases)[idx];
    std::unique_ptr<World> w;
    try { w = make_world(wc.text); }
    catch (const std::exception &) { ctx.count(c_rej); return; }       // rejected worlds are C12's business
    std::set<std::string> reported;
    for (auto &p : wc.pts)
      {
        const P3 q = p.raw_cartesian ? p.raw : query_point(wc.sph, p.x, p.y, p.depth);
        for (size_t ir = 0; ir < REQS.size(); ++ir)
          {
            ctx.eval(); ctx.count(c_q);
            try
              {
                const std::vector<double> out = w->properties(q, p.depth, REQS[ir]);
                for (size_t k = 0; k < out.size(); ++k)
                  if (!std::isfinite(out[k]))
                    {
                      // which property produced it?
                      size_t slot = 0; unsigned kind = 0;
                      for (auto &a : REQS[ir]) { const size_t n = a[0] == 3 ? 10*a[2] : a[0] == 5 ? 3 : 1; if (k < slot + n) { kind = a[0]; break; } slot += n; }
                      const char *kn = kind == 1 ? "temperature" : kind == 2 ? "composition" : kind == 3 ? "grains" : kind == 4 ? "tag" : "velocity";
                      const std::string sig = "C13/non-finite/" + wc.family + "/" + kn;
                      if (reported.insert(sig).second)
                        ctx.violation(sig, JObj().str("what", "a query returned a non-finite value").str("family", wc.family).str("location", p.what).raw("point", jarr(q)).num("depth", p.depth)
                                      .raw("request", jreq(REQS[ir])).raw("output", jarr(out)).str("world", wc.text).done());
                      break;
                    }
              }
            catch (const std::exception &) { ctx.count(c_ex); }
          }
        if (wc.has_cs && !p.raw_cartesian)
          {
            // the same location through the 2-D interface (coordinates along the section are arbitrary finite numbers here)
            const std::array<double,2> p2 = wc.sph ? std::array<double,2>{{(R_EARTH-p.depth)*std::cos(p.x*PI/180), (R_EARTH-p.depth)*std::sin(p.x*PI/180)}} : std::array<double,2>{{p.x, CART_TOP - p.depth}};
            for (size_t ir : {static_cast<size_t>(0), static_cast<size_t>(6), static_cast<size_t>(8)})
              {
                ctx.eval(); ctx.count(c_2d);
                try
                  {
                    const std::vector<double> out = w->properties(p2, p.depth, REQS[ir]);
                    for (double v : out)
                      if (!std::isfinite(v))
                        {
                          const std::string sig = "C13/non-finite/2d/" + wc.family;
                          if (reported.insert(sig).second)
                            ctx.violation(sig, JObj().str("what", "a 2-D query returned a non-finite value").str("family", wc.family).raw("point_2d", jarr(p2)).num("depth", p.depth).raw("output", jarr(out)).str("world", wc.text).done());
                          break;
                        }
                  }
                catch (const std::exception &) { ctx.count(c_ex); }
              }
          }
      }
    ctx.nontrivial();
    if (idx % 23 == 1) ctx.sample(JObj().str("family", wc.family).boolean("spherical", wc.sph).integer("points", static_cast<long long>(wc.pts.size())).done());
  }
}

int main(int argc, char **argv)
{
  Spec spec;
  spec.property = "C13";
  spec.level = "exploration";
  spec.rule = "one world per member of four families (rich worlds; slabs and faults over 12 segment tables incl. zero length/thickness, dips 0/180, overturning arcs x thermal models incl. zero "
              "velocities; area features and plumes with degenerate geometry/parameters; coincident cross-section points; slabs and faults next to a pole queried on and around the rotation axis; mass conserving slabs with optional parameters at zero or beyond the slab), both coordinate systems; every world is queried in the ASan+UBSan build at "
              "points placed ON the degenerate loci x 10 request lists (all single atoms and 3 batched) through the 3-D and 2-D interface; every value must be finite or a std::exception thrown; "
              "a sanitizer report, signal or watchdog expiry kills the worker and is a violation of that world. non-trivial: the world was built; worlds are distinct by construction";
  spec.assumptions = {"worlds that the constructor rejects are not judged here (C12)", "ASan + UBSan (incl. float-cast-overflow), 120 s watchdog per world"};
  spec.counters = {"queries", "queries_refused_with_exception", "worlds_rejected_at_construction", "queries_2d"};
  spec.quick_deadline_s = 400; spec.thorough_deadline_s = 1500;
  return driver(argc, argv, spec, [](const std::string &tier)
  {
    const bool th = tier == "thorough";
    auto cases = std::make_shared<std::vector<WCase>>();
    family_rich(*cases);
    family_line(*cases, th);
    family_area(*cases, th);
    family_cs(*cases);
    family_polar(*cases);
    family_zero_parameters(*cases);
    family_hand_typed(*cases);
    family_water(*cases);
    family_defaults(*cases);
    std::vector<Suite> s(1);
    s[0].name = "worlds"; s[0].n = cases->size(); s[0].run = [cases](uint64_t i, Ctx &c) { run_world(cases, i, c); };
    s[0].bound = std::to_string(cases->size()) + " worlds (rich 6, line features " + (th ? "full" : "reduced") + " product of 12 segment tables x thermal models x {slab,fault} x {cartesian,spherical}, 18 degenerate area/plume set-ups, 2 degenerate cross sections, 10 slabs/faults next to a pole queried on and around the rotation axis, 32 mass conserving slabs with zero / extreme optional parameters, 160 hydrated plates / slabs: 4 lithologies x 5 temperature settings incl. 0 K x pressure cut-offs {10, 0, 1e4} GPa, density {3000, 0}, 114 worlds with one model plugin each and nothing but its required entries: all 57 (feature, kind, model) combinations x {cartesian, spherical})";
    return s;
  });
}
