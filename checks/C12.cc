// VARIANTS: san
// C12 - malformed or inconsistent input is rejected by an exception, never by a crash (E4: document-fault enumeration).
// Every candidate document is loaded through World::World in the ASan+UBSan build. Allowed outcomes: built, or a
// std::exception with a message. A signal, sanitizer report, foreign exception or watchdog expiry is a violation.
// Independent verdicts: Python jsonschema against the frozen published schema (schema-invalid => must be rejected),
// list-length consistency (inconsistent => must be rejected), formatting variants (must answer like the canonical file).
#include "kit.h"
#include "wbgen.h"
#include "rapidjson/document.h"
#include "rapidjson/pointer.h"
#include "rapidjson/stringbuffer.h"
#include "rapidjson/writer.h"
#include "rapidjson/prettywriter.h"
using namespace kit;
using namespace wbgen;
using WorldBuilder::World;

namespace
{
  enum Expect { ANY, MUST_REJECT, MUST_BUILD, SAME_AS_CANONICAL };
  struct Cand { std::string kind, text, note; Expect expect = ANY; char schema = 'U'; int canonical = -1; };

  const std::string B0 = "{\"version\":\"1.1\",\"features\":[{\"model\":\"continental plate\",\"name\":\"a\",\"coordinates\":[[0,0],[1e5,0],[1e5,1e5]],\"temperature models\":[{\"model\":\"uniform\",\"temperature\":5}]}]}";

  std::vector<std::string> bases()
  {
    const double s = 1e5;
    std::vector<std::string> b;
    // B1: cartesian, area features, ridge tables, cross section, constants
    b.push_back("{\"version\":\"1.1\",\"cross section\":[[0,0],[4e5,3e5]],\"coordinate system\":{\"model\":\"cartesian\"},\"gravity model\":{\"model\":\"uniform\",\"magnitude\":10},"
                "\"potential mantle temperature\":1500,\"surface temperature\":280,\"force surface temperature\":false,\"thermal expansion coefficient\":3e-5,\"specific heat\":1200,"
                "\"thermal diffusivity\":1e-6,\"random number seed\":3,\"features\":["
                "{\"model\":\"continental plate\",\"name\":\"cp\",\"tag\":\"craton\",\"min depth\":0,\"max depth\":2e5,\"coordinates\":" + pts({{0,0},{2*s,0},{2*s,2*s},{0,2*s}}) +
                ",\"temperature models\":[{\"model\":\"linear\",\"min depth\":0,\"max depth\":2e5,\"top temperature\":300,\"bottom temperature\":-1,\"operation\":\"replace\"}],"
                "\"composition models\":[{\"model\":\"uniform\",\"compositions\":[0,1],\"fractions\":[0.25,0.75],\"operation\":\"replace defined only\"}],"
                "\"grains models\":[{\"model\":\"uniform\",\"compositions\":[0,1],\"Euler angles z-x-z\":[[10,20,30],[40,50,60]],\"grain sizes\":[0.5,-1]}],"
                "\"velocity models\":[{\"model\":\"uniform raw\",\"velocity\":[1,2,3]}]},"
                "{\"model\":\"oceanic plate\",\"name\":\"op\",\"max depth\":1e5,\"coordinates\":" + pts({{2*s,0},{4*s,0},{4*s,2*s},{2*s,2*s}}) +
                ",\"temperature models\":[{\"model\":\"half space model\",\"max depth\":1e5,\"top temperature\":280,\"bottom temperature\":1600,"
                "\"spreading velocity\":[[0,[[0.02,0.04]]]],\"ridge coordinates\":[[[3.5e5,-1e5],[3.5e5,3e5]]]}]}"
                "]}");
    // B2: spherical, slab with sections and segment-level models, fault
    b.push_back("{\"version\":\"1.1\",\"coordinate system\":{\"model\":\"spherical\",\"depth method\":\"starting point\",\"radius\":6371000.0},\"features\":["
                "{\"model\":\"subducting plate\",\"name\":\"sl\",\"coordinates\":[[0,-2],[0.5,0],[0,2]],\"dip point\":[10,0],\"min depth\":0,\"max depth\":5e5,"
                "\"segments\":[{\"length\":2e5,\"thickness\":[8e4],\"top truncation\":[0],\"angle\":[30,50]},{\"length\":1e5,\"thickness\":[8e4,6e4],\"angle\":[50],"
                "\"temperature models\":[{\"model\":\"uniform\",\"temperature\":700}]}],"
                "\"sections\":[{\"coordinate\":1,\"segments\":[{\"length\":2.5e5,\"thickness\":[9e4],\"angle\":[35,50]},{\"length\":1e5,\"thickness\":[9e4,6e4],\"angle\":[50]}]}],"
                "\"temperature models\":[{\"model\":\"mass conserving\",\"density\":3300,\"spreading velocity\":0.05,\"subducting velocity\":0.04,\"ridge coordinates\":[[[-20,-10],[-20,10]]],"
                "\"coupling depth\":8e4,\"taper distance\":5e4,\"min distance slab top\":-2e5,\"max distance slab top\":3e5,\"reference model name\":\"half space model\"}],"
                "\"composition models\":[{\"model\":\"smooth\",\"compositions\":[0],\"top fractions\":[1],\"bottom fractions\":[0],\"max distance slab top\":8e4}]},"
                "{\"model\":\"fault\",\"name\":\"fa\",\"coordinates\":[[-4,-1],[-1,-1.5]],\"dip point\":[0,-20],\"segments\":[{\"length\":1.2e5,\"thickness\":[6e4],\"angle\":[70]}],"
                "\"temperature models\":[{\"model\":\"linear\",\"max distance fault center\":3e4,\"center temperature\":900,\"side temperature\":1100}],"
                "\"composition models\":[{\"model\":\"smooth\",\"compositions\":[1],\"side distance fault center\":3e4,\"center fractions\":[1.0],\"side fractions\":[0.25]}]}"
                "]}");
    // B3: plume, mantle layer with point-valued depth
    b.push_back("{\"version\":\"1.1\",\"features\":["
                "{\"model\":\"mantle layer\",\"name\":\"ml\",\"min depth\":[[1e5],[1.5e5,[[1e5,1e5]]]],\"max depth\":4e5,\"coordinates\":" + pts({{0,0},{4*s,0},{4*s,4*s},{0,4*s}}) +
                ",\"temperature models\":[{\"model\":\"adiabatic\",\"potential mantle temperature\":1650}],\"composition models\":[{\"model\":\"uniform\",\"compositions\":[2]}]},"
                "{\"model\":\"plume\",\"name\":\"pl\",\"min depth\":2e4,\"max depth\":6e5,\"coordinates\":[[2e5,2e5],[2.2e5,2.1e5],[2.5e5,2.5e5]],\"cross section depths\":[1e5,2e5,4e5],"
                "\"semi-major axis\":[1.2e5,0.8e5,1e5],\"eccentricity\":[0.3,0.5,0],\"rotation angles\":[350,10,40],"
                "\"temperature models\":[{\"model\":\"gaussian\",\"operation\":\"add\",\"centerline temperatures\":[150,250],\"gaussian sigmas\":[0.3,0.4],\"depths\":[5e4,5e5]}],"
                "\"composition models\":[{\"model\":\"uniform\",\"compositions\":[3]}]}"
                "]}");
    // B4: temperature- and pressure-dependent compositions (option strings with a fixed set of supported values)
    b.push_back("{\"version\":\"1.1\",\"interpolation\":\"continuous monotone spline\",\"features\":["
                "{\"model\":\"oceanic plate\",\"name\":\"op\",\"max depth\":1e5,\"coordinates\":" + pts({{0,0},{4*s,0},{4*s,4*s},{0,4*s}}) +
                ",\"temperature models\":[{\"model\":\"plate model\",\"max depth\":1e5,\"spreading velocity\":0.05,\"ridge coordinates\":[[[-5e5,-1e6],[-5e5,1e6]]]}],"
                "\"composition models\":[{\"model\":\"tian water content\",\"compositions\":[0],\"min depth\":0,\"max depth\":6e3,\"density\":3000,\"lithology\":\"MORB\",\"initial water content\":1,\"cutoff pressure\":16,\"operation\":\"replace\"}]},"
                "{\"model\":\"subducting plate\",\"name\":\"sl\",\"interpolation\":\"global\",\"coordinates\":[[2e5,0],[2.2e5,2e5],[2e5,4e5]],\"dip point\":[9e5,2e5],\"segments\":[{\"length\":3e5,\"thickness\":[8e4],\"angle\":[45]}],"
                "\"temperature models\":[{\"model\":\"mass conserving\",\"density\":3300,\"spreading velocity\":0.05,\"subducting velocity\":0.04,\"ridge coordinates\":[[[-5e5,-1e6],[-5e5,1e6]]],\"reference model name\":\"plate model\",\"apply spline\":true,\"number of points in spline\":5}],"
                "\"composition models\":[{\"model\":\"tian water content\",\"compositions\":[1],\"density\":3300,\"min distance slab top\":0,\"max distance slab top\":2e4,\"lithology\":\"peridotite\",\"initial water content\":2,\"cutoff pressure\":10}]}"
                "]}");
    return b;
  }

  std::string dump(const rapidjson::Document &d)
  {
    rapidjson::StringBuffer sb;
    rapidjson::Writer<rapidjson::StringBuffer, rapidjson::UTF8<>, rapidjson::UTF8<>, rapidjson::CrtAllocator, rapidjson::kWriteNanAndInfFlag> w(sb);
    d.Accept(w);
    return sb.GetString();
  }
  void collect(const rapidjson::Value &v, const std::string &path, std::vector<std::string> &out)
  {
    out.push_back(path);
    if (v.IsObject()) for (auto &m : v.GetObject())
        {
          std::string k = m.name.GetString(), esc;
          for (char c : k) { if (c == '~') esc += "~0"; else if (c == '/') esc += "~1"; else esc += c; }
          collect(m.value, path + "/" + esc, out);
        }
    else if (v.IsArray()) for (rapidjson::SizeType i = 0; i < v.Size(); ++i) collect(v[i], path + "/" + std::to_string(i), out);
  }
  const char *REPL[] = {"null", "true", "0", "-1", "1e308", "NaN", "Infinity", "\"\"", "\"x\"", "[]", "{}", "[[]]", "1.5", "-Infinity"};
  const int NREPL = 14;

  void tree_candidates(const std::string &base, int bi, bool thorough, std::vector<Cand> &out)
  {
    rapidjson::Document d0;
    d0.Parse<rapidjson::kParseNanAndInfFlag>(base.c_str());
    std::vector<std::string> paths;
    collect(d0, "", paths);
    for (auto &p : paths)
      {
        if (p.empty()) continue;
        const size_t slash = p.rfind('/');
        const std::string parent = p.substr(0, slash), key = p.substr(slash + 1);
        // replace by each constant
        for (int r = 0; r < NREPL; ++r)
          {
            if (!thorough && !(r == 0 || r == 3 || r == 4 || r == 5 || r == 8 || r == 9 || r == 10)) continue;
            rapidjson::Document d; d.CopyFrom(d0, d.GetAllocator());
            rapidjson::Document rv; rv.Parse<rapidjson::kParseNanAndInfFlag>(REPL[r]);
            rapidjson::Value nv(rv, d.GetAllocator());
            rapidjson::Pointer(p.c_str()).Set(d, nv);
            // an option that names one of a documented, closed set of choices: any other string is an unsupported value and must be rejected
            static const std::set<std::string> CLOSED = {"lithology", "reference model name", "depth method", "model", "operation", "orientation operation", "interpolation"};
            const bool unsupported = CLOSED.count(key) && std::string(REPL[r]) == "\"x\"" && rapidjson::Pointer(p.c_str()).Get(d0)->IsString();
            if (unsupported) { Cand c; c.kind = "tree/unsupported-option-value/" + key; c.text = dump(d); c.note = "base " + std::to_string(bi) + ": " + p + " := \"x\""; c.expect = MUST_REJECT; out.push_back(c); continue; }
            out.push_back({"tree/replace", dump(d), "base " + std::to_string(bi) + ": " + p + " := " + REPL[r]});
          }
        // an entry declared as an unsigned (32-bit) integer: the same value plus 2^32 does not fit and must be rejected, not read modulo 2^32
        {
          static const std::set<std::string> UINT32 = {"coordinate", "number of points in spline"};
          const rapidjson::Value *orig = rapidjson::Pointer(p.c_str()).Get(d0);
          if (UINT32.count(key) && orig && orig->IsUint())
            {
              rapidjson::Document d; d.CopyFrom(d0, d.GetAllocator());
              rapidjson::Value nv; nv.SetUint64(static_cast<uint64_t>(orig->GetUint()) + 4294967296ull);
              rapidjson::Pointer(p.c_str()).Set(d, nv);
              Cand c; c.kind = "tree/unsigned-integer-beyond-32-bits/" + key; c.text = dump(d); c.note = "base " + std::to_string(bi) + ": " + p + " := its value + 2^32"; c.expect = MUST_REJECT; out.push_back(c);
            }
        }
        // delete
        {
          rapidjson::Document d; d.CopyFrom(d0, d.GetAllocator());
          rapidjson::Pointer(p.c_str()).Erase(d);
          out.push_back({"tree/delete", dump(d), "base " + std::to_string(bi) + ": delete " + p});
        }
        rapidjson::Value *par = rapidjson::Pointer(parent.c_str()).Get(d0);
        if (par && par->IsObject())
          {
            // rename the key
            rapidjson::Document d; d.CopyFrom(d0, d.GetAllocator());
            rapidjson::Value *pv = rapidjson::Pointer(parent.c_str()).Get(d);
            for (auto &m : pv->GetObject()) if (key == m.name.GetString()) { m.name.SetString((std::string(m.name.GetString()) + "x").c_str(), d.GetAllocator()); break; }
            out.push_back({"tree/rename-key", dump(d), "base " + std::to_string(bi) + ": rename key " + p});
          }
        else if (par && par->IsArray())
          {
            // duplicate the element
            rapidjson::Document d; d.CopyFrom(d0, d.GetAllocator());
            rapidjson::Value *pv = rapidjson::Pointer(parent.c_str()).Get(d);
            rapidjson::Value copy(*rapidjson::Pointer(p.c_str()).Get(d), d.GetAllocator());
            pv->PushBack(copy, d.GetAllocator());
            out.push_back({"tree/duplicate-element", dump(d), "base " + std::to_string(bi) + ": append a copy of " + p});
          }
      }
  }

  // ---- (c2) pairs of tree deviations of the smallest base (thorough): every unordered pair of {delete, replace by null / -1 / "x" / [] / {}} at two nodes ----
  void tree_pair_candidates(const std::string &base, std::vector<Cand> &out)
  {
    rapidjson::Document d0;
    d0.Parse<rapidjson::kParseNanAndInfFlag>(base.c_str());
    std::vector<std::string> paths;
    collect(d0, "", paths);
    const int OPS[] = {-1, 0, 3, 8, 9, 10};   // -1: delete, otherwise index into REPL
    struct F { std::string path; int op; };
    std::vector<F> singles;
    for (auto &p : paths) if (!p.empty()) for (int op : OPS) singles.push_back({p, op});
    auto apply = [](rapidjson::Document &d, const F &f) -> bool
    {
      if (rapidjson::Pointer(f.path.c_str()).Get(d) == nullptr) return false;
      if (f.op < 0) return rapidjson::Pointer(f.path.c_str()).Erase(d);
      rapidjson::Document rv; rv.Parse<rapidjson::kParseNanAndInfFlag>(REPL[f.op]);
      rapidjson::Value nv(rv, d.GetAllocator());
      rapidjson::Pointer(f.path.c_str()).Set(d, nv);
      return true;
    };
    std::set<std::string> seen;
    for (size_t a = 0; a < singles.size(); ++a) for (size_t b = a + 1; b < singles.size(); ++b)
        {
          if (singles[a].path == singles[b].path) continue;
          // apply the later path first: an erase of an earlier array element would renumber the later one
          rapidjson::Document d; d.CopyFrom(d0, d.GetAllocator());
          if (!apply(d, singles[b])) continue;
          if (!apply(d, singles[a])) continue;   // a is an ancestor-independent node or an ancestor of b (then b's change is swallowed: skip, it equals a single deviation)
          if (singles[b].path.compare(0, singles[a].path.size() + 1, singles[a].path + "/") == 0) continue;
          const std::string text = dump(d);
          if (!seen.insert(text).second) continue;
          out.push_back({"tree/pair", text, "base 0: " + singles[a].path + (singles[a].op < 0 ? " deleted" : std::string(" := ") + REPL[singles[a].op]) + " and " + singles[b].path + (singles[b].op < 0 ? " deleted" : std::string(" := ") + REPL[singles[b].op])});
        }
  }

  // ---- (d) list-length families: every combination of lengths in {0,1,2,3} for lists that must agree ----
  std::string list_of(const std::vector<std::string> &vals, size_t n)
  {
    std::string s = "[";
    for (size_t i = 0; i < n; ++i) s += (i ? "," : "") + vals[i % vals.size()];
    return s + "]";
  }
  void length_candidates(bool thorough, std::vector<Cand> &out)
  {
    const double s = 1e5;
    auto sq = pts({{0,0},{4*s,0},{4*s,4*s},{0,4*s}});
    auto add = [&](const std::string &family, const std::string &text, bool consistent, const std::string &note)
    { Cand c; c.kind = "lengths/" + family; c.text = text; c.note = note; c.expect = consistent ? MUST_BUILD : MUST_REJECT; out.push_back(c); };
    const size_t NMAX = 3;
    // plume: coordinates vs cross section depths / semi-major axis / eccentricity / rotation angles
    for (size_t nc = 1; nc <= 3; ++nc) for (int which = 0; which < 4; ++which) for (size_t n = 0; n <= NMAX; ++n)
          {
            if (!thorough && nc != 2) continue;
            size_t len[4] = {nc, nc, nc, nc};
            len[which] = n;
            const std::string text = "{\"version\":\"1.1\",\"features\":[{\"model\":\"plume\",\"name\":\"p\",\"coordinates\":" + list_of({"[2e5,2e5]", "[2.2e5,2e5]", "[2.4e5,2e5]"}, nc) +
                                     ",\"cross section depths\":" + list_of({"1e5", "2e5", "3e5"}, len[0]) + ",\"semi-major axis\":" + list_of({"1e5", "1.1e5", "1.2e5"}, len[1]) +
                                     ",\"eccentricity\":" + list_of({"0.1", "0.2", "0.3"}, len[2]) + ",\"rotation angles\":" + list_of({"10", "20", "30"}, len[3]) +
                                     ",\"temperature models\":[{\"model\":\"uniform\",\"temperature\":1800}]}]}";
            const char *names[4] = {"cross section depths", "semi-major axis", "eccentricity", "rotation angles"};
            add("plume tables", text, n == nc, std::to_string(nc) + " coordinates, " + names[which] + " has " + std::to_string(n) + " entries");
          }
    // gaussian: depths vs centerline temperatures vs sigmas
    for (int which = 0; which < 3; ++which) for (size_t n = 0; n <= NMAX; ++n)
        {
          size_t len[3] = {2, 2, 2};
          len[which] = n;
          if (which == 1 && n == 0) { /* centerline temperatures is required but may be empty: still inconsistent */ }
          const std::string text = "{\"version\":\"1.1\",\"features\":[{\"model\":\"plume\",\"name\":\"p\",\"coordinates\":[[2e5,2e5],[2e5,2e5]],\"cross section depths\":[1e5,3e5],"
                                   "\"semi-major axis\":[1e5,1e5],\"eccentricity\":[0,0],\"rotation angles\":[0,0],\"temperature models\":[{\"model\":\"gaussian\",\"depths\":" + list_of({"5e4", "2e5", "4e5"}, len[0]) +
                                   ",\"centerline temperatures\":" + list_of({"100", "200", "300"}, len[1]) + ",\"gaussian sigmas\":" + list_of({"0.3", "0.4", "0.5"}, len[2]) + "}]}]}";
          const char *names[3] = {"depths", "centerline temperatures", "gaussian sigmas"};
          add("gaussian tables", text, n == 2, std::string(names[which]) + " has " + std::to_string(n) + " entries, the others 2");
        }
    // fractions vs compositions (uniform composition), every feature type offering it through an area feature
    for (const char *feat : {"continental plate", "oceanic plate", "mantle layer"}) for (size_t nc = 1; nc <= 2; ++nc) for (size_t n = 0; n <= NMAX; ++n)
          {
            const std::string text = "{\"version\":\"1.1\",\"features\":[{\"model\":\"" + std::string(feat) + "\",\"name\":\"a\",\"coordinates\":" + sq + ",\"composition models\":[{\"model\":\"uniform\",\"compositions\":" +
                                     list_of({"0", "1", "2"}, nc) + ",\"fractions\":" + list_of({"0.5", "0.25", "0.25"}, n) + "}]}]}";
            add("fractions vs compositions", text, n == nc, std::string(feat) + ": " + std::to_string(nc) + " compositions, " + std::to_string(n) + " fractions");
          }
    // uniform grains: compositions vs orientations vs grain sizes
    for (int which = 0; which < 2; ++which) for (size_t n = 0; n <= NMAX; ++n)
        {
          size_t len[2] = {2, 2};
          len[which] = n;
          const std::string text = "{\"version\":\"1.1\",\"features\":[{\"model\":\"continental plate\",\"name\":\"a\",\"coordinates\":" + sq + ",\"grains models\":[{\"model\":\"uniform\",\"compositions\":[0,1],"
                                   "\"Euler angles z-x-z\":" + list_of({"[10,20,30]", "[40,50,60]", "[70,80,90]"}, len[0]) + ",\"grain sizes\":" + list_of({"0.5", "-1", "0.25"}, len[1]) + "}]}]}";
          add("grains tables", text, n == 2, std::string(which == 0 ? "Euler angles" : "grain sizes") + " has " + std::to_string(n) + " entries for 2 compositions");
        }
    // random grains: compositions vs grain sizes vs normalize flags
    for (int which = 0; which < 2; ++which) for (size_t n = 0; n <= NMAX; ++n)
        {
          size_t len[2] = {2, 2};
          len[which] = n;
          const std::string text = "{\"version\":\"1.1\",\"features\":[{\"model\":\"oceanic plate\",\"name\":\"a\",\"coordinates\":" + sq + ",\"grains models\":[{\"model\":\"random uniform distribution\",\"compositions\":[0,1],"
                                   "\"grain sizes\":" + list_of({"0.5", "-1", "0.25"}, len[0]) + ",\"normalize grain sizes\":" + list_of({"true", "false", "true"}, len[1]) + "}]}]}";
          add("random grains tables", text, n == 2, std::string(which == 0 ? "grain sizes" : "normalize grain sizes") + " has " + std::to_string(n) + " entries for 2 compositions");
        }
    // random composition: compositions vs min/max values
    for (int which = 0; which < 2; ++which) for (size_t n = 0; n <= NMAX; ++n)
        {
          size_t len[2] = {2, 2};
          len[which] = n;
          const std::string text = "{\"version\":\"1.1\",\"features\":[{\"model\":\"continental plate\",\"name\":\"a\",\"coordinates\":" + sq + ",\"composition models\":[{\"model\":\"random\",\"compositions\":[0,1],"
                                   "\"min value\":" + list_of({"0.1", "0.2", "0.3"}, len[0]) + ",\"max value\":" + list_of({"0.5", "0.6", "0.7"}, len[1]) + "}]}]}";
          add("random composition bounds", text, n == 2, std::string(which == 0 ? "min value" : "max value") + " has " + std::to_string(n) + " entries for 2 compositions");
        }
    // spreading velocities per ridge point: one ridge with 3 points, the velocity table lists n values for it
    for (const char *model : {"half space model", "plate model"}) for (size_t n = 0; n <= 4; ++n)
        {
          const std::string text = "{\"version\":\"1.1\",\"features\":[{\"model\":\"oceanic plate\",\"name\":\"a\",\"max depth\":1e5,\"coordinates\":" + sq + ",\"temperature models\":[{\"model\":\"" + std::string(model) +
                                   "\",\"max depth\":1e5,\"ridge coordinates\":[[[1e5,-1e5],[1.5e5,2e5],[1e5,5e5]]],\"spreading velocity\":[[0,[" + list_of({"0.02", "0.03", "0.04", "0.05"}, n) + "]]]}]}]}";
          // one velocity for the whole ridge is an accepted shorthand (not judged); 3 is consistent; everything else is inconsistent
          if (n == 1) { Cand c; c.kind = "lengths/spreading velocities vs ridge points"; c.text = text; c.note = std::string(model) + ": ridge with 3 points, 1 velocity (shorthand)"; out.push_back(c); }
          else add("spreading velocities vs ridge points", text, n == 3, std::string(model) + ": ridge with 3 points, " + std::to_string(n) + " velocities");
        }
    // sections: coordinate index beyond the trench, segment count differing from the default list
    for (unsigned coord = 0; coord <= 3; ++coord) for (size_t nseg = 1; nseg <= 3; ++nseg) for (const char *feat : {"subducting plate", "fault"})
          {
            std::string segs = "[";
            for (size_t k = 0; k < nseg; ++k) segs += std::string(k ? "," : "") + "{\"length\":1e5,\"thickness\":[5e4],\"angle\":[45]}";
            segs += "]";
            const std::string text = "{\"version\":\"1.1\",\"features\":[{\"model\":\"" + std::string(feat) + "\",\"name\":\"l\",\"coordinates\":[[0,0],[0,2e5],[0,4e5]],\"dip point\":[9e5,0],"
                                     "\"segments\":[{\"length\":1e5,\"thickness\":[5e4],\"angle\":[45]},{\"length\":1e5,\"thickness\":[5e4],\"angle\":[45]}],"
                                     "\"sections\":[{\"coordinate\":" + std::to_string(coord) + ",\"segments\":" + segs + "}],\"temperature models\":[{\"model\":\"uniform\",\"temperature\":600}]}]}";
            add("sections", text, coord <= 2 && nseg == 2, std::string(feat) + ": section for coordinate " + std::to_string(coord) + " of 3 with " + std::to_string(nseg) + " segments (default list has 2)");
          }
  }

  // ---- (e) formatting variants ----
  std::vector<std::string> tokens_of(const std::string &t)
  {
    std::vector<std::string> tok;
    size_t i = 0;
    while (i < t.size())
      {
        const char c = t[i];
        if (isspace(static_cast<unsigned char>(c))) { ++i; continue; }
        if (c == '"') { size_t j = i + 1; while (j < t.size() && t[j] != '"') { if (t[j] == '\\') ++j; ++j; } tok.push_back(t.substr(i, j - i + 1)); i = j + 1; }
        else if (strchr("{}[]:,", c)) { tok.push_back(std::string(1, c)); ++i; }
        else { size_t j = i; while (j < t.size() && !strchr("{}[]:,\" \t\r\n", t[j])) ++j; tok.push_back(t.substr(i, j - i)); i = j; }
      }
    return tok;
  }
  void format_candidates(const std::vector<std::string> &bs, bool thorough, std::vector<Cand> &out)
  {
    for (size_t bi = 0; bi < bs.size(); ++bi)
      {
        const int canon = static_cast<int>(out.size());
        { Cand c; c.kind = "format/canonical"; c.text = bs[bi]; c.expect = MUST_BUILD; c.note = "base " + std::to_string(bi + 1); out.push_back(c); }
        const std::vector<std::string> tok = tokens_of(bs[bi]);
        const char *seps[4] = {"", " ", "\n", "\t \r\n  "};
        for (int st = 1; st < 4; ++st)
          {
            Cand c; c.kind = "format/whitespace"; c.expect = SAME_AS_CANONICAL; c.canonical = canon; c.note = "whitespace style " + std::to_string(st);
            for (auto &t : tok) c.text += t + seps[st];
            out.push_back(c);
          }
        // a comment at every token boundary
        const size_t stride = thorough ? 1 : 3;
        for (size_t k = 0; k <= tok.size(); k += stride)
          for (int style = 0; style < 2; ++style)
            {
              Cand c; c.kind = "format/comment"; c.expect = SAME_AS_CANONICAL; c.canonical = canon; c.note = std::string(style ? "/* */" : "//") + " comment before token " + std::to_string(k);
              for (size_t i = 0; i < tok.size(); ++i) { if (i == k) c.text += style ? "/* a \"comment\", {with} [tokens]: */" : "// a \"comment\", {with} [tokens]:\n"; c.text += tok[i]; }
              if (k == tok.size()) c.text += style ? "/* end */" : "// end\n";
              out.push_back(c);
            }
        // key orders: all permutations of the root object's members (<= 5! resp. 6!), and of the first feature's members
        rapidjson::Document d0; d0.Parse(bs[bi].c_str());
        for (int level = 0; level < 2; ++level)
          {
            rapidjson::Value *obj = level == 0 ? &d0 : &d0["features"][0];
            std::vector<std::string> keys;
            for (auto &m : obj->GetObject()) keys.push_back(m.name.GetString());
            const size_t maxk = thorough ? 6 : 5;
            std::vector<size_t> head;
            for (size_t i = 0; i < std::min(keys.size(), maxk); ++i) head.push_back(i);
            std::vector<size_t> perm = head;
            size_t count = 0;
            while (std::next_permutation(perm.begin(), perm.end()))
              {
                if (!thorough && (count++ % 4) != 0 && keys.size() > 4) continue;   // quick: every 4th permutation of the larger objects
                rapidjson::Document d; d.CopyFrom(d0, d.GetAllocator());
                rapidjson::Value *o = level == 0 ? &d : &d["features"][0];
                rapidjson::Value fresh(rapidjson::kObjectType);
                std::vector<size_t> order = perm;
                for (size_t i = perm.size(); i < keys.size(); ++i) order.push_back(i);
                for (size_t i : order)
                  {
                    rapidjson::Value k(keys[i].c_str(), d.GetAllocator());
                    rapidjson::Value v((*o)[keys[i].c_str()], d.GetAllocator());
                    fresh.AddMember(k, v, d.GetAllocator());
                  }
                *o = fresh;
                Cand c; c.kind = "format/key-order"; c.expect = SAME_AS_CANONICAL; c.canonical = canon; c.text = dump(d); c.note = std::string(level == 0 ? "root" : "first feature") + " members permuted";
                out.push_back(c);
              }
          }
      }
  }

  std::shared_ptr<std::vector<Cand>> build_candidates(bool thorough)
  {
    auto out = std::make_shared<std::vector<Cand>>();
    const std::vector<std::string> bs = bases();
    const std::vector<std::string> TOK = {"{", "}", "[", "]", ":", ",", "\"a\"", "1", "-", "1e999", "null", "//"};
    // (a) short byte / token strings
    { Cand c; c.kind = "bytes/empty"; c.text = ""; c.expect = MUST_REJECT; out->push_back(c); }
    for (int b = 0; b < 256; ++b) { Cand c; c.kind = "bytes/single"; c.text = std::string(1, static_cast<char>(b)); c.expect = MUST_REJECT; c.note = "byte " + std::to_string(b); out->push_back(c); }
    const unsigned maxtok = thorough ? 3 : 2;
    for (unsigned len = 1; len <= maxtok; ++len)
      {
        uint64_t n = 1; for (unsigned k = 0; k < len; ++k) n *= TOK.size();
        for (uint64_t i = 0; i < n; ++i)
          {
            Cand c; c.kind = "bytes/tokens"; c.expect = MUST_REJECT;
            uint64_t j = i;
            for (unsigned k = 0; k < len; ++k) { c.text += TOK[j % TOK.size()]; j /= TOK.size(); }
            c.note = "token string"; out->push_back(c);
          }
      }
    if (thorough)
      {
        const std::string A = "{}[]:,\"\\/*0-e.ntf \n\xff";
        for (char x : A) for (char y : A) { Cand c; c.kind = "bytes/pair"; c.text = std::string(1, x) + y; c.expect = MUST_REJECT; out->push_back(c); }
      }
    // (b) byte-level deviations of the small base (thorough: also of base 1)
    std::vector<std::string> bytebases = {B0};
    if (thorough) bytebases.push_back(bs[0]);
    for (size_t bb = 0; bb < bytebases.size(); ++bb)
      {
        const std::string &t = bytebases[bb];
        const std::string tag = "base " + std::to_string(bb);
        for (size_t k = 0; k < t.size(); ++k) { Cand c; c.kind = "bytes/prefix"; c.text = t.substr(0, k); c.note = tag + " cut at " + std::to_string(k); c.expect = MUST_REJECT; out->push_back(c); }
        for (size_t k = 0; k < t.size(); ++k) { Cand c; c.kind = "bytes/delete"; c.text = t.substr(0, k) + t.substr(k + 1); c.note = tag + " byte " + std::to_string(k) + " deleted"; out->push_back(c); }
        for (size_t k = 0; k + 1 < t.size(); ++k) { Cand c; c.kind = "bytes/transpose"; c.text = t; std::swap(c.text[k], c.text[k+1]); c.note = tag + " bytes " + std::to_string(k) + "," + std::to_string(k+1) + " swapped"; out->push_back(c); }
        const size_t ntok = thorough ? (bb == 0 ? TOK.size() : 6) : 3;
        for (size_t k = 0; k < t.size(); ++k) for (size_t it = 0; it < ntok; ++it)
            { Cand c; c.kind = "bytes/substitute"; c.text = t.substr(0, k) + TOK[it] + t.substr(k + 1); c.note = tag + " byte " + std::to_string(k) + " := " + TOK[it]; out->push_back(c); }
      }
    // (c) tree deviations
    tree_candidates(B0, 0, thorough, *out);
    if (thorough) tree_pair_candidates(B0, *out);
    for (size_t bi = 0; bi < bs.size(); ++bi) if (thorough || bi != 1) tree_candidates(bs[bi], static_cast<int>(bi + 1), thorough, *out);
    // version strings: only the exact major.minor of the library may be accepted
    for (const char *v : {"1.1", "1.0", "1.2", "1.10", "1.11", "1.1.0", "1.1 ", " 1.1", "1.1-pre", "11.1", "1", "", "2.1", "01.1", "1.1\\n", "1,1"})
      {
        Cand c; c.kind = "version"; c.note = std::string("version string '") + v + "'";
        c.text = B0; c.text.replace(c.text.find("1.1"), 3, v);
        c.expect = std::string(v) == "1.1" ? MUST_BUILD : MUST_REJECT;
        out->push_back(c);
      }
    // (d) lengths
    length_candidates(thorough, *out);
    // (e) formatting
    format_candidates(bs, thorough, *out);
    // independent schema verdict for everything that is not byte-level garbage
    {
      const std::string in = G().rundir + "/c12_cands.jsonl", outf = G().rundir + "/c12_verdicts.txt";
      { std::ofstream f(in); for (auto &c : *out) f << jstr(c.text) << "\n"; }
      { std::ofstream f(G().rundir + "/c12_notes.txt"); for (auto &c : *out) f << c.kind << " | " << c.note << "\n"; }
      const int rc = system(("python3-vt /verif/tools/schema_verdict.py " + in + " " + outf).c_str());
      std::ifstream f(outf);
      std::string v; std::getline(f, v);
      if (rc != 0 || v.size() != out->size()) { fprintf(stderr, "C12: schema verdict tool failed (rc=%d, %zu verdicts for %zu candidates)\n", rc, v.size(), out->size()); _exit(3); }
      for (size_t i = 0; i < out->size(); ++i) (*out)[i].schema = v[i];
    }
    return out;
  }

  std::vector<double> probe(World &w, bool spherical)
  {
    std::vector<double> all;
    for (double x : {-0.5, 0.5, 1.5, 2.1, 3.5}) for (double y : {-1.0, 0.5, 1.5, 2.0}) for (double d : {0.0, 5e4, 1.5e5, 3e5})
          {
            const P3 p = spherical ? query_point(true, x, y, d) : query_point(false, x*1e5, y*1e5, d);
            for (const Request &r : {Request{{{1,0,0}},{{2,0,0}},{{2,1,0}},{{4,0,0}},{{5,0,0}}}, Request{{{3,0,2}},{{2,2,0}},{{2,3,0}}}})
              {
                const std::vector<double> o = w.properties(p, d, r);
                all.insert(all.end(), o.begin(), o.end());
              }
          }
    return all;
  }

  void run_cand(const std::shared_ptr<std::vector<Cand>> &cands, uint64_t idx, Ctx &ctx)
  {
    static const int c_built = Ctx::counter_id("documents_built"), c_rej = Ctx::counter_id("documents_rejected_with_exception"), c_si = Ctx::counter_id("schema_invalid_by_python"),
                     c_sv = Ctx::counter_id("schema_valid_by_python"), c_probe = Ctx::counter_id("built_worlds_probed");
    const Cand &c = (*cands)[idx];
    ctx.eval();
    if (c.schema == 'I') ctx.count(c_si); else if (c.schema == 'V') ctx.count(c_sv);
    const bool spherical = c.text.find("\"spherical\"") != std::string::npos;
    auto detail = [&](const std::string &what)
    { return JObj().str("what", what).str("kind", c.kind).str("note", c.note).str("python_jsonschema_verdict", std::string(1, c.schema)).str("document", c.text.size() > 6000 ? c.text.substr(0, 6000) : c.text).done(); };
    std::unique_ptr<World> w;
    std::string msg;
    bool rejected = false;
    try { w = make_world(c.text); }
    catch (const std::exception &e) { rejected = true; msg = e.what(); }
    catch (...) { ctx.violation("C12/foreign-exception/" + c.kind, detail("the constructor threw something that is not a std::exception")); return; }
    if (rejected)
      {
        ctx.count(c_rej);
        if (msg.empty()) ctx.violation("C12/exception-without-message/" + c.kind, detail("rejected with an empty message"));
        if (c.expect == MUST_BUILD) ctx.violation("C12/valid-document-rejected/" + c.kind, detail("a valid document was rejected: " + msg.substr(0, 300)));
        if (c.expect == SAME_AS_CANONICAL) ctx.violation("C12/formatting-variant-rejected/" + c.kind, detail("a formatting variant of a valid file was rejected: " + msg.substr(0, 300)));
        // the verdict belongs to the bytes, not to the history of the process: the same content offered again (an application that retries,
        // a service that re-reads the file) must be rejected again
        static const int c_again = Ctx::counter_id("rejected_documents_offered_a_second_time");
        ctx.count(c_again);
        bool rejected_again = false;
        try { auto w2 = make_world(c.text, 1, "again"); }
        catch (const std::exception &) { rejected_again = true; }
        catch (...) { ctx.violation("C12/foreign-exception/" + c.kind, detail("the second construction from the same content threw something that is not a std::exception")); return; }
        // ... nor to the entry point: a world asked to write its declaration files validates the same way (every fourth renamed key; the files are large)
        if (c.kind == "tree/rename-key" && idx % 4 == 0)
          {
            static const int c_out = Ctx::counter_id("rejected_documents_offered_with_an_output_directory");
            ctx.count(c_out);
            const std::string file = write_world_file(c.text, "outdir");
            const std::string dir = G().rundir + "/decl" + std::to_string(G().shard_id);
            (void)!system(("mkdir -p " + dir).c_str());
            bool rejected_out = false;
            try { World w3(file, true, dir + "/", 1); }
            catch (const std::exception &) { rejected_out = true; }
            catch (...) { rejected_out = true; }
            if (!rejected_out)
              ctx.violation("C12/rejected-content-is-accepted-when-an-output-directory-is-given/" + c.kind, detail("the construction without an output directory threw (" + msg.substr(0, 200) + "), the construction that also writes the declaration files built a world from the same content"));
          }
        if (!rejected_again)
          ctx.violation("C12/rejected-content-is-accepted-when-offered-again/" + c.kind, detail("the first construction from this content threw (" + msg.substr(0, 200) + "), a second construction from the same content in the same process built a world"));
      }
    else
      {
        ctx.count(c_built);
        if (c.expect == MUST_REJECT)
          ctx.violation((c.kind.compare(0, 8, "lengths/") == 0 ? "C12/inconsistent-lengths-accepted/" + c.kind.substr(8) : "C12/garbage-accepted/" + c.kind), detail("a document that must be rejected was built"));
        else if (c.schema == 'I')
          ctx.violation("C12/schema-invalid-document-accepted/" + c.kind, detail("the document violates the published schema but was built"));
        // whatever was built must be usable: a few queries (out-of-bounds reads of inconsistent tables show up here)
        ctx.count(c_probe);
        std::vector<double> pr;
        try { pr = probe(*w, spherical); }
        catch (const std::exception &) { pr.clear(); }
        if (c.expect == SAME_AS_CANONICAL)
          {
            const Cand &cc = (*cands)[static_cast<size_t>(c.canonical)];
            auto wc = make_world(cc.text, 1, "canon");
            const std::vector<double> pc = probe(*wc, spherical);
            if (!biteq(pr, pc)) ctx.violation("C12/formatting-variant-differs/" + c.kind, detail("a formatting variant answers differently from the canonical file"));
          }
      }
    ctx.nontrivial();
    if (idx % 997 == 13) ctx.sample(JObj().str("kind", c.kind).str("note", c.note).str("outcome", rejected ? "rejected" : "built").str("python_jsonschema_verdict", std::string(1, c.schema)).str("document_head", c.text.substr(0, 160)).done());
  }
}

int main(int argc, char **argv)
{
  Spec spec;
  spec.property = "C12";
  spec.level = "fault_enumeration";
  spec.rule = "candidates: (a) the empty file, all 256 single bytes, all strings of <= 2|3 tokens over a 12-token JSON alphabet; (b) for a small base document every prefix, every single-byte "
              "deletion, every adjacent transposition, every substitution of a byte by each of 6|12 tokens; (c) for 4 base documents covering every feature type, sections, ridge tables and depth "
              "surfaces: for EVERY node of the JSON tree delete it / replace it by each of 12|14 constants (null, true, 0, -1, 1e308, NaN, Infinity, \"\", \"x\", [], {}, [[]]...) / rename its key / "
              "duplicate the array element; (d) every length in 0..3 for each list of the families that must agree; (e) formatting variants (3 whitespace styles, a comment at every [3rd] token boundary, "
              "key permutations of the root and of the first feature). Every candidate is loaded in the ASan+UBSan build. non-trivial: every candidate; distinct by construction";
  spec.assumptions = {"schema oracle: Python jsonschema (Draft 2020-12 validator) against /verif/oracles/published_schema.json, used one way only: schema-invalid => must be rejected",
                      "worlds that were built are probed with 160 queries so that inconsistent tables are exercised", "a crash, sanitizer report or 120 s watchdog expiry is attributed to the candidate being loaded"
                     };
  spec.counters = {"rejected_documents_offered_with_an_output_directory", "rejected_documents_offered_a_second_time", "documents_built", "documents_rejected_with_exception", "schema_invalid_by_python", "schema_valid_by_python", "built_worlds_probed"};
  spec.quick_deadline_s = 600; spec.thorough_deadline_s = 3000;
  return driver(argc, argv, spec, [](const std::string &tier)
  {
    auto cands = build_candidates(tier == "thorough");
    std::map<std::string,size_t> per;
    for (auto &c : *cands) per[c.kind.substr(0, c.kind.find('/'))]++;
    std::string b;
    for (auto &k : per) b += k.first + ":" + std::to_string(k.second) + " ";
    std::vector<Suite> s(1);
    s[0].name = "documents"; s[0].n = cands->size(); s[0].run = [cands](uint64_t i, Ctx &c) { run_cand(cands, i, c); };
    s[0].describe = [cands](uint64_t i) { return JObj().str("kind", (*cands)[i].kind).str("note", (*cands)[i].note).str("python_jsonschema_verdict", std::string(1, (*cands)[i].schema)).str("document", (*cands)[i].text.substr(0, 4000)).done(); };
    s[0].bound = "candidate documents per class: " + b;
    return s;
  });
}
