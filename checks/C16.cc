// VARIANTS: rel
// C16 - the C and C++ wrappers are transparent (also when one handle / wrapper object is shared by several threads: C16_tsan).
#include "kit.h"
#include "worlds.h"
#include "world_builder/wrapper_c.h"
#include "world_builder/wrapper_cpp.h"
using namespace kit;
using namespace wbgen;
using WorldBuilder::World;

namespace
{
  const std::vector<std::array<unsigned,3>> ATOMS = {{{1,0,0}},{{2,0,0}},{{2,1,0}},{{3,0,1}},{{3,1,2}},{{4,0,0}},{{5,0,0}}};
  const unsigned long SEEDS[] = {0, 1, 7};
  const char *FILES[] = {"world_builder_declarations.schema.json", "world_builder_declarations.tex", "world_builder_declarations_open.md", "world_builder_declarations_closed.md"};

  bool exists(const std::string &p) { struct stat st; return stat(p.c_str(), &st) == 0; }

  void run(uint64_t idx, Ctx &ctx)
  {
    static const int c_cmp = Ctx::counter_id("values_compared"), c_files = Ctx::counter_id("output_dir_checks");
    const Radix rx({4, 3, 4, 3});
    const auto d = rx.decode(idx);
    worlds::Opt o;
    o.spherical = d[0] == 1;
    o.cross_section = true;
    o.random_models = d[0] == 3;
    o.variant = d[0] == 2 ? 1 : 0;
    const std::string text = worlds::rich(o);
    const std::string file = write_world_file(text);
    const unsigned long seed = SEEDS[d[3]];
    // working directory private to this worker, so that files written to "" land somewhere harmless
    const std::string cwd = G().rundir + "/cwd" + std::to_string(G().shard_id);
    (void)!system(("rm -rf " + cwd + " && mkdir -p " + cwd + "/outdir").c_str());
    if (chdir(cwd.c_str()) != 0) { perror("chdir"); _exit(3); }
    const bool flag_values[] = {false, false, true};
    const bool *has_ptr = d[1] == 0 ? nullptr : &flag_values[d[1]];
    const bool has = d[1] == 2;
    const char *dir_values[] = {nullptr, "", "outdir/", "outdir/run1_"};   // the last one is a plain prefix: the library prepends the string to the file names as it is
    const char *dir_ptr = dir_values[d[2]];
    const std::string dir = dir_ptr ? dir_ptr : "";
    const std::string desc = JObj().integer("world", d[0]).str("has_output_dir", d[1] == 0 ? "NULL" : has ? "&true" : "&false")
                             .str("output_dir", dir_ptr ? dir : "NULL").integer("seed", static_cast<long long>(seed)).done();

    void *cw = nullptr;
    try { create_world(&cw, file.c_str(), has_ptr, dir_ptr, seed); }
    catch (const std::exception &e)
      {
        ctx.violation("C16/create_world/throws-on-valid-arguments", JObj().str("what", std::string("create_world threw: ") + std::string(e.what()).substr(0, 300)).raw("args", desc).done());
        if (chdir("/verif") != 0) _exit(3);
        return;
      }
    // where did the declaration files go?
    ctx.count(c_files);
    {
      const std::string where = dir;   // "" means cwd
      for (const char *f : FILES)
        {
          const bool in_dir = exists(cwd + "/" + where + f);
          if (has && !in_dir)
            ctx.violation("C16/create_world/output-dir-not-honoured", JObj().str("what", std::string("declaration file not written to the requested directory: ") + f).raw("args", desc).done());
          if (!has && in_dir)
            ctx.violation("C16/create_world/output-flag-not-honoured", JObj().str("what", std::string("declaration file written although has_output_dir is false/NULL: ") + f).raw("args", desc).done());
        }
      // nothing may appear anywhere else in the private cwd
      std::string listing;
      FILE *p = popen(("cd " + cwd + " && find . -type f | sort").c_str(), "r");
      char buf[512];
      while (p && fgets(buf, sizeof buf, p)) listing += buf;
      if (p) pclose(p);
      size_t nfiles = static_cast<size_t>(std::count(listing.begin(), listing.end(), '\n'));
      if (nfiles != (has ? 4u : 0u))
        ctx.violation("C16/create_world/stray-output-files", JObj().str("what", "unexpected set of files written by create_world").str("files", listing).raw("args", desc).done());
    }
    auto list_files = [&]()
    {
      std::string l;
      FILE *pp = popen(("cd " + cwd + " && find . -type f | sort").c_str(), "r");
      char b[512];
      while (pp && fgets(b, sizeof b, pp)) l += b;
      if (pp) pclose(pp);
      return l;
    };
    (void)!system(("rm -rf " + cwd + "/outdir/* " + cwd + "/world_builder_declarations*").c_str());
    World native(file, has, dir, seed);
    const std::string native_files = list_files();
    (void)!system(("rm -rf " + cwd + "/outdir/* " + cwd + "/world_builder_declarations*").c_str());
    std::unique_ptr<wrapper_cpp::WorldBuilderWrapper> cpp_holder;
    try { cpp_holder = std::make_unique<wrapper_cpp::WorldBuilderWrapper>(file, has, dir, seed); }
    catch (const std::exception &e)
      {
        ctx.violation("C16/cpp-wrapper/throws-on-valid-arguments", JObj().str("what", std::string("WorldBuilderWrapper constructor threw where the native World is built: ") + std::string(e.what()).substr(0, 300)).raw("args", desc).done());
        if (chdir("/verif") != 0) _exit(3);
        return;
      }
    wrapper_cpp::WorldBuilderWrapper &cpp = *cpp_holder;
    // the world with random models: a second native twin receives exactly the query stream of the C++ wrapper (compositions only), so
    // that seed and stream of the wrapper can be compared as well
    std::unique_ptr<World> native_for_cpp;
    if (o.random_models) native_for_cpp = std::make_unique<World>(file, false, "", seed);
    // the wrapper must hand its arguments to the world unchanged: same set of declaration files as the native world
    ctx.count(c_files);
    const std::string cpp_files = list_files();
    if (cpp_files != native_files)
      ctx.violation("C16/cpp-wrapper/output-dir-not-passed-unchanged", JObj().str("what", "the C++ wrapper wrote its declaration files somewhere else than a native World built with the same arguments").str("native_files", native_files).str("wrapper_files", cpp_files).raw("args", desc).done());
    // the C++ wrapper has no random-sensitive entry point; for the random world a second native twin mirrors the C world's query stream
    auto bad = [&](const std::string &fn, const P3 &p, double depth, const std::string &extra)
    {
      ctx.violation("C16/" + fn, JObj().str("what", fn + " differs from the native World").raw("args", desc).raw("point", jarr(p)).num("depth", depth).str("extra", extra).str("world", text).done());
    };
    auto probes = worlds::lattice(o.spherical);
    auto probes2 = worlds::lattice2(o.spherical);
    // depths just above / at / below the reference surface (an application with topography passes negative depths)
    {
      const double su = o.spherical ? 1.0 : 1e5;
      for (double x : {-4.5, 0.5, 2.5}) for (double y : {-1.2, 2.0}) for (double d : {-5e3, -1.0, -1e-3, -1e-12, 1e-12}) probes.push_back({x*su, y*su, d});
      for (double a : {0.7, 5.9}) for (double d : {-5e3, -1e-3, 1e-12})
          {
            if (!o.spherical) probes2.push_back({a*1e5, CART_TOP - d, d});
            else { const double r = R_EARTH - d, ang = a * PI / 180.0; probes2.push_back({r*std::cos(ang), r*std::sin(ang), d}); }
          }
    }
    std::vector<Request> reqs;
    for (auto &a : ATOMS) reqs.push_back({a});
    for (auto &a : ATOMS) for (auto &b : ATOMS) reqs.push_back({a, b});
    for (size_t ip = 0; ip < probes.size(); ip += (o.random_models ? 1 : 1))
      {
        const P3 p = query_point(o.spherical, probes[ip].x, probes[ip].y, probes[ip].depth);
        const double depth = probes[ip].depth;
        for (auto &r : reqs)
          {
            unsigned raw[2][3];
            for (size_t i = 0; i < r.size(); ++i) for (int k = 0; k < 3; ++k) raw[i][k] = r[i][k];
            const unsigned n = properties_output_size(cw, raw, static_cast<unsigned>(r.size()));
            if (n != native.properties_output_size(r)) { bad("properties_output_size", p, depth, jreq(r)); continue; }
            // every query is made twice in a row (an application evaluates a point once per field): the second answer must again be the native one
            for (int again = 0; again < 2; ++again)
              {
                std::vector<double> got(n + 2, -777.25);
                properties_3d(cw, p[0], p[1], p[2], depth, raw, static_cast<unsigned>(r.size()), got.data());
                const std::vector<double> want = native.properties(p, depth, r);
                ctx.eval();
                ctx.count(c_cmp, n);
                if (want.size() != n || std::memcmp(got.data(), want.data(), n*sizeof(double)) != 0) bad(again ? "properties_3d/same-query-repeated" : "properties_3d", p, depth, jreq(r));
                if (got[n] != -777.25 || got[n+1] != -777.25) bad("properties_3d-writes-past-announced-size", p, depth, jreq(r));
              }
          }
        double t = 0;
        temperature_3d(cw, p[0], p[1], p[2], depth, &t);
        if (!biteq(t, native.temperature(p, depth))) bad("temperature_3d", p, depth, "");
        if (!biteq(cpp.temperature_3d(p[0], p[1], p[2], depth), native.temperature(p, depth))) bad("cpp.temperature_3d", p, depth, "");
        if (!biteq(cpp.temperature_3d(p[0], p[1], p[2], depth, 10.0), native.temperature(p, depth))) bad("cpp.temperature_3d(gravity)", p, depth, "");
        for (unsigned c = 0; c < 4; ++c)
          {
            double v = 0;
            composition_3d(cw, p[0], p[1], p[2], depth, c, &v);
            const double w = native.composition(p, depth, c);
            if (!biteq(v, w)) bad("composition_3d", p, depth, std::to_string(c));
            // random composition models draw a number per query: keep the C++ wrapper in step with a matching native draw
            if (!o.random_models && !biteq(cpp.composition_3d(p[0], p[1], p[2], depth, c), w)) bad("cpp.composition_3d", p, depth, std::to_string(c));
            if (o.random_models && !biteq(cpp.composition_3d(p[0], p[1], p[2], depth, c), native_for_cpp->composition(p, depth, c))) bad("cpp.composition_3d/random-model-stream", p, depth, std::to_string(c));
          }
        ctx.eval(6);
      }
    for (size_t ip = 0; ip < probes2.size(); ++ip)
      {
        const double x = probes2[ip].x, z = probes2[ip].z, depth = probes2[ip].depth;
        const P3 p = {{x, z, 0}};
        const std::array<double,2> p2 = {{x, z}};
        for (auto &r : reqs)
          {
            unsigned raw[2][3];
            for (size_t i = 0; i < r.size(); ++i) for (int k = 0; k < 3; ++k) raw[i][k] = r[i][k];
            const unsigned n = native.properties_output_size(r);
            for (int again = 0; again < 2; ++again)
              {
                std::vector<double> got(n + 2, -777.25);
                properties_2d(cw, x, z, depth, raw, static_cast<unsigned>(r.size()), got.data());
                const std::vector<double> want = native.properties(p2, depth, r);
                ctx.eval();
                ctx.count(c_cmp, n);
                if (want.size() != n || std::memcmp(got.data(), want.data(), n*sizeof(double)) != 0) bad(again ? "properties_2d/same-query-repeated" : "properties_2d", p, depth, jreq(r));
                if (got[n] != -777.25 || got[n+1] != -777.25) bad("properties_2d-writes-past-announced-size", p, depth, jreq(r));
              }
          }
        double t = 0;
        temperature_2d(cw, x, z, depth, &t);
        if (!biteq(t, native.temperature(p2, depth))) bad("temperature_2d", p, depth, "");
        if (!biteq(cpp.temperature_2d(x, z, depth), native.temperature(p2, depth))) bad("cpp.temperature_2d", p, depth, "");
        if (!biteq(cpp.temperature_2d(x, z, depth, 3.0), native.temperature(p2, depth))) bad("cpp.temperature_2d(gravity)", p, depth, "");
        for (unsigned c = 0; c < 4; ++c)
          {
            double v = 0;
            composition_2d(cw, x, z, depth, c, &v);
            const double w = native.composition(p2, depth, c);
            if (!biteq(v, w)) bad("composition_2d", p, depth, std::to_string(c));
            if (!o.random_models && !biteq(cpp.composition_2d(x, z, depth, c), w)) bad("cpp.composition_2d", p, depth, std::to_string(c));
          }
      }
    // the seed must have reached the world: engines of the C world and of the native world are in the same state
    {
      std::stringstream a, b;
      a << reinterpret_cast<World *>(cw)->get_random_number_engine();
      b << native.get_random_number_engine();
      if (a.str() != b.str())
        ctx.violation("C16/create_world/seed", JObj().str("what", "random number engine of the C world differs from a native world built with the same seed and queried alike").raw("args", desc).done());
      World other(file, false, "", seed + 1);
      std::stringstream c2, f2;
      c2 << other.get_random_number_engine();
      World fresh(file, false, "", seed);
      f2 << fresh.get_random_number_engine();
      if (c2.str() == f2.str())
        ctx.violation("C16/harness/seed-not-observable", "{}");
    }
    release_world(cw);
    ctx.nontrivial();
    if (idx % 17 == 3) ctx.sample(desc);
    if (chdir("/verif") != 0) _exit(3);
  }
  // file names reach the world unchanged: names with blanks at either end or inside, two files whose names differ only by a trailing blank
  void run_filenames(uint64_t, Ctx &ctx)
  {
    const std::string dir = G().rundir + "/names" + std::to_string(G().shard_id);
    (void)!system(("rm -rf '" + dir + "' && mkdir -p '" + dir + "'").c_str());
    const std::vector<std::string> names = {"w.wb", "w.wb ", " w.wb", "w .wb", "w.wb\t", "w.wb.", "w.WB", "w.wb  ", "w.wb\n"};
    auto text_of = [](size_t i) { return world(coord(false), {"{\"model\":\"mantle layer\",\"name\":\"m\",\"coordinates\":[[-1e6,-1e6],[1e6,-1e6],[1e6,1e6],[-1e6,1e6]],\"temperature models\":[{\"model\":\"uniform\",\"temperature\":" + std::to_string(100 + 11*i) + "}]}"}); };
    for (size_t i = 0; i < names.size(); ++i) { std::ofstream f(dir + "/" + names[i]); f << text_of(i); }
    const P3 p = {{0, 0, CART_TOP - 1e5}};
    for (size_t i = 0; i < names.size(); ++i)
      {
        const std::string path = dir + "/" + names[i];
        const double want = 100 + 11.0*static_cast<double>(i);
        auto bad = [&](const std::string &who, const std::string &what)
        { ctx.violation("C16/file-name-not-passed-unchanged/" + who, JObj().str("what", what).str("file_name", path).num("temperature_configured_in_that_file", want).done()); };
        ctx.eval();
        try { World nat(path, false, "", 1); if (nat.temperature(p, 1e5) != want) { ctx.violation("harness/C16-native-world-reads-another-file", JObj().str("file", path).done()); continue; } }
        catch (const std::exception &e) { ctx.violation("harness/C16-native-world-cannot-open", JObj().str("file", path).str("what", std::string(e.what()).substr(0, 200)).done()); continue; }
        void *cw = nullptr;
        try
          {
            create_world(&cw, path.c_str(), nullptr, nullptr, 1);
            double t = 0; temperature_3d(cw, p[0], p[1], p[2], 1e5, &t);
            if (t != want) bad("create_world", "the C world answers " + num(t) + ": it was built from another file");
            release_world(cw);
          }
        catch (const std::exception &e) { bad("create_world", std::string("create_world threw where the native World reads the file: ") + std::string(e.what()).substr(0, 200)); }
        try
          {
            wrapper_cpp::WorldBuilderWrapper cpp(path, false, "", 1);
            const double t = cpp.temperature_3d(p[0], p[1], p[2], 1e5);
            if (t != want) bad("cpp-wrapper", "the C++ wrapper answers " + num(t) + ": it was built from another file");
          }
        catch (const std::exception &e) { bad("cpp-wrapper", std::string("the C++ wrapper threw where the native World reads the file: ") + std::string(e.what()).substr(0, 200)); }
      }
    ctx.nontrivial();
  }

  // several handles alive at the same time: each one is its own world, also when it was created with exactly the arguments of another one.
  // (0) random world, two C handles and two C++ wrappers with identical arguments, queried in interleaved order: each stream equals that of its own native twin;
  // (1) the file is rewritten between two creations with the same name: the second handle answers from the new contents, the first one keeps the old ones
  void run_handles(uint64_t idx, Ctx &ctx)
  {
    const P3 p = {{-2.5e5, 1e5, CART_TOP - 3e4}};
    if (idx == 0)
      {
        worlds::Opt o; o.random_models = true; o.cross_section = true;
        const std::string file = write_world_file(worlds::rich(o), "c16handles");
        for (unsigned long seed : {1ul, 7ul})
          {
            void *a = nullptr, *b = nullptr;
            create_world(&a, file.c_str(), nullptr, nullptr, seed);
            create_world(&b, file.c_str(), nullptr, nullptr, seed);
            wrapper_cpp::WorldBuilderWrapper ca(file, false, "", seed), cb(file, false, "", seed);
            World na(file, false, "", seed), nb(file, false, "", seed), nca(file, false, "", seed), ncb(file, false, "", seed);
            // pattern of who is asked next: A A B A B B B A ... (the two streams advance at different paces)
            const int PATTERN[12] = {0,0,1,0,1,1,1,0,1,0,0,1};
            for (int k = 0; k < 48; ++k)
              {
                const bool second = PATTERN[k % 12] == 1;
                const P3 q = {{p[0] + 1e4 * (k % 5), p[1] - 2e4 * (k % 3), p[2]}};
                double v = 0;
                composition_3d(second ? b : a, q[0], q[1], q[2], 3e4, 3, &v);
                const double want = (second ? nb : na).composition(q, 3e4, 3);
                ctx.eval();
                if (!biteq(v, want))
                  { ctx.violation("C16/two-handles-with-identical-arguments/c-handle-stream-depends-on-the-other-handle", JObj().str("what", "a random composition through one C handle differs from the native world with the same seed that received the same queries").integer("query_number", k).num("got", v).num("native", want).str("world", file).done()); break; }
                const double vc = (second ? cb : ca).composition_3d(q[0], q[1], q[2], 3e4, 3);
                const double wantc = (second ? ncb : nca).composition(q, 3e4, 3);
                if (!biteq(vc, wantc))
                  { ctx.violation("C16/two-handles-with-identical-arguments/cpp-wrapper-stream-depends-on-the-other-wrapper", JObj().str("what", "a random composition through one C++ wrapper object differs from the native world with the same seed that received the same queries").integer("query_number", k).num("got", vc).num("native", wantc).str("world", file).done()); break; }
              }
            release_world(a); release_world(b);
          }
      }
    else if (idx == 2)
      {
        // a world without a cross section refuses 2-D queries with an exception: the wrappers must not turn the refusal into a normal return
        worlds::Opt o; o.cross_section = false;
        const std::string file = write_world_file(worlds::rich(o), "c16nosection");
        World native(file, false, "", 1);
        bool native_throws = false;
        try { (void)native.temperature(std::array<double,2>{{1e5, CART_TOP - 3e4}}, 3e4); } catch (const std::exception &) { native_throws = true; }
        if (!native_throws) { ctx.violation("harness/C16-native-world-answers-2d-without-cross-section", JObj().str("world", file).done()); return; }
        void *cw = nullptr;
        create_world(&cw, file.c_str(), nullptr, nullptr, 1);
        wrapper_cpp::WorldBuilderWrapper cpp(file, false, "", 1);
        auto must_throw = [&](const std::string &who, const std::function<void()> &f)
        {
          ctx.eval();
          bool threw = false;
          try { f(); } catch (const std::exception &) { threw = true; }
          if (!threw) ctx.violation("C16/refusal-not-passed-on/" + who, JObj().str("what", "the native World refuses a 2-D query on a world without a cross section with an exception; the wrapper returned normally").str("entry_point", who).str("world", file).done());
        };
        double v = 0; double vals[16];
        unsigned raw[2][3] = {{1,0,0},{4,0,0}};
        must_throw("temperature_2d", [&]() { temperature_2d(cw, 1e5, CART_TOP - 3e4, 3e4, &v); });
        must_throw("composition_2d", [&]() { composition_2d(cw, 1e5, CART_TOP - 3e4, 3e4, 0, &v); });
        must_throw("properties_2d", [&]() { properties_2d(cw, 1e5, CART_TOP - 3e4, 3e4, raw, 2, vals); });
        must_throw("cpp.temperature_2d", [&]() { (void)cpp.temperature_2d(1e5, CART_TOP - 3e4, 3e4); });
        must_throw("cpp.composition_2d", [&]() { (void)cpp.composition_2d(1e5, CART_TOP - 3e4, 3e4, 0); });
        release_world(cw);
      }
    else
      {
        const std::string dir = G().rundir + "/rewrite" + std::to_string(G().shard_id);
        (void)!system(("rm -rf '" + dir + "' && mkdir -p '" + dir + "'").c_str());
        const std::string path = dir + "/w.wb";
        auto text_of = [](int T) { return world(coord(false), {"{\"model\":\"mantle layer\",\"name\":\"m\",\"coordinates\":[[-1e6,-1e6],[1e6,-1e6],[1e6,1e6],[-1e6,1e6]],\"temperature models\":[{\"model\":\"uniform\",\"temperature\":" + std::to_string(T) + "}]}"}); };
        { std::ofstream f(path); f << text_of(500); }
        void *a = nullptr, *b = nullptr;
        create_world(&a, path.c_str(), nullptr, nullptr, 1);
        auto ca = std::make_unique<wrapper_cpp::WorldBuilderWrapper>(path, false, "", 1);
        { std::ofstream f(path); f << text_of(900); }
        create_world(&b, path.c_str(), nullptr, nullptr, 1);
        auto cb = std::make_unique<wrapper_cpp::WorldBuilderWrapper>(path, false, "", 1);
        double ta = 0, tb = 0;
        temperature_3d(a, 0, 0, CART_TOP - 1e5, 1e5, &ta); temperature_3d(b, 0, 0, CART_TOP - 1e5, 1e5, &tb);
        ctx.eval(4);
        if (ta != 500 || tb != 900) ctx.violation("C16/file-rewritten-between-two-creations/c-handle", JObj().str("what", "two C handles created from one file name, the file rewritten in between (500 K, then 900 K)").num("first_handle", ta).num("second_handle", tb).done());
        const double tca = ca->temperature_3d(0, 0, CART_TOP - 1e5, 1e5), tcb = cb->temperature_3d(0, 0, CART_TOP - 1e5, 1e5);
        if (tca != 500 || tcb != 900) ctx.violation("C16/file-rewritten-between-two-creations/cpp-wrapper", JObj().str("what", "two C++ wrapper objects created from one file name, the file rewritten in between (500 K, then 900 K)").num("first_object", tca).num("second_object", tcb).done());
        // releasing one handle leaves the other one usable
        release_world(a);
        temperature_3d(b, 0, 0, CART_TOP - 1e5, 1e5, &tb);
        if (tb != 900) ctx.violation("C16/file-rewritten-between-two-creations/c-handle-after-release-of-the-other", JObj().num("second_handle", tb).done());
        release_world(b);
      }
    ctx.nontrivial();
  }

  // free-running ThreadSanitizer pass: one C handle and one C++ wrapper object shared by several threads (separate binary)
  void run_tsan(bool thorough, uint64_t, Ctx &ctx)
  {
    static const int c_q = Ctx::counter_id("tsan_free_running_queries");
    const std::string log = G().rundir + "/c16tsan.log";
    const std::string cmd = "TSAN_OPTIONS='halt_on_error=0 report_signal_unsafe=0 exitcode=66' /verif/build/tsan/bin/C16_tsan " + G().rundir + " " + (thorough ? "8" : "4") + " 20 " + (thorough ? "600" : "120");   // 20 threads: more than any small fixed pool of per-thread slots
    const int rc = system((cmd + " > " + log + " 2>&1").c_str());
    const std::string out = read_tail(log, 200000);
    ctx.eval();
    const size_t qpos = out.find("queries=");
    if (qpos != std::string::npos) ctx.count(c_q, strtoull(out.c_str() + qpos + 8, nullptr, 10));
    if (out.find("WARNING: ThreadSanitizer") != std::string::npos)
      {
        std::string where = "unknown";
        const size_t p = out.find("#0 ");
        if (p != std::string::npos) { const size_t e = out.find('\n', p); where = out.substr(p + 3, std::min<size_t>(e - p - 3, 140)); }
        const size_t r0 = out.find("WARNING: ThreadSanitizer");
        ctx.violation("C16/tsan/data-race-when-a-handle-is-shared-between-threads", JObj().str("first_frame", where).str("report", out.substr(r0, 3500)).str("command", cmd).done());
      }
    else if (out.find("VALUE-MISMATCH") != std::string::npos)
      ctx.violation("C16/shared-handle/value-differs-from-the-native-world", JObj().str("output", out.substr(0, 1500)).done());
    else if (!(WIFEXITED(rc) && WEXITSTATUS(rc) == 0))
      ctx.violation("C16/tsan/run-failed", JObj().integer("rc", rc).str("output_tail", out.size() > 1500 ? out.substr(out.size()-1500) : out).str("command", cmd).done());
    ctx.nontrivial();
    ctx.sample(JObj().str("suite", "tsan").str("command", cmd).done());
  }
}

int main(int argc, char **argv)
{
  Spec spec;
  spec.property = "C16";
  spec.level = "exploration";
  spec.rule = "full product: 4 worlds (cartesian, spherical, second file, with random grains) x has_output_dir {NULL,&false,&true} x output_dir {NULL,\"\",\"outdir/\"} x seed {0,1,7}; "
              "per tuple every C function and every C++ wrapper method is compared bit-for-bit with a native World built with the same arguments on all lattice points "
              "and all request lists of length <= 2 over 7 atoms, each query made twice in a row; tuples are distinct by construction and all non-trivial. tsan suite: a free-running ThreadSanitizer pass in which 8 threads share one handle / wrapper object";
  spec.assumptions = {"the random world is queried with identical query streams on the C world and its native twin", "output directory given relative to a private working directory"};
  spec.counters = {"values_compared", "output_dir_checks", "tsan_free_running_queries"};
  return driver(argc, argv, spec, [](const std::string &tier)
  {
    const bool th = tier == "thorough";
    std::vector<Suite> s(4);
    s[3].name = "handles"; s[3].n = 3; s[3].run = run_handles;
    s[3].bound = "several handles alive at once: two C handles and two C++ wrapper objects with identical arguments on a world with random models, 48 queries in an uneven interleaving, seeds 1 and 7, each stream compared with its own native twin; one file name rewritten between two creations; 2-D entry points of both wrappers on a world without a cross section (the refusal must come through)";
    s[2].name = "filenames"; s[2].n = 1; s[2].run = run_filenames;
    s[2].bound = "9 file names that differ by leading / trailing / inner blanks, tab, newline, dot, case: each holds its own uniform temperature; C interface and C++ wrapper must read the named file like the native World does";
    s[1].name = "tsan"; s[1].n = 1; s[1].run = [th](uint64_t i, Ctx &c) { run_tsan(th, i, c); }; s[1].watchdog_s = 900;
    s[1].bound = "ThreadSanitizer build, free running: 20 threads (thread t uses request list t % 3 of three lists of different lengths) share one C handle and one C++ wrapper object (temperature / composition with different numbers / properties, 2-D and 3-D) on 4 | 8 worlds; no report, all values equal the native single-threaded answers";
    s[0].name = "wrappers"; s[0].n = 4*3*4*3; s[0].run = run;
    s[0].bound = "4 worlds x 3 flag pointers x 3 directory arguments x 3 seeds, full product; 240 3-D + 54 2-D points x 56 request lists";
    return s;
  });
}
