// VARIANTS: tsan
// C14 (c) - free-running ThreadSanitizer pass: the same query bodies as the scheduler harness plus a wider
// world set; any TSan report is a violation. Built with -fsanitize=thread, no scheduler, hook pointer null.
// usage: C14_tsan <rundir> <rounds> <threads> <queries-per-thread>
#include <atomic>
#include <thread>
#include "kit.h"
#include "worlds.h"
using namespace wbgen;
using WorldBuilder::World;

int main(int argc, char **argv)
{
  if (argc < 5) return 2;
  kit::G().rundir = argv[1];
  const int rounds = atoi(argv[2]), nthreads = atoi(argv[3]), nq = atoi(argv[4]);
  unsigned long long total = 0;
  for (int round = 0; round < rounds; ++round)
    {
      worlds::Opt o;
      o.spherical = round % 2 == 1;
      o.variant = (round / 2) % 2;
      o.cross_section = true;
      // every second pair of rounds: slabs with the mass conserving model (its helper functions and workspaces), one with a spline
      if ((round / 2) % 2 == 1) { o.slab_model = 1 + (round / 4) % 2; o.second_slab = true; o.variant = 0; o.water = true; }
      std::string text = worlds::rich(o);
      // odd pairs of rounds: the mantle layer's temperature is the 'adiabatic' model (it reads the world-level constants) with the linear model added on top
      if ((round / 2) % 2 == 0 && round >= 2)
        {
          const std::string lin = "{\"model\":\"linear\",\"min depth\":1e5,\"max depth\":4e5,\"top temperature\":1500,\"bottom temperature\":1700}";
          const size_t at = text.find(lin);
          if (at == std::string::npos) { printf("HARNESS-ERROR mantle layer model not found in the world text\n"); return 3; }
          text.replace(at, lin.size(), "{\"model\":\"adiabatic\",\"min depth\":1e5,\"max depth\":4e5},{\"model\":\"linear\",\"min depth\":1e5,\"max depth\":4e5,\"top temperature\":150,\"bottom temperature\":170,\"operation\":\"add\"}");
        }
      // a brand-new world per round: the very first queries of all threads overlap (lazy initialisation races)
      auto w = kit::make_world(text, 1, "tsan");
      const auto probes = worlds::lattice(o.spherical);
      const auto probes2 = worlds::lattice2(o.spherical);
      // sequential reference on a second world
      auto wref = kit::make_world(text, 1, "tsanref");
      const kit::Request reqs[4] = {{{{1,0,0}}}, {{{1,0,0}},{{2,0,0}},{{4,0,0}}}, {{{3,0,2}},{{5,0,0}},{{1,0,0}},{{2,1,0}}}, {{{4,0,0}},{{5,0,0}}}};
      // single-threaded reference answers
      std::vector<double> rT(probes.size()); std::vector<std::array<double,3>> rC(probes.size());
      std::vector<std::array<std::vector<double>,4>> rB(probes.size()), rB2(probes2.size());
      for (size_t ip = 0; ip < probes.size(); ++ip)
        {
          const P3 p = query_point(o.spherical, probes[ip].x, probes[ip].y, probes[ip].depth);
          rT[ip] = wref->temperature(p, probes[ip].depth);
          for (unsigned c = 0; c < 3; ++c) rC[ip][c] = wref->composition(p, probes[ip].depth, c);
          for (int r = 0; r < 4; ++r) rB[ip][static_cast<size_t>(r)] = wref->properties(p, probes[ip].depth, reqs[r]);
        }
      for (size_t i2 = 0; i2 < probes2.size(); ++i2)
        for (int r = 0; r < 4; ++r) rB2[i2][static_cast<size_t>(r)] = wref->properties(std::array<double,2>{{probes2[i2].x, probes2[i2].z}}, probes2[i2].depth, reqs[r]);
      std::atomic<int> ready{0};
      std::atomic<unsigned long long> mismatches{0}, done{0};
      std::vector<std::thread> th;
      for (int t = 0; t < nthreads; ++t)
        th.emplace_back([&, t]()
        {
          ready.fetch_add(1);
          while (ready.load() < nthreads) {}     // start together
          for (int q = 0; q < nq; ++q)
            {
              // all threads sweep the same points in different orders; every point is asked twice in a row
              // through different entry points (temperature then composition / batched), as applications do
              const size_t ip = (static_cast<size_t>(q) * 7 + static_cast<size_t>(t) * 13) % probes.size();
              const P3 p = query_point(o.spherical, probes[ip].x, probes[ip].y, probes[ip].depth);
              const double d = probes[ip].depth;
              const double T1 = w->temperature(p, d);
              const double c1 = w->composition(p, d, static_cast<unsigned>(q % 3));
              const std::vector<double> b = w->properties(p, d, reqs[(q + t) % 4]);
              const size_t i2 = (static_cast<size_t>(q) * 5 + static_cast<size_t>(t)) % probes2.size();
              const std::vector<double> b2 = w->properties(std::array<double,2>{{probes2[i2].x, probes2[i2].z}}, probes2[i2].depth, reqs[(q + 2*t) % 4]);
              if (!kit::biteq(T1, rT[ip]) || !kit::biteq(c1, rC[ip][static_cast<size_t>(q % 3)]) || !kit::biteq(b, rB[ip][static_cast<size_t>((q + t) % 4)])
                  || !kit::biteq(b2, rB2[i2][static_cast<size_t>((q + 2*t) % 4)]))
                mismatches.fetch_add(1);
              done.fetch_add(4);
            }
        });
      for (auto &x : th) x.join();
      total += done.load();
      if (mismatches.load() > 0) printf("VALUE-MISMATCH round=%d count=%llu world=%s\n", round, static_cast<unsigned long long>(mismatches.load()), o.spherical ? "spherical" : "cartesian");
    }
  // worlds with random models, one world per thread (nothing is shared by construction): every thread's answers must equal those of a world queried alone
  for (int sph = 0; sph < 2; ++sph)
    {
      worlds::Opt o; o.spherical = sph; o.random_models = true; o.cross_section = true;
      const std::string text = worlds::rich(o);
      const auto probes = worlds::lattice(o.spherical);
      const kit::Request rq = {{{3,1,4}},{{2,3,0}},{{3,0,2}},{{1,0,0}}};
      std::vector<std::vector<double>> ref;
      {
        auto wr = kit::make_world(text, 7, "ownref");
        for (int q = 0; q < nq / 4; ++q) { const auto &pr = probes[(static_cast<size_t>(q) * 7) % probes.size()]; ref.push_back(wr->properties(wbgen::query_point(o.spherical, pr.x, pr.y, pr.depth), pr.depth, rq)); }
      }
      std::atomic<int> ready{0};
      std::atomic<unsigned long long> mismatches{0};
      std::vector<std::thread> th;
      for (int t = 0; t < nthreads; ++t)
        th.emplace_back([&, t]()
        {
          auto w = kit::make_world(text, 7, "own" + std::to_string(t));
          ready.fetch_add(1);
          while (ready.load() < nthreads) {}
          for (int q = 0; q < nq / 4; ++q)
            {
              const auto &pr = probes[(static_cast<size_t>(q) * 7) % probes.size()];
              if (!kit::biteq(w->properties(wbgen::query_point(o.spherical, pr.x, pr.y, pr.depth), pr.depth, rq), ref[static_cast<size_t>(q)])) mismatches.fetch_add(1);
            }
        });
      for (auto &x : th) x.join();
      total += static_cast<unsigned long long>(nthreads) * static_cast<unsigned long long>(nq / 4);
      if (mismatches.load() > 0) printf("VALUE-MISMATCH own-worlds count=%llu world=%s\n", static_cast<unsigned long long>(mismatches.load()), o.spherical ? "spherical" : "cartesian");
    }
  printf("tsan-pass rounds=%d threads=%d queries=%llu\n", rounds, nthreads, total);
  return 0;
}
