// VARIANTS: rel
// C07 - acceleration shortcuts never change an answer.
//  line:    every slab/fault of the alphabet is built twice in one process, with the culling bounds (bounding box,
//           depth cut-off) as computed and with the GWB_VERIF switch that makes them infinite; all answers bit-identical
//  surface: Objects::Surface::local_value (kd-tree guided triangle search) against a full scan over its triangles
#include "kit.h"
#include "wbgen.h"
#include "world_builder/verif_hooks.h"
#include "world_builder/objects/surface.h"
#include "world_builder/objects/bezier_curve.h"
using namespace kit;
using namespace wbgen;
using WorldBuilder::World;
using WorldBuilder::Point;

namespace
{
  // ---------------- line features ----------------
  const double DIPS[] = {30, 1, 90, 150, 179, 60, 3};
  const double MIND[] = {0, 5e4, 2e5};
  const double LEN[] = {3e5, 5e4};
  const double THICK[] = {1e5, 1e3};
  // coordinate settings: 0 cartesian; 1..3 spherical at latitude 0, 60, 85; 4 spherical trench across the dateline;
  // 5 spherical trench along a meridian from latitude 40 to 70; 6 along a meridian from latitude 0 to 85; 7 along the meridian -179, dipping west across the date line
  const int NSET = 8, NSHAPE = 4;
  const std::vector<uint64_t> LINE_RADIX = {2 /*slab,fault*/, NSET, NSHAPE, 7, 3, 2, 2, 2 /*thickness pair variant*/, 2 /*first segment is an arc from the dip to 180 - dip (through the vertical)*/, 2 /*second segment keeps the dip of the first (one plane down to the tip)*/};

  struct Line { bool fault; int setting, shape; double dip, mind, len, thick; bool thick_grows; bool arc_through_vertical; bool one_plane; };
  Line decode_line(const std::vector<unsigned> &d)
  {
    return {d[0] == 1, static_cast<int>(d[1]), static_cast<int>(d[2]), DIPS[d[3]], MIND[d[4]], LEN[d[5]], THICK[d[6]], d[7] == 1, d[8] == 1, d[9] == 1};
  }
  // trench shapes in local units (u along, v across), roughly 3 units long
  std::vector<P2> shape_pts(int shape)
  {
    switch (shape)
      {
        case 0: return {{{-1.5,0}},{{1.5,0}}};                                   // straight
        case 1: return {{{-1.5,0}},{{0,0}},{{0.9,0.9}}};                         // bend
        case 2: return {{{-1.5,0.3}},{{-0.5,-0.3}},{{0.5,0.3}},{{1.5,-0.3}}};    // S-curve
        default: return {{{-1.5,0}},{{-0.6,0.5}},{{0.6,0.5}},{{1.5,0}}};         // arc
      }
  }
  // local (u along the trench, v across) -> file coordinates: (lon0 + u*ax + v*bx, lat0 + u*ay + v*by)
  struct Frame
  {
    bool sph; double lon0, lat0, ax, ay, bx, by;
    P2 map(double u, double v) const { return {{lon0 + u*ax + v*bx, lat0 + u*ay + v*by}}; }
  };
  Frame frame_for(int setting)
  {
    if (setting == 0) return {false, 0, 0, 1e5, 0, 0, 1e5};
    if (setting == 5) return {true, 20, 55, 0, 10, 0.9/std::cos(55*PI/180), 0};          // meridional trench, latitude 40..70
    if (setting == 6) return {true, 20, 42.5, 0, 85.0/3.0, 0.9/std::cos(42.5*PI/180), 0};  // meridional trench, latitude 0..85
    if (setting == 7) return {true, -179, 10, 0, 10, 0.9/std::cos(10*PI/180), 0};          // meridional trench at longitude -179 dipping west: the body and its box reach below -180, queries arrive with positive longitudes
    const double lat = setting == 1 ? 0 : setting == 2 ? 60 : setting == 3 ? 85 : 10;
    const double lon = setting == 4 ? 180 : 20;
    // 1 local unit ~ 100 km: 0.9 degree of latitude, 0.9/cos(lat) degree of longitude
    return {true, lon, lat, 0.9/std::cos(lat*PI/180), 0, 0, 0.9};
  }
  std::string line_world(const Line &l, const Frame &f)
  {
    std::vector<P2> c;
    for (auto &p : shape_pts(l.shape)) c.push_back(f.map(p[0], p[1]));
    const P2 dip_point = f.map(0, -8);
    // growing thickness: the largest value appears only as the down-dip entry of the last segment
    const std::string thick = l.thick_grows ? "[" + num(l.thick) + "," + num(2*l.thick) + "]" : "[" + num(l.thick) + "]";
    std::string feat = "{\"model\":\"" + std::string(l.fault ? "fault" : "subducting plate") + "\",\"name\":\"L\",\"coordinates\":" + pts(c) + ",\"dip point\":" + pt(dip_point) +
                       ",\"min depth\":" + num(l.mind) + ",\"segments\":[{\"length\":" + num(0.6*l.len) + ",\"thickness\":" + thick + ",\"angle\":[" + num(l.dip) + (l.arc_through_vertical ? "," + num(180 - l.dip) : std::string()) + "]},"
                       "{\"length\":" + num(0.4*l.len) + ",\"thickness\":" + (l.thick_grows ? "[" + num(2*l.thick) + "," + num(4*l.thick) + "]" : thick) + ",\"angle\":[" + num(l.dip) + (l.thick_grows || l.one_plane ? std::string() : "," + num(std::min(179.0, l.dip + 15))) + "]}]";
    if (l.fault) feat += ",\"temperature models\":[{\"model\":\"linear\",\"max distance fault center\":" + num(3*l.thick) + ",\"center temperature\":900,\"side temperature\":1100}]";
    else feat += ",\"temperature models\":[{\"model\":\"linear\",\"max distance slab top\":" + num(3*l.thick) + ",\"top temperature\":300,\"bottom temperature\":1300}]";
    feat += ",\"composition models\":[{\"model\":\"uniform\",\"compositions\":[0],\"fractions\":[0.625]}]}";
    return world(coord(f.sph), {feat});
  }

  void run_line(const std::shared_ptr<std::vector<std::vector<unsigned>>> &tuples, uint64_t idx, Ctx &ctx)
  {
    static const int c_in = Ctx::counter_id("points_inside_feature"), c_cmp = Ctx::counter_id("points_compared"), c_culled_in = Ctx::counter_id("points_inside_only_without_culling");
    const Line l = decode_line((*tuples)[idx]);
    const Frame f = frame_for(l.setting);
    const std::string text = line_world(l, f);
    std::unique_ptr<World> normal, unculled;
    try
      {
        WorldBuilder::Verif::disable_culling = false;
        normal = make_world(text, 1, "n");
        WorldBuilder::Verif::disable_culling = true;
        unculled = make_world(text, 1, "u");
        WorldBuilder::Verif::disable_culling = false;
      }
    catch (const std::exception &e)
      {
        WorldBuilder::Verif::disable_culling = false;
        ctx.violation("harness/world-rejected", JObj().str("what", std::string(e.what()).substr(0, 300)).str("world", text).done());
        return;
      }
    const Request req = {{{1,0,0}},{{2,0,0}},{{4,0,0}}};
    // lattice: +-3(length+thickness) around the trench (local unit = 100 km), depths down to below the deepest possible point
    const double tmax = l.thick_grows ? 4*l.thick : l.thick;
    const double reach = 3.0*(l.len + tmax)/1e5 + 2.0;
    const double step = reach/12.0;
    const double deepest = l.mind + l.len + tmax;
    std::vector<double> depths = {0.0, 0.5*l.mind, l.mind, l.mind + 1e3, l.mind + 0.1*l.len, l.mind + 0.3*l.len, l.mind + 0.6*l.len, l.mind + l.len, deepest, 1.05*deepest + 1e3, l.mind + 0.45*l.len + 0.5*l.thick, l.mind + l.len + 0.5*tmax, l.mind + 0.7*tmax};
    bool any_in = false;
    const std::string ldesc = JObj().str("feature", l.fault ? "fault" : "subducting plate").integer("coordinate_setting", l.setting).integer("trench_shape", l.shape).num("dip", l.dip)
                              .num("min_depth", l.mind).num("length", l.len).num("thickness", l.thick).boolean("thickness_grows_down_dip", l.thick_grows).boolean("first_segment_is_an_arc_through_the_vertical", l.arc_through_vertical).boolean("second_segment_keeps_the_dip", l.one_plane).done();
    // extra probes (natural x, y, depth; or a raw cartesian point with its depth): see below
    struct Extra { double x, y, depth; };
    std::vector<Extra> extras;
    // (a) the down-dip end of the body below every point of the actual trench curve (it overshoots the straight connections of the
    //     coordinates at bends): the last few per cent of the length, where a culling box that is a little too small bites first
    if (!f.sph)
      {
        std::vector<Point<2>> cp;
        for (auto &q : shape_pts(l.shape)) { const P2 m = f.map(q[0], q[1]); cp.emplace_back(m[0], m[1], WorldBuilder::CoordinateSystem::cartesian); }
        const WorldBuilder::Objects::BezierCurve curve(cp);
        const double dr = l.dip * PI / 180;
        if (!l.arc_through_vertical)
          for (size_t sg = 0; sg + 1 < cp.size(); ++sg) for (int k = 0; k <= 16; ++k)
              {
                const Point<2> c0 = curve(sg, k/16.0), c1 = curve(sg, std::min(1.0, k/16.0 + 1e-4) == k/16.0 ? k/16.0 - 1e-4 : std::min(1.0, k/16.0 + 1e-4));
                double tx = c1[0]-c0[0], ty = c1[1]-c0[1]; const double tn = std::sqrt(tx*tx+ty*ty); if (!(tn > 0)) continue; tx /= tn; ty /= tn;
                if (k/16.0 + 1e-4 > 1.0) { tx = -tx; ty = -ty; }
                // unit normal pointing to the side of the dip point (v < 0)
                double nx = ty, ny = -tx;
                const P2 dp = f.map(0, -8);
                if ((dp[0]-c0[0])*nx + (dp[1]-c0[1])*ny < 0) { nx = -nx; ny = -ny; }
                for (double frac : {0.5, 0.9, 0.97, 0.995})
                  {
                    // the part with constant dip (the first segment, or the whole length when the second segment keeps the dip): a point on the centre plane of the fault / just below the top of the slab
                    const double along = frac * (l.thick_grows || l.one_plane ? 1.0 : 0.6) * l.len, h = along * std::cos(dr), dep = l.mind + along * std::sin(dr) + (l.fault ? 0.0 : 0.3 * l.thick / std::max(0.2, std::fabs(std::cos(dr))));
                    extras.push_back({c0[0] + nx*h, c0[1] + ny*h, dep});
                  }
              }
      }
    // All points are first asked of the world with shortcuts, one after the other, and then of the world without them: a shortcut that
    // remembers something about the previous query of the same feature is then exercised the way a mesh generator exercises it.
    struct Q { double x, y, depth; P3 p; };
    auto evaluate = [&](const std::vector<Q> &qs, std::vector<Q> *members)
    {
      std::vector<std::vector<double>> A;
      A.reserve(qs.size());
      for (auto &q : qs) A.push_back(normal->properties(q.p, q.depth, req));
      for (size_t i = 0; i < qs.size(); ++i)
        {
          const Q &q = qs[i];
          const std::vector<double> &a = A[i];
          const std::vector<double> b = unculled->properties(q.p, q.depth, req);
          ctx.eval(); ctx.count(c_cmp);
          if (b[2] != -1) { any_in = true; ctx.count(c_in); if (members) members->push_back(q); }
          if (!biteq(a, b))
            {
              if (a[2] == -1 && b[2] != -1) ctx.count(c_culled_in);
              const char *which = (a[2] == -1 && b[2] != -1) ? "member-point-discarded" : (a[2] != -1 && b[2] == -1) ? "point-added-by-shortcut" : "values-differ";
              const char *why = q.depth > l.len + tmax && l.mind > 0 ? "/deeper-than-length-plus-thickness-with-min-depth" : "";
              ctx.violation(std::string("C07/line/") + (l.fault ? "fault/" : "subducting plate/") + (f.sph ? "spherical/" : "cartesian/") + which + why,
                            JObj().raw("case", ldesc).raw("point_natural", jarr(std::vector<double>{q.x, q.y})).raw("point_cartesian", jarr(q.p)).num("depth", q.depth).raw("with_shortcuts", jarr(a)).raw("without_shortcuts", jarr(b)).str("world", text).done());
            }
        }
    };
    std::vector<Q> qs, members;
    for (int iu = -12; iu <= 12; ++iu) for (int iv = -12; iv <= 12; ++iv)
        {
          const P2 xy = f.map(iu*step, iv*step);
          if (f.sph && std::fabs(xy[1]) > 89.5) continue;
          for (double depth : depths) qs.push_back({xy[0], xy[1], depth, query_point(f.sph, xy[0], xy[1], depth)});
        }
    for (auto &e : extras) qs.push_back({e.x, e.y, e.depth, query_point(f.sph, e.x, e.y, e.depth)});
    evaluate(qs, &members);
    // (b) spherical worlds: cartesian columns (same x and y, z varying), as a cartesian mesh generator visits them: each column runs through a
    //     member point and starts 1000 km away from it along z, far outside the culling box (whose extent is in longitude and latitude)
    if (f.sph && !members.empty())
      {
        std::vector<Q> cols;
        for (size_t pick : {size_t(0), members.size()/2, members.size()-1})
          for (int sgn : {-1, 1}) for (int k = 10; k >= 0; --k)
              {
                const Q &t = members[pick];
                const P3 q = {{t.p[0], t.p[1], t.p[2] + sgn*k*1e5}};
                const double rr = std::sqrt(q[0]*q[0] + q[1]*q[1] + q[2]*q[2]);
                if (rr > R_EARTH) continue;
                cols.push_back({std::atan2(q[1], q[0])*180/PI, std::asin(q[2]/rr)*180/PI, k == 0 ? t.depth : R_EARTH - rr, k == 0 ? t.p : q});
              }
        evaluate(cols, nullptr);
      }
    if (any_in) ctx.nontrivial();
    if (idx % 97 == 5) ctx.sample(ldesc);
  }

  // ---------------- surfaces ----------------
  struct SurfCase { int base; std::vector<int> extra; int flavour; };
  const std::vector<std::vector<P2>> BASES =
  {
    {{{0,0}},{{4,0}},{{4,4}},{{0,4}}},
    {{{0,0}},{{8,0}},{{8,1}},{{0,1}}},
    {{{0,0}},{{4,0}},{{4,2}},{{2,2}},{{2,4}},{{0,4}}},
  };
  const std::vector<std::vector<P2>> EXTRA =
  {
    {{{1,1}},{{2,2}},{{3,1}},{{1,3}},{{2,1}},{{3,3}},{{0.5,0.5}}},
    {{{1,0.5}},{{2,0.5}},{{4,0.5}},{{7,0.5}},{{0.5,0.25}},{{7.5,0.75}},{{6,0.5}}},
    {{{1,1}},{{3,1}},{{1,3}},{{1,2}},{{2,1}},{{0.5,3.5}},{{3.5,0.5}}},
  };
  std::shared_ptr<std::vector<SurfCase>> surf_cases(size_t maxextra)
  {
    auto out = std::make_shared<std::vector<SurfCase>>();
    for (int b = 0; b < 3; ++b)
      {
        std::vector<int> cur;
        std::function<void(int)> rec = [&](int start)
        {
          for (int fl = 0; fl < 5; ++fl) out->push_back({b, cur, fl});
          if (cur.size() == maxextra) return;
          for (int i = start; i < static_cast<int>(EXTRA[static_cast<size_t>(b)].size()); ++i) { cur.push_back(i); rec(i+1); cur.pop_back(); }
        };
        rec(0);
      }
    return out;
  }
  void run_surface(const std::shared_ptr<std::vector<SurfCase>> &cases, uint64_t idx, Ctx &ctx)
  {
    static const int c_q = Ctx::counter_id("surface_queries"), c_alias = Ctx::counter_id("surface_queries_through_longitude_alias"), c_out = Ctx::counter_id("surface_points_outside_triangulation");
    const SurfCase &c = (*cases)[idx];
    // flavour: 0 cartesian (unit 1e5), 1 spherical lon offset 0, 2 spherical straddling 180, 3 spherical all beyond 180, 4 cartesian turned and moved far from the origin
    const bool sph = c.flavour > 0 && c.flavour < 4;
    const double unit = sph ? PI/180 : 1e5, off = c.flavour == 2 ? 178*PI/180 : c.flavour == 3 ? 200*PI/180 : 0;
    std::vector<P2> pl = BASES[static_cast<size_t>(c.base)];
    for (int e : c.extra) pl.push_back(EXTRA[static_cast<size_t>(c.base)][static_cast<size_t>(e)]);
    std::vector<double> values, coords;
    const double VAL[3] = {1e5, 2.5e5, 1.7e5};
    // flavour 4: cartesian, turned by 30 degrees and moved to (1e7, 1e7): no edge is parallel to an axis and points meant to lie on an edge miss it by rounding,
    // which is what the last-resort triangle test of the lookup exists for
    const bool turned = c.flavour == 4;
    const double c30 = std::cos(PI/6), s30 = std::sin(PI/6);
    auto place = [&](double px, double py) -> P2 { return turned ? P2{{1e7 + (c30*px - s30*py)*1e5, 1e7 + (s30*px + c30*py)*1e5}} : P2{{off + px*unit, py*unit}}; };
    for (size_t i = 0; i < pl.size(); ++i) { values.push_back(VAL[(i*2+static_cast<size_t>(c.base)) % 3] + 1e3*static_cast<double>(i)); const P2 q = place(pl[i][0], pl[i][1]); coords.push_back(q[0]); coords.push_back(q[1]); }
    const WorldBuilder::Objects::Surface surf(std::make_pair(values, coords));
    const auto cs = sph ? WorldBuilder::CoordinateSystem::spherical : WorldBuilder::CoordinateSystem::cartesian;
    std::string cdesc = JObj().integer("base_polygon", c.base).raw("extra_points", jarr(c.extra)).integer("flavour", c.flavour).integer("triangles", static_cast<long long>(surf.triangles.size())).done();
    const double xmax = c.base == 1 ? 8 : 4, ymax = c.base == 1 ? 1 : 4;
    for (double qx = 0.0; qx <= xmax + 1e-9; qx += (c.base == 1 ? 0.25 : 0.25)) for (double qy = 0.0; qy <= ymax + 1e-9; qy += (c.base == 1 ? 0.125 : 0.25))
        {
          // the library hands over longitudes in (-pi, pi]
          double lon = place(qx, qy)[0];
          const double lat = place(qx, qy)[1];
          bool alias = false;
          if (sph && lon > PI) { lon -= 2*PI; alias = true; }
          // full scan (long double barycentric coordinates), trying the point and its 2*pi alias
          std::vector<double> candidates;
          for (auto &t : surf.triangles)
            for (int k = 0; k < (sph ? 2 : 1); ++k)
              {
                const long double px = k == 0 ? lon : (lon < 0 ? lon + 2*PI : lon - 2*PI), py = lat;
                const long double x0 = t[0][0], y0 = t[0][1], x1 = t[1][0], y1 = t[1][1], x2 = t[2][0], y2 = t[2][1];
                const long double det = (y1-y2)*(x0-x2) + (x2-x1)*(y0-y2);
                if (det == 0) continue;
                const long double l0 = ((y1-y2)*(px-x2) + (x2-x1)*(py-y2))/det, l1 = ((y2-y0)*(px-x2) + (x0-x2)*(py-y2))/det, l2 = 1 - l0 - l1;
                if (l0 >= -1e-11L && l1 >= -1e-11L && l2 >= -1e-11L) candidates.push_back(static_cast<double>(l0*t[0][2] + l1*t[1][2] + l2*t[2][2]));
              }
          if (candidates.empty()) { ctx.count(c_out); continue; }
          ctx.eval(); ctx.count(c_q); if (alias) ctx.count(c_alias);
          double got = 0;
          try { got = surf.local_value(Point<2>(lon, lat, cs)).interpolated_value; }
          catch (const std::exception &e)
            {
              ctx.violation(std::string("C07/surface/") + (sph ? "spherical" : "cartesian") + "/point-in-a-triangle-not-found", JObj().raw("case", cdesc).raw("query_lattice", jarr(std::vector<double>{qx, qy})).done());
              continue;
            }
          bool ok = false;
          for (double v : candidates) if (std::fabs(got - v) <= 1e-6) ok = true;   // values are ~1e5: 1e-11 relative
          if (!ok)
            ctx.violation(std::string("C07/surface/") + (sph ? "spherical" : "cartesian") + (alias ? "/aliased-longitude" : "") + "/guided-search-differs-from-full-scan",
                          JObj().raw("case", cdesc).raw("query_lattice", jarr(std::vector<double>{qx, qy})).num("longitude_handed_over", lon).num("local_value", got).raw("full_scan_values", jarr(candidates)).done());
        }
    ctx.nontrivial();
    if (idx % 131 == 2) ctx.sample(cdesc);
  }
}

int main(int argc, char **argv)
{
  Spec spec;
  spec.property = "C07";
  spec.level = "exploration";
  spec.rule = "line suite: slabs and faults from the product {slab,fault} x 8 coordinate settings (cartesian; spherical at latitude 0, 60, 85; trench across the dateline; meridional trenches spanning latitude 40..70 and 0..85; a meridional trench at longitude -179 dipping west across the date line) x 4 trench shapes x 7 dips x "
              "3 min depths x 2 lengths x 2 thicknesses x {constant, growing thickness} (quick: all tuples within 3 deviations of the default; thorough: full product), each built twice in one process - "
              "culling bounds as computed and made infinite through the GWB_VERIF switch - and compared bit-for-bit on a 25x25x13 lattice reaching 3(length+thickness) around the trench and below the "
              "deepest possible point; surface suite: every value-point layout (3 base polygons x every subset of <= 2|3 of 7 extra points x 5 coordinate flavours) - local_value against a full "
              "long-double scan of its triangles. non-trivial: some lattice point lies inside the feature; tuples distinct by construction";
  spec.assumptions = {"the un-accelerated evaluation is the same code with infinite culling bounds (hook) resp. a full scan over the triangles of the same triangulation"};
  spec.counters = {"points_inside_feature", "points_compared", "points_inside_only_without_culling", "surface_queries", "surface_queries_through_longitude_alias", "surface_points_outside_triangulation"};
  spec.quick_deadline_s = 300; spec.thorough_deadline_s = 1500;
  return driver(argc, argv, spec, [](const std::string &tier)
  {
    const bool th = tier == "thorough";
    std::vector<Suite> s;
    {
      std::shared_ptr<std::vector<std::vector<unsigned>>> tuples;
      if (th)
        {
          tuples = std::make_shared<std::vector<std::vector<unsigned>>>();
          const Radix rx(LINE_RADIX);
          for (uint64_t i = 0; i < rx.total(); ++i) tuples->push_back(rx.decode(i));
        }
      else
        {
          tuples = std::make_shared<std::vector<std::vector<unsigned>>>(deviations(LINE_RADIX, 3));
          // shallow, thin bodies in one plane under bent traces (5 deviations from the default, hence listed): where the hanging tip comes closest to the edge of a culling box
          for (unsigned ft : {0u, 1u}) for (unsigned sh : {1u, 2u, 3u}) for (unsigned dip : {1u, 6u}) for (unsigned ln : {0u, 1u})
                  tuples->push_back({ft, 0, sh, dip, 0, ln, 1, 0, 0, 1});
        }
      // a growing thickness already implies a second segment that keeps the dip
      tuples->erase(std::remove_if(tuples->begin(), tuples->end(), [](const std::vector<unsigned> &d) { return d[7] == 1 && d[9] == 1; }), tuples->end());
      Suite a; a.name = "line"; a.n = tuples->size(); a.run = [tuples](uint64_t i, Ctx &c) { run_line(tuples, i, c); };
      a.bound = std::string(th ? "full product" : "all tuples within 3 deviations of the default") + " over radices (feature 2, coordinate setting 8, trench shape 4, dip 7, min depth 3, length 2, thickness 2, thickness growth 2, arc through the vertical 2, one plane 2; quick adds 24 shallow thin one-plane bodies under bent traces): " + std::to_string(tuples->size()) + " twin pairs";
      s.push_back(a);
    }
    {
      auto cases = surf_cases(th ? 3 : 2);
      Suite a; a.name = "surface"; a.n = cases->size(); a.run = [cases](uint64_t i, Ctx &c) { run_surface(cases, i, c); };
      a.bound = "3 base polygons (square, 8x1 rectangle, L-shape) x every subset of <= " + std::string(th ? "3" : "2") + " of 7 extra value points x {cartesian, spherical, spherical across 180, spherical beyond 180, cartesian turned by 30 degrees at (1e7,1e7)}";
      s.push_back(a);
    }
    return s;
  });
}
