// VARIANTS: rel
// C06 - slab and fault geometry equals the elementary planar construction for straight trenches.
// Reference: in the vertical plane perpendicular to the trench, u = horizontal distance from the trench towards
// the dip-point side, w = depth below the feature's min depth. The surface starts in (0,0) and follows, segment by
// segment, a straight line or a circular arc (dip varying linearly with arc length). Written from the property
// statement in long double; perpendicular feet are found by bracketing and bisection, not by the circle formulas
// the library uses.
#include "kit.h"
#include "wbgen.h"
using namespace kit;
using namespace wbgen;
using WorldBuilder::World;

namespace
{
  typedef long double LD;
  const LD PIl = 3.14159265358979323846264338327950288L;

  struct Seg { double length, dip0, dip1, thick0, thick1, trunc0, trunc1; };   // dips in degrees
  struct Table { std::vector<Seg> segs; };

  struct Curve
  {
    std::vector<Seg> segs;
    std::vector<LD> s0, u0, w0;   // start of each segment
    LD total = 0;
    explicit Curve(const std::vector<Seg> &s) : segs(s)
    {
      LD u = 0, w = 0, sl = 0;
      for (auto &g : segs)
        {
          s0.push_back(sl); u0.push_back(u); w0.push_back(w);
          LD uu, ww;
          point(segs.size(), g, u, w, g.length, uu, ww);
          u = uu; w = ww; sl += g.length;
        }
      total = sl;
    }
    static LD theta(const Seg &g, LD s) { return (g.dip0 + (g.dip1 - g.dip0) * s / g.length) * PIl / 180.0L; }
    // position at arc length s within segment g that starts in (ub, wb)
    static void point(size_t, const Seg &g, LD ub, LD wb, LD s, LD &u, LD &w)
    {
      const LD t0 = g.dip0 * PIl / 180.0L, t1 = theta(g, s);
      if (g.dip0 == g.dip1) { u = ub + s * cosl(t0); w = wb + s * sinl(t0); return; }
      const LD kappa = (g.dip1 - g.dip0) * PIl / 180.0L / g.length;
      u = ub + (sinl(t1) - sinl(t0)) / kappa;
      w = wb - (cosl(t1) - cosl(t0)) / kappa;
    }
    void at(size_t j, LD s, LD &u, LD &w, LD &th) const { point(0, segs[j], u0[j], w0[j], s, u, w); th = theta(segs[j], s); }
    struct Foot { bool found = false, ambiguous = false, on_joint = false; LD dist = 0, along = 0, seg_fraction = 0; size_t seg = 0; LD edge_margin = 0; LD g_start = 0, g_end = 0; };
    // closest perpendicular foot over all segments
    Foot foot(LD pu, LD pw) const
    {
      Foot best;
      { LD u, w, th; at(0, 0, u, w, th); best.g_start = (pu - u) * cosl(th) + (pw - w) * sinl(th); at(segs.size() - 1, segs.back().length, u, w, th); best.g_end = (pu - u) * cosl(th) + (pw - w) * sinl(th); }
      struct Cand { LD d, along, frac; size_t seg; };
      std::vector<Cand> cands;
      for (size_t j = 0; j < segs.size(); ++j)
        {
          const LD L = segs[j].length;
          auto g = [&](LD s) { LD u, w, th; at(j, s, u, w, th); return (pu - u) * cosl(th) + (pw - w) * sinl(th); };
          const int N = 400;
          LD prev_s = 0, prev_g = g(0);
          for (int i = 1; i <= N; ++i)
            {
              const LD s = L * i / N, gs = g(s);
              // a local minimum of the distance: g = (P - C(s)) . T(s) falls through zero
              if (prev_g >= 0 && gs <= 0 && !(prev_g == 0 && gs == 0))
                {
                  LD a = prev_s, b = s, ga = prev_g;
                  for (int it = 0; it < 200 && b - a > 1e-15L * L; ++it)
                    {
                      const LD m = 0.5L * (a + b), gm = g(m);
                      if ((ga >= 0) == (gm >= 0)) { a = m; ga = gm; }
                      else b = m;
                    }
                  const LD sf = 0.5L * (a + b);
                  LD u, w, th;
                  at(j, sf, u, w, th);
                  // normal pointing below the surface (into the slab): the down-dip tangent (cos, sin) rotated by +90 degrees in (u, w-down) coordinates
                  const LD d = -(pu - u) * sinl(th) + (pw - w) * cosl(th);
                  bool dup = false;
                  for (auto &c : cands) if (fabsl(c.along - (s0[j] + sf)) < 1e-3L) dup = true;   // the same foot seen from both sides of a joint
                  if (!dup) cands.push_back({d, s0[j] + sf, sf / L, j});
                }
              prev_s = s; prev_g = gs;
            }
        }
      if (cands.empty()) return best;
      std::sort(cands.begin(), cands.end(), [](const Cand &a, const Cand &b) { return fabsl(a.d) < fabsl(b.d); });
      best.found = true; best.dist = cands[0].d; best.along = cands[0].along; best.seg = cands[0].seg; best.seg_fraction = cands[0].frac;
      best.edge_margin = std::min(cands[0].along, total - cands[0].along);
      // a foot right at a joint where the dip jumps exists on one side of the joint only: within rounding it may or may not be found
      {
        const size_t j = cands[0].seg;
        const LD sl = cands[0].frac * segs[j].length;
        if (j > 0 && segs[j-1].dip1 != segs[j].dip0) best.edge_margin = std::min(best.edge_margin, sl);
        if (j + 1 < segs.size() && segs[j].dip1 != segs[j+1].dip0) best.edge_margin = std::min(best.edge_margin, segs[j].length - sl);
      }
      if (cands.size() > 1 && fabsl(cands[1].d) - fabsl(cands[0].d) < 100.0L) best.ambiguous = true;   // two feet at almost the same distance
      for (size_t j = 1; j < segs.size(); ++j) if (fabsl(cands[0].along - s0[j]) < 1e-6L) best.on_joint = true;   // the foot is the joint of two segments (to within a micrometre)
      return best;
    }
  };

  // ---------- alphabets ----------
  const int DIRS[6][2] = {{1,0},{0,1},{-1,0},{3,4},{-5,12},{1,1}};
  const double DIPS[] = {20, 45, 70, 90, 120};

  struct Config
  {
    bool fault = false, spherical = false;
    int dir = 0; bool left = false;
    std::vector<double> dips;      // n+1 values for n segments (continuous dip)
    std::vector<double> kink;      // if not empty: explicit (top, bottom) dip per segment, 2n values (dip may jump between segments)
    std::vector<double> lengths;
    int shape = 0;                 // 0: thickness 100 km, no truncation; 1: thickness [100,60] km per segment; 2: top truncation +10 km; 3: top truncation -10 km and thinning; 4: top truncation +70 km (faults get the truncation entries as well); 5: top truncation decreasing down dip from 50 km to 0
    double min_depth = 0, max_depth = -1;
    double dip_point_distance = -1;   // > 0: the dip point lies this far from the trench (above the feature itself) instead of far away; it only names the side
  };

  std::vector<Seg> table_of(const Config &c)
  {
    std::vector<Seg> t;
    const size_t n = c.lengths.size();
    for (size_t i = 0; i < n; ++i)
      {
        Seg g;
        g.length = c.lengths[i];
        if (c.kink.empty()) { g.dip0 = c.dips[i]; g.dip1 = c.dips[i+1]; }
        else { g.dip0 = c.kink[2*i]; g.dip1 = c.kink[2*i+1]; }
        g.thick0 = 1e5; g.thick1 = 1e5; g.trunc0 = 0; g.trunc1 = 0;
        if (c.shape == 1 || c.shape == 3) { g.thick0 = 1e5 - 4e4 * i / n; g.thick1 = 1e5 - 4e4 * (i + 1) / n; }
        if (c.shape == 2) { g.trunc0 = 1e4; g.trunc1 = 1e4; }
        if (c.shape == 3) { g.trunc0 = -1e4 + 5e3 * i; g.trunc1 = -1e4 + 5e3 * (i + 1); }
        if (c.shape == 4) { g.trunc0 = 7e4; g.trunc1 = 7e4; }
        if (c.shape == 5) { g.trunc0 = 5e4 * (1.0 - static_cast<double>(i) / n); g.trunc1 = 5e4 * (1.0 - static_cast<double>(i + 1) / n); }   // a truncation that decreases down dip (50 km at the trench, none at the tip)   // more than half of the thickness (a fault is centred on its plane: its membership does not look at the truncation at all)
        t.push_back(g);
      }
    return t;
  }
  std::string describe(const Config &c)
  {
    return JObj().str("feature", c.fault ? "fault" : "subducting plate").boolean("spherical", c.spherical).raw("trench_direction", "[" + std::to_string(DIRS[c.dir][0]) + "," + std::to_string(DIRS[c.dir][1]) + "]")
           .str("dip_side", c.left ? "left of the trench direction" : "right of the trench direction").raw("dips", jarr(c.kink.empty() ? c.dips : c.kink)).boolean("dip_jumps_between_segments", !c.kink.empty()).raw("lengths", jarr(c.lengths)).integer("shape", c.shape).num("min_depth", c.min_depth).num("max_depth", c.max_depth).num("dip_point_distance_from_trench", c.dip_point_distance).done();
  }

  struct Frame { P2 A, B, n; double len; };   // trench from A to B, unit normal towards the dip side (cartesian metres or degrees)
  Frame frame_of(const Config &c)
  {
    Frame f;
    const double s = c.spherical ? 1.0 : 1e5;
    const double dx = DIRS[c.dir][0], dy = DIRS[c.dir][1];
    const double norm = std::sqrt(dx*dx + dy*dy);
    const double span = 4.0;    // trench length in lattice units
    f.A = {{1.0 * s, -1.0 * s}};
    f.B = {{f.A[0] + span * dx / norm * s, f.A[1] + span * dy / norm * s}};
    f.len = span * s;
    // right of the direction (dx,dy) is (dy,-dx)
    f.n = c.left ? P2{{-dy / norm, dx / norm}} : P2{{dy / norm, -dx / norm}};
    return f;
  }

  std::string world_text(const Config &c)
  {
    const Frame f = frame_of(c);
    const auto tab = table_of(c);
    std::string segs = "[";
    for (size_t i = 0; i < tab.size(); ++i)
      {
        const Seg &g = tab[i];
        segs += std::string(i ? "," : "") + "{\"length\":" + num(g.length) + ",\"thickness\":[" + num(g.thick0) + "," + num(g.thick1) + "],\"angle\":[" + num(g.dip0) + "," + num(g.dip1) + "]"
                + ",\"top truncation\":[" + num(g.trunc0) + "," + num(g.trunc1) + "]}";
      }
    segs += "]";
    const double far = c.dip_point_distance > 0 ? c.dip_point_distance : c.spherical ? 40.0 : 5e6;
    const P2 dip = {{0.5*(f.A[0]+f.B[0]) + far * f.n[0], 0.5*(f.A[1]+f.B[1]) + far * f.n[1]}};
    // the linear temperature encodes the distance from the plane: T = 1000 + distance / 1000 (slab), 1000 + |distance| / 1000 (fault)
    const std::string tm = c.fault ? "{\"model\":\"linear\",\"max distance fault center\":1e6,\"center temperature\":1000,\"side temperature\":2000}"
                           : "{\"model\":\"linear\",\"min distance slab top\":-1e6,\"max distance slab top\":1e6,\"top temperature\":0,\"bottom temperature\":2000}";
    std::string feat = std::string("{\"model\":\"") + (c.fault ? "fault" : "subducting plate") + "\",\"name\":\"F\",\"coordinates\":[" + pt(f.A) + "," + pt(f.B) + "],\"dip point\":" + pt(dip)
                       + ",\"min depth\":" + num(c.min_depth) + (c.max_depth > 0 ? ",\"max depth\":" + num(c.max_depth) : "") + ",\"segments\":" + segs + ",\"temperature models\":[" + tm + "],\"composition models\":[{\"model\":\"uniform\",\"compositions\":[0]}]}";
    return world(coord(c.spherical), {feat});
  }

  void run_case(const Config &c, uint64_t idx, Ctx &ctx)
  {
    static const int c_dist = Ctx::counter_id("distance_comparisons"), c_member = Ctx::counter_id("membership_comparisons"), c_inside = Ctx::counter_id("probes_inside_the_feature"),
                     c_skip = Ctx::counter_id("skipped_near_boundary_or_ambiguous_foot"), c_temp = Ctx::counter_id("temperature_encoded_distance_comparisons");
    const Frame f = frame_of(c);
    const auto tab = table_of(c);
    const Curve curve(tab);
    const std::string text = world_text(c);
    std::unique_ptr<World> w;
    try { w = make_world(text); }
    catch (const std::exception &e) { ctx.violation("C06/world-rejected", JObj().str("what", std::string(e.what()).substr(0, 400)).raw("config", describe(c)).str("world", text).done()); return; }
    // every fourth configuration: a second world in which another feature is listed before "F" (a small mantle layer far away, which changes no answer);
    // the named-feature query is asked of the two worlds in turn, so that anything it remembers about where "F" sits in a list is stale
    std::unique_ptr<World> w2;
    if (idx % 4 == 0)
      {
        const std::string marker = "\"features\":[";
        const size_t at = text.find(marker);
        if (at != std::string::npos)
          {
            std::string t2 = text;
            const double s2 = c.spherical ? 1.0 : 1e5;
            t2.insert(at + marker.size(), "{\"model\":\"mantle layer\",\"name\":\"Z\",\"min depth\":6e5,\"max depth\":6.1e5,\"coordinates\":[[" + num(60*s2) + "," + num(60*s2) + "],[" + num(61*s2) + "," + num(60*s2) + "],[" + num(61*s2) + "," + num(61*s2) + "],[" + num(60*s2) + "," + num(61*s2) + "]]},");
            try { w2 = make_world(t2, 1, "w2"); } catch (const std::exception &) { w2.reset(); }
          }
      }
    const double total = static_cast<double>(curve.total);
    const double tol = 1e-6 * total;
    uint64_t inside_count = 0, probe_counter = 0;
    double worst = 0;
    // probes: trench parameter t x horizontal offset u x depth
    const std::vector<double> TS = {-0.05, 0.0, 0.13, 0.5, 0.77, 1.0, 1.05};
    std::vector<double> US, DS;
    for (double u = -0.6; u <= 1.45; u += 0.1) US.push_back(u * total);
    US.push_back(0.0);
    for (double d = 0.0; d <= 1.25; d += 0.0625) DS.push_back(d * total);
    if (c.min_depth > 0) { DS.push_back(-1e4); DS.push_back(-c.min_depth); }   // above the feature's min depth
    for (double t : TS) for (double u : US) for (double dfrac : DS)
          {
            const double depth = c.min_depth + dfrac;   // depth below the surface; w = depth - min depth
            const double px = f.A[0] + t * (f.B[0] - f.A[0]) + (c.spherical ? 0 : u) * f.n[0];
            const double py = f.A[1] + t * (f.B[1] - f.A[1]) + (c.spherical ? 0 : u) * f.n[1];
            if (c.spherical) continue;   // spherical worlds are handled by run_spherical
            const P3 p = {{px, py, CART_TOP - depth}};
            ctx.eval();
            const LD pw = static_cast<LD>(depth) - c.min_depth;
            const Curve::Foot ft = curve.foot(u, pw);
            // --- distances ---
            WorldBuilder::Objects::PlaneDistances pd(0, 0);
            // both orders of the two entry points occur: at every other probe the property query comes first
            ++probe_counter;
            if (probe_counter % 2 == 1) (void)w->properties(p, depth, {{{4,0,0}},{{1,0,0}}});
            try { pd = w->distance_to_plane(p, depth, "F"); }
            catch (const std::exception &e) { ctx.violation("C06/distance-to-plane-throws", JObj().str("what", std::string(e.what()).substr(0, 300)).raw("config", describe(c)).raw("point", jarr(p)).num("depth", depth).str("world", text).done()); return; }
            const double dfrom = pd.get_distance_from_surface(), dalong = pd.get_distance_along_surface();
            if (w2)
              {
                bool same = false; std::string what2;
                try { const auto q2 = w2->distance_to_plane(p, depth, "F"); same = biteq(q2.get_distance_from_surface(), dfrom) && biteq(q2.get_distance_along_surface(), dalong); }
                catch (const std::exception &e) { what2 = std::string(e.what()).substr(0, 200); }
                if (!same)
                  { ctx.violation("C06/" + std::string(c.fault ? "fault" : "subducting plate") + "/distance-to-plane-differs-in-a-world-that-lists-another-feature-first", JObj().str("what", "distance_to_plane(\"F\") asked of two worlds in turn: the world with a far-away mantle layer listed before F answers differently (or throws: " + what2 + ")").raw("config", describe(c)).raw("point", jarr(p)).num("depth", depth).str("world", text).done()); return; }
              }
            const bool foot_on_trench = t >= 0 && t <= 1;
            auto detail = [&](const std::string &what)
            {
              return JObj().str("what", what).raw("config", describe(c)).raw("point", jarr(p)).num("depth", depth).num("trench_parameter", t).num("u_horizontal_offset_towards_dip_side", u).num("w_depth_below_min_depth", static_cast<double>(pw))
                     .boolean("reference_foot_found", ft.found).num("reference_distance_from_plane", static_cast<double>(ft.dist)).num("reference_distance_along_plane", static_cast<double>(ft.along))
                     .num("library_distance_from_plane", dfrom).num("library_distance_along_plane", dalong).str("world", text).done();
            };
            // directly under the trench line (|u| below a micrometre but not zero) the library builds its local frame from a vector of rounding-noise
            // length; the answer is still continuous there but only good to a few 1e-6 of the length
            const double tol_here = (std::fabs(u) < 1e-6) ? 10 * tol : tol;
            // within rounding of having a foot exactly at the start or at the tip of the surface: another foot may or may not exist there
            const bool near_an_end = fabsl(ft.g_start) < 10 * tol || fabsl(ft.g_end) < 10 * tol;
            const bool well_inside_curve = ft.found && !ft.ambiguous && !near_an_end && ft.edge_margin > 10 * tol;
            if (well_inside_curve && t > 0.001 && t < 0.999)
              {
                ctx.count(c_dist);
                worst = std::max(worst, std::max(std::fabs(dfrom - static_cast<double>(ft.dist)), std::fabs(dalong - static_cast<double>(ft.along))));
                if (!(std::fabs(dfrom - static_cast<double>(ft.dist)) <= tol_here)) { ctx.violation("C06/" + std::string(c.fault ? "fault" : "subducting plate") + "/distance-from-plane" + (ft.on_joint ? "/foot-exactly-on-a-segment-joint" : ""), detail("distance_to_plane: distance below the surface differs from the planar construction")); if (ft.on_joint) continue; return; }
                if (!(std::fabs(dalong - static_cast<double>(ft.along)) <= tol_here)) { ctx.violation("C06/" + std::string(c.fault ? "fault" : "subducting plate") + "/distance-along-plane" + (ft.on_joint ? "/foot-exactly-on-a-segment-joint" : ""), detail("distance_to_plane: distance along the surface differs from the planar construction")); if (ft.on_joint) continue; return; }
              }
            // --- membership ---
            const std::vector<double> ans = w->properties(p, depth, {{{4,0,0}},{{1,0,0}}});
            const bool is_in = ans[0] >= 0;
            {
              // the public distance query must not depend on what was asked before: ask again after the property query of the same point
              const auto pd2 = w->distance_to_plane(p, depth, "F");
              if (!biteq(pd2.get_distance_from_surface(), dfrom) || !biteq(pd2.get_distance_along_surface(), dalong))
                { ctx.violation("C06/" + std::string(c.fault ? "fault" : "subducting plate") + "/distance-to-plane-depends-on-the-previous-query", detail("distance_to_plane answered differently before and after a property query at the same point; second answer " + std::to_string(pd2.get_distance_from_surface()) + " / " + std::to_string(pd2.get_distance_along_surface()))); return; }
            }
            bool expect_in = false, decided = false;
            double margin = 1e300;
            if (c.min_depth > depth || (c.max_depth > 0 && depth > c.max_depth)) { expect_in = false; decided = true; margin = std::min(std::fabs(depth - c.min_depth), c.max_depth > 0 ? std::fabs(depth - c.max_depth) : 1e300); }
            else if (!foot_on_trench) { expect_in = false; decided = true; margin = std::min(std::fabs(t), std::fabs(t - 1)) * f.len; }
            else if (!ft.found)
              {
                // no perpendicular foot on the surface: outside, unless the probe is within rounding of having one at the start or at the tip
                expect_in = false; decided = true;
                margin = static_cast<double>(std::min(fabsl(ft.g_start), fabsl(ft.g_end)));
                // past the start and before the tip, yet no foot: the wedge on the convex side of a dip jump, where the statement does not say which segment counts
                if (ft.g_start > 0 && ft.g_end < 0) decided = false;
                // the library reports a foot exactly where two segments join (the reference, in long double, can miss a foot that lies on the joint itself
                // when its parameter falls a rounding error outside of both segments): on the joint nothing is claimed
                if (std::isfinite(dalong))
                  {
                    double joint = 0;
                    for (size_t j = 0; j + 1 < tab.size(); ++j) { joint += tab[j].length; if (std::fabs(dalong - joint) < 10 * tol) decided = false; }
                  }
              }
            else if (!ft.ambiguous)
              {
                const Seg &g = tab[ft.seg];
                const LD thick = g.thick0 + (g.thick1 - g.thick0) * ft.seg_fraction, trunc = g.trunc0 + (g.trunc1 - g.trunc0) * ft.seg_fraction;
                const LD lo = c.fault ? -0.5L * thick : trunc, hi = c.fault ? 0.5L * thick : thick;
                expect_in = ft.dist >= lo && ft.dist <= hi;
                margin = static_cast<double>(std::min(std::min(fabsl(ft.dist - lo), fabsl(ft.dist - hi)), ft.edge_margin));
                margin = std::min(margin, std::min(std::fabs(t), std::fabs(t - 1)) * f.len);
                margin = std::min(margin, std::min(std::fabs(depth - c.min_depth) + (depth == c.min_depth ? 1e300 : 0), c.max_depth > 0 ? std::fabs(depth - c.max_depth) : 1e300));
                decided = true;
              }
            if (!decided || near_an_end || margin < 10 * tol) { ctx.count(c_skip); continue; }
            ctx.count(c_member);
            if (is_in) ++inside_count;
            if (expect_in != is_in) { ctx.violation("C06/" + std::string(c.fault ? "fault" : "subducting plate") + (expect_in ? "/member-point-reported-outside" : "/outside-point-reported-inside") + (ft.found && ft.on_joint ? "/foot-exactly-on-a-segment-joint" : ""), detail(std::string("membership differs from the planar construction; expected ") + (expect_in ? "inside" : "outside"))); return; }
            if (is_in)
              {
                // the linear temperature encodes the distance from the plane the feature itself used
                ctx.count(c_temp);
                const double enc = c.fault ? (ans[1] - 1000.0) * 1e3 : (ans[1] - 1000.0) * 1e3;
                const double ref = c.fault ? fabsl(ft.dist) : static_cast<double>(ft.dist);
                if (!(std::fabs(enc - ref) <= 10 * tol + 1e-9 * std::fabs(ref))) { ctx.violation("C06/" + std::string(c.fault ? "fault" : "subducting plate") + "/distance-used-by-the-temperature-model", detail("the linear temperature model saw a different distance from the plane than the planar construction; decoded " + std::to_string(enc))); return; }
              }
          }
    ctx.count(c_inside, inside_count);
    if (inside_count > 5) ctx.nontrivial();
    if (idx % 211 == 7) ctx.sample(JObj().raw("config", describe(c)).integer("probes_inside", static_cast<long long>(inside_count)).num("largest_distance_deviation_m", worst).done());
  }

  std::vector<Config> configs(bool th)
  {
    std::vector<Config> v;
    unsigned rr = 0;
    auto add = [&](Config c, bool all_dirs)
    {
      if (all_dirs)
        for (int d = 0; d < 6; ++d) for (int l = 0; l < 2; ++l) { c.dir = d; c.left = l; v.push_back(c); }
      else { c.dir = rr % 6; c.left = (rr / 6) % 2; ++rr; v.push_back(c); }
    };
    const std::vector<double> dips(DIPS, DIPS + 5);
    for (int fault = 0; fault < 2; ++fault)
      {
        // one segment: every (dip0, dip1), every direction and side, every shape
        for (double d0 : dips) for (double d1 : dips) for (int shape = 0; shape < 6; ++shape)
              {
                Config c; c.fault = fault; c.dips = {d0, d1}; c.lengths = {1e5}; c.shape = shape;
                add(c, th || shape == 0);
              }
        // two segments, continuous dip
        for (double d0 : dips) for (double d1 : dips) for (double d2 : dips) for (int lv = 0; lv < 2; ++lv)
                {
                  Config c; c.fault = fault; c.dips = {d0, d1, d2}; c.lengths = lv ? std::vector<double>{1e5, 0.5e5} : std::vector<double>{1e5, 1e5}; c.shape = (rr % 6);
                  add(c, false);
                  if (th) for (int shape = 0; shape < 6; ++shape) { c.shape = shape; add(c, false); }
                }
        // two segments with a dip jump between them (concave and convex kinks), straight and arc pieces
        for (double d0 : dips) for (double d1 : dips)
            {
              if (d0 == d1) continue;
              for (int pat = 0; pat < 3; ++pat)
                {
                  Config c; c.fault = fault; c.lengths = {1e5, 1e5}; c.dips = {d0, d0, d1};
                  c.kink = pat == 0 ? std::vector<double>{d0, d0, d1, d1} : pat == 1 ? std::vector<double>{d0, 0.5*(d0+d1) - 10, d1, d1} : std::vector<double>{d0, d0, d1, d1 + 15};
                  for (int shape : {0, 3}) { c.shape = shape; add(c, false); }
                }
            }
        // dips that differ by a few thousandths of a degree: still an arc (of a very large radius), not a plane
        for (double d0 : {45.0, 90.0, 20.0}) for (double eps : {0.005, -0.005, 0.002})
            {
              Config c; c.fault = fault; c.dips = {d0, d0 + eps}; c.lengths = {3e5}; c.shape = 0;
              add(c, false);
              Config c2; c2.fault = fault; c2.dips = {d0, d0 + eps, 60.0}; c2.lengths = {2e5, 1e5}; c2.shape = 0;
              add(c2, false);
            }
        // the dip point close to the trench, above the feature (it only names the side the feature dips to)
        for (double dd : {2e5, 0.4e5, 1.1e5}) for (double d0 : {30.0, 45.0, 90.0})
            {
              Config c; c.fault = fault; c.dips = {d0, d0}; c.lengths = {3e5}; c.shape = 0; c.dip_point_distance = dd;
              add(c, th);
            }
        // min depth / max depth variants
        for (double d0 : {20.0, 70.0}) for (double d1 : {45.0, 90.0}) for (double mind : {0.0, 3e4, -4e4}) for (double maxd : {-1.0, 9e4})
                {
                  if (mind == 0 && maxd < 0) continue;
                  Config c; c.fault = fault; c.dips = {d0, d1}; c.lengths = {1.5e5}; c.min_depth = mind; c.max_depth = maxd; c.shape = 0;
                  add(c, th);
                }
        if (th)
          for (double d0 : dips) for (double d1 : dips) for (double d2 : dips) for (double d3 : dips)
                  {
                    Config c; c.fault = fault; c.dips = {d0, d1, d2, d3}; c.lengths = {0.5e5, 1e5, 0.5e5}; c.shape = (rr % 6);
                    add(c, false);
                  }
      }
    return v;
  }
}

int main(int argc, char **argv)
{
  Spec spec;
  spec.property = "C06";
  spec.level = "exploration";
  spec.rule = "cartesian worlds with one slab or fault on a two-point trench: every (top dip, bottom dip) pair from {20,45,70,90,120} for one segment (straight and arc, also overturning) in every trench direction of "
              "{(1,0),(0,1),(-1,0),(3,4),(-5,12),(1,1)} and on both dip sides; every continuous-dip table of two | three segments with two length patterns; two-segment tables with a dip jump (straight-straight, arc-straight, straight-arc); thickness / top-truncation shapes; min / max depth windows. "
              "Probes: 7 trench parameters (incl. beyond both ends and exactly on them) x 22 horizontal offsets x 21 depths. non-trivial: more than 5 probes inside the feature";
  spec.assumptions = {"reference: planar construction in long double written from the property statement; feet by bracketing + bisection on the perpendicularity condition, 400 brackets per segment",
                      "distances are compared (tolerance 1e-6 x total length; 1e-5 x total length for probes less than a micrometre from the vertical plane through the trench, where the local frame is ill-conditioned) where the reference foot is unique and more than 10 tolerances away from both ends of the surface; membership where the margin to every limit exceeds 10 tolerances; the rest is counted as skipped",
                      "most segment tables have continuous dip; tables with a dip jump are included too: where two segments offer a perpendicular foot the nearer one counts (skipped when they are within 100 m of each other), and the wedge on the convex side of a jump, where no foot exists, is not judged",
                      "spherical worlds are not covered by this check: the statement's planar construction is unambiguous only in cartesian worlds (in spherical worlds it depends on the depth method)"
                     };
  spec.counters = {"distance_comparisons", "membership_comparisons", "probes_inside_the_feature", "skipped_near_boundary_or_ambiguous_foot", "temperature_encoded_distance_comparisons"};
  spec.quick_deadline_s = 240;
  spec.thorough_deadline_s = 1500;
  return driver(argc, argv, spec, [](const std::string &tier)
  {
    static std::vector<Config> cs;
    cs = configs(tier == "thorough");
    std::vector<Suite> s(1);
    s[0].name = "planar";
    s[0].n = cs.size();
    s[0].run = [](uint64_t i, Ctx &c) { run_case(cs[i], i, c); };
    s[0].bound = std::to_string(cs.size()) + " slab / fault worlds on straight two-point trenches";
    s[0].describe = [](uint64_t i) { return describe(cs[i]); };
    return s;
  });
}
